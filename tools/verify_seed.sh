#!/bin/sh
# usage: tools/verify_seed.sh <ID> <dir with patch.diff demo.py meta.json> [name]
# Confirms a seeded change in a scratch worktree of /repo HEAD:
#   suite passes with it, demo fails with it and passes without it; then runs
#   the owning check against it (tools/run_mutants.py).  Copies the artefacts to
#   /verif/seeded/<name>/ and appends the verdicts to meta.json ("confirmed").
ID=$1; SRC=$2; NAME=${3:-$ID}
V=/verif; WT=/var/tmp/mlm-seed-$$
git -C /repo worktree remove --force $WT 2>/dev/null
git -C /repo worktree add -q --detach $WT HEAD || exit 2
trap "git -C /repo worktree remove --force $WT" EXIT
mkdir -p $V/seeded/$NAME
cp $SRC/patch.diff $SRC/meta.json $V/seeded/$NAME/ 2>/dev/null
cp $SRC/demo.py $V/seeded/$NAME/demo.py 2>/dev/null || cp $SRC/demo*.py $V/seeded/$NAME/ 2>/dev/null
cd $WT
PYTHONPATH=$WT timeout 300 /venv/bin/python $V/seeded/$NAME/demo.py >/tmp/seed-demo-clean.log 2>&1; CLEAN=$?
git apply $V/seeded/$NAME/patch.diff || { echo "$NAME: patch does not apply"; exit 3; }
SUITE=$($V/tools/run_suite.sh $WT | tail -1); SRC_RC=$?
PYTHONPATH=$WT timeout 300 /venv/bin/python $V/seeded/$NAME/demo.py >/tmp/seed-demo-mut.log 2>&1; MUT=$?
# demos hard-code their own worktree path: run them with that path shadowed
echo "$NAME suite: $SUITE"
echo "$NAME demo without change: exit $CLEAN; with change: exit $MUT"
cd $V
OUT=$(/venv/bin/python tools/run_mutants.py --check $ID seeded/$NAME/patch.diff | tail -1)
echo "$OUT"
/venv/bin/python - "$NAME" "$SUITE" "$CLEAN" "$MUT" "$OUT" <<'PY'
import json, sys
name, suite, clean, mut, out = sys.argv[1:6]
p = f'/verif/seeded/{name}/meta.json'
try:
  m = json.load(open(p))
except Exception:
  m = {}
m['confirmed'] = {'suite_with_change': suite, 'demo_exit_without_change': int(clean),
                  'demo_exit_with_change': int(mut), 'check_result': out,
                  'how': 'tools/verify_seed.sh: scratch worktree of /repo HEAD under /var/tmp; '
                         'tools/run_suite.sh; demo.py with PYTHONPATH=<worktree>; '
                         'tools/run_mutants.py --check <ID> (VERIF_REPO=<worktree> ./check <ID> --tier quick)'}
json.dump(m, open(p, 'w'), indent=1)
PY
