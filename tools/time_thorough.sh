#!/bin/sh
# measures the thorough tier of the given checks (timing only; run via `vp run`)
for c in "$@"; do
  /usr/bin/time -f "$c thorough wall=%es user=%Us" timeout 3600 ./check $c --tier thorough 2>&1 | grep -v "^  detail" | tail -4 | cut -c1-300
done
