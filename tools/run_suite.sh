#!/bin/sh
# Runs the pinned test-suite of a ml-metrics tree (default /repo) in parallel
# and prints the summary line; exit 0 iff >= 657 passed and 0 failed.
DIR=${1:-/repo}
cd "$DIR" || exit 2
OUT=$(/venv/bin/python -m pytest -q -p no:cacheprovider --timeout=900 \
  --continue-on-collection-errors -n ${JOBS:-12} 2>&1 | tail -3)
echo "$OUT" | tail -1
echo "$OUT" | tail -1 | grep -q "failed" && exit 1
echo "$OUT" | tail -1 | grep -Eq "(65[7-9]|6[6-9][0-9]|[7-9][0-9][0-9]) passed" || exit 1
exit 0
