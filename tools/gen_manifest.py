#!/venv/bin/python
"""Generates /verif/MANIFEST.json from checks/registry.py.

A property is claimed iff checks/<id>.py exists *and* the registry marks it
ready; everything else is listed under not_applicable with the reason
"not built yet" (never silently dropped).
"""
import json
import os
import sys

ROOT = os.path.dirname(os.path.dirname(os.path.abspath(__file__)))
sys.path.insert(0, ROOT)
from checks import registry  # noqa: E402

BASELINE = ('cd /repo && /venv/bin/python -m pytest -ra -q -p no:cacheprovider '
            '--timeout=900 --continue-on-collection-errors')


def main():
  props = [json.loads(l)['id'] for l in open(os.path.join(ROOT, 'properties.jsonl'))]
  checks, na = [], []
  for pid in props:
    meta = registry.CHECKS.get(pid)
    have = os.path.exists(os.path.join(ROOT, 'checks', pid.lower() + '.py'))
    if not meta or not meta.get('ready') or not have:
      reason = (meta or {}).get('na_reason') or (
          'check not built yet in this revision of /verif (planned, see '
          'DESIGN.md section 3); nothing is claimed for it')
      na.append({'property_id': pid, 'reason': reason})
      continue
    checks.append({
        'property_id': pid,
        'quick_cmd': f'./check {pid} --tier quick',
        'thorough_cmd': f'./check {pid} --tier thorough',
        'evidence_file': f'/verif/evidence/{pid}.json',
        'replay_cmd_template': f'./check {pid} --replay {{path}}',
        'engine': meta['engine'],
        'level_claimed': {
            'category': meta['level'],
            'text': meta['text'],
            'design_ref': f'DESIGN.md section 3, {pid}',
        },
        'level_note': meta['note'],
        'technique': meta['technique'],
    })
  manifest = {
      'version': 1,
      'setup_cmd': 'cd /verif && ./setup.sh',
      'hooks': {
          'guard': 'ML_METRICS_VERIF',
          'enable': ('no source hooks exist: all seams are taken from outside by '
                     'rebinding module globals inside the checker process; checks '
                     'import ml_metrics straight from /repo (sys.path[0]=/repo)'),
          'baseline_off_cmd': BASELINE,
          'source_commits': registry.HOOK_COMMITS,
          'add_only': True,
      },
      'engines': registry.ENGINES,
      'checks': checks,
      'not_applicable': na,
      'notes': registry.NOTES,
  }
  with open(os.path.join(ROOT, 'MANIFEST.json'), 'w') as f:
    json.dump(manifest, f, indent=1)
    f.write('\n')
  print(f'claimed={len(checks)} not_applicable={len(na)}')


if __name__ == '__main__':
  main()
