#!/venv/bin/python
"""Runs checks against property-breaking patches, in a scratch worktree.

  tools/run_mutants.py mutants/C09-*.patch          # owning check from the file name
  tools/run_mutants.py --check C04 seeded/C04-x/patch.diff
  tools/run_mutants.py --all-checks seeded/C04-x/patch.diff

For every patch: `git worktree add` a scratch copy of /repo HEAD under /var/tmp,
apply the patch, run `./check <ID> --tier quick` with VERIF_REPO pointing to the
copy (so /repo itself is never touched), record DETECTED (exit 1 + VIOLATION
line) / MISSED (exit 0) / STALE (patch does not apply), remove the copy.
Results are appended to mutants/RESULTS.tsv.
"""
import argparse
import os
import re
import subprocess
import sys
import time

ROOT = os.path.dirname(os.path.dirname(os.path.abspath(__file__)))
ALL = [f'C{i:02d}' for i in range(1, 21)]


def sh(cmd, **kw):
  return subprocess.run(cmd, shell=True, capture_output=True, text=True, **kw)


def main():
  ap = argparse.ArgumentParser()
  ap.add_argument('patches', nargs='+')
  ap.add_argument('--check', default='')
  ap.add_argument('--all-checks', action='store_true')
  ap.add_argument('--tier', default='quick')
  ap.add_argument('--keep-evidence', action='store_true')
  args = ap.parse_args()
  results = []
  for patch in args.patches:
    patch = os.path.abspath(patch)
    name = os.path.basename(os.path.dirname(patch)) if os.path.basename(
        patch) == 'patch.diff' else os.path.basename(patch)
    m = re.match(r'(C\d\d)', name)
    checks = ALL if args.all_checks else (
        args.check.split(',') if args.check else ([m.group(1)] if m else []))
    checks = [c for c in checks
              if os.path.exists(os.path.join(ROOT, 'checks', c.lower() + '.py'))]
    wt = f'/var/tmp/mlm-mut-{os.getpid()}'
    sh(f'git -C /repo worktree remove --force {wt}')
    r = sh(f'git -C /repo worktree add -q --detach {wt} HEAD')
    if r.returncode:
      print('cannot create worktree', r.stderr)
      return 2
    try:
      r = sh(f'git -C {wt} apply --3way {patch} || git -C {wt} apply {patch}')
      if r.returncode:
        print(f'{name}\tSTALE\t-\t{r.stderr.strip()[:100]}')
        results.append((name, '-', 'STALE', ''))
        continue
      for c in checks:
        ev = os.path.join(ROOT, 'evidence', f'{c}.json')
        saved = open(ev).read() if os.path.exists(ev) else None
        t0 = time.time()
        r = sh(f'cd {ROOT} && VERIF_REPO={wt} ./check {c} --tier {args.tier}')
        if saved is not None and not args.keep_evidence:
          open(ev, 'w').write(saved)      # evidence must describe /repo itself
        sigs = sorted(set(re.findall(r'^  sig=(.*)$', r.stdout, re.M)))
        verdict = ('DETECTED' if r.returncode == 1 and 'VIOLATION property=' in r.stdout
                   else 'MISSED' if r.returncode == 0 else f'ERROR({r.returncode})')
        print(f'{name}\t{c}\t{verdict}\t{time.time() - t0:.0f}s\t'
              f'{len(sigs)} sig(s): {"; ".join(sigs[:3])[:200]}')
        if verdict.startswith('ERROR'):
          print(r.stdout[-800:], r.stderr[-800:])
        results.append((name, c, verdict, '; '.join(sigs[:3])[:300]))
    finally:
      sh(f'git -C /repo worktree remove --force {wt}')
  with open(os.path.join(ROOT, 'mutants', 'RESULTS.tsv'), 'a') as f:
    for row in results:
      f.write('\t'.join((time.strftime('%Y-%m-%dT%H:%M'),) + row) + '\n')
  return 0


if __name__ == '__main__':
  sys.exit(main())
