#!/usr/bin/env python3-vt
"""Validates evidence/*.json and MANIFEST.json against the given schemas."""
import glob, json, os, sys
import jsonschema
root = os.path.dirname(os.path.dirname(os.path.abspath(__file__)))
ev = json.load(open('/root/.vp/EVIDENCE.schema.json'))
ms = json.load(open('/root/.vp/MANIFEST.schema.json'))
bad = 0
try:
  jsonschema.validate(json.load(open(os.path.join(root, 'MANIFEST.json'))), ms)
  print('MANIFEST.json ok')
except Exception as e:
  bad += 1; print('MANIFEST.json INVALID', str(e)[:300])
for p in sorted(glob.glob(os.path.join(root, 'evidence', '*.json'))):
  try:
    jsonschema.validate(json.load(open(p)), ev); print(os.path.basename(p), 'ok')
  except Exception as e:
    bad += 1; print(os.path.basename(p), 'INVALID', str(e)[:300])
sys.exit(1 if bad else 0)
