"""C06 - distributed runs survive worker timeouts and deaths.

Fault enumeration (E1+E2) on the real scheduler code: orchestrate.as_completed,
WorkerPool.run and WorkerPool.call_and_wait drive real CourierServers over the
fake transport; the environment answers every task RPC from the menu
{ok, deadline-before, deadline-after, kill}; *every* placement of up to d
faults (d = 1 quick, 2 thorough) over the calls of a run is executed under the
default schedule with virtual time (heartbeats pushed every 60 s as in the
upstream tests; a pull-only configuration is explored as well).
Oracle: fault-free results, each exactly once; errors surface; workers released.

Also explored (see ctx.rule for the bounds): sharded pipelines over
PrefetchedCourierServers (sharded_pipelines_as_iterator) under the same menu
plus the death of any other worker at any RPC boundary and a slow consumer;
fault-free runs with late replies; worker shuffles as environment choices; a
killed worker rejoining (kill + restart); one orchestrator pause at any line;
the smallest configuration under schedule exploration.
"""
from vmc import charness, explorer

PROPERTY = 'C06'
LEVEL = 'fault_enumeration'
MODULE = 'vmc.charness'
MENU = ['deadline-before', 'deadline-after', 'kill']
# 'kill-other': at any RPC boundary any other live worker may die


def configs(tier):
  ac = 'as_completed'
  out = []
  for push in (True, False):
    for W, T in ((1, 1), (1, 2), (2, 1), (2, 2), (2, 3), (3, 3), (2, 4)):
      out.append((ac, dict(W=W, T=T, menu=MENU, push=push)))
    for W, T, bad in ((1, 2, 0), (2, 2, 0), (2, 2, 1), (2, 3, 1), (3, 3, 2)):
      out.append((ac, dict(W=W, T=T, bad=bad, menu=MENU, push=push)))
      out.append((ac, dict(W=W, T=T, bad=bad, ignore=True, menu=MENU, push=push)))
    for W, T in ((1, 2), (2, 2)):
      out.append((ac, dict(W=W, T=T, driver='run', menu=MENU, push=push)))
      out.append((ac, dict(W=W, T=T, bad=0, driver='run', menu=MENU, push=push)))
    out.append((ac, dict(W=2, T=1, driver='call_and_wait', menu=MENU, push=push)))
    out.append((ac, dict(W=2, T=1, bad=0, driver='call_and_wait', menu=MENU,
                         push=push)))
    # a task that cannot even be sent (client-side submission failure)
    for drv in ('as_completed', 'run', 'call_and_wait'):
      out.append((ac, dict(W=2, T=2 if drv != 'call_and_wait' else 1, bad=0,
                           bad_kind='unpicklable', driver=drv, menu=MENU,
                           push=push)))
    out.append((ac, dict(W=2, T=3, bad=1, bad_kind='unpicklable', ignore=True,
                         menu=MENU, push=push)))
  return out


def sharded_configs(tier):
  out = []
  for W, S, total in ((1, 1, 4), (1, 2, 4), (2, 2, 5), (2, 3, 6), (2, 1, 3)):
    for ibs in (1, 2):
      out.append(('sharded', dict(W=W, S=S, total=total, batch=2, ibs=ibs,
                                  menu=MENU)))
  out.append(('sharded', dict(W=2, S=3, total=6, batch=2, menu=MENU, retry=0)))
  out.append(('sharded', dict(W=2, S=2, total=5, batch=2, menu=MENU, retry=1)))
  out.append(('sharded', dict(W=2, S=2, total=4, batch=2, fuse=False, menu=MENU)))
  out.append(('sharded', dict(W=2, S=2, total=5, batch=2, menu=MENU, push=False)))
  # a worker may die at any RPC boundary (not only when it is called), and the
  # consumer of the output may be slow, so that workers finish their shards and
  # die while the caller still holds a batch
  anywhere = MENU + ['kill-other']
  for W, S, total in ((2, 2, 5), (2, 3, 6), (2, 1, 3)):
    for slow in (0, 400):
      out.append(('sharded', dict(W=W, S=S, total=total, batch=2, menu=anywhere,
                                  slow=slow)))
  return out


def run(ctx):
  cfgs = configs(ctx.tier)
  dev = 1 if ctx.quick else 2
  ctx.rule = (
      f'every placement of <= {dev} fault(s) from {MENU} over the task RPCs of '
      f'{len(cfgs)} configurations (as_completed / run / call_and_wait; 1-3 '
      'workers; 1-4 tasks; one failing task at each listed index with and '
      'without ignore_failures; push and pull heartbeat environments), default '
      'schedule, virtual time; the same for sharded pipelines (1-2 workers, 1-3 '
      'shards, retry thresholds 0/1/default); fault-free runs of as_completed '
      'with every subset of <= 2 (thorough 3) late replies (2-3 workers, 2-4 '
      'tasks); worker shuffles as environment choices (every rotation) combined '
      'with faults, <= 2 (3) deviations; a killed worker rejoining at any later '
      'RPC boundary (kill + restart, thorough + 1 fault); every sequence of <= 4 '
      '(5) registry events with a death announcement followed by an alive '
      'announcement (the announcement must be recorded). A case = one complete run; distinct = distinct '
      '(configuration, fault placement).')
  ctx.assumptions += [
      'fake transport: a call runs its handler at most once; deadline errors '
      'have code 4; a dead server answers nothing and pushes no heartbeats',
      'time passes only when every thread waits or polls (virtual clock)',
      'pipeline shards on a pool: sharded_pipelines_as_iterator over '
      'PrefetchedCourierServers with the same fault menu on init_generator / '
      'next_batch_from_generator',
  ]
  explorer.explore_all(ctx, MODULE, cfgs, pre_bound=-1, dev_bound=dev)
  # fault-free, but replies arrive in any order: every subset of <= 2 (3) task
  # calls answers only after everything else has run as far as it can (one task
  # finishes while two others still run, ...)
  late = [('as_completed', dict(W=W, T=T, menu=['slow-reply'], push=push))
          for push in (True, False) for W, T in ((2, 2), (2, 3), (3, 3), (3, 4))]
  late += [('as_completed', dict(W=3, T=3, bad=2, ignore=ign,
                                 menu=['slow-reply'])) for ign in (False, True)]
  explorer.explore_all(ctx, MODULE, late, pre_bound=-1,
                       dev_bound=2 if ctx.quick else 3)
  ctx.notes['late_reply_configurations'] = len(late)
  # random.shuffle of the candidate workers is an environment choice as well
  # (every rotation), combined with faults
  shuffled = [('as_completed', dict(W=3, T=3, menu=MENU, shuffle=True)),
              ('as_completed', dict(W=3, T=4, menu=MENU, shuffle=True,
                                    push=False)),
              ('as_completed', dict(W=3, T=3, bad=2, menu=MENU, shuffle=True)),
              ('as_completed', dict(W=2, T=3, bad=1, ignore=True, menu=MENU,
                                    shuffle=True))]
  shuffled += [('sharded', dict(W=2, S=2, total=4, batch=2, menu=MENU,
                                shuffle=True))]
  if not ctx.quick:
    shuffled += [('sharded', dict(W=3, S=3, total=6, batch=2, menu=MENU,
                                  shuffle=True)),
                 ('sharded', dict(W=2, S=3, total=6, batch=2, menu=MENU,
                                  shuffle=True, push=False))]
  explorer.explore_all(ctx, MODULE, shuffled, pre_bound=-1,
                       dev_bound=2 if ctx.quick else 3, split=8)
  # a killed worker may rejoin (fresh server, same address) at any later RPC
  # boundary: every placement of one kill and one restart (thorough: + one more
  # fault)
  KR = ['kill', 'restart']
  rejoin = [('as_completed', dict(W=2, T=3, menu=KR)),
            ('sharded', dict(W=2, S=2, total=5, batch=2, menu=KR))]
  if not ctx.quick:
    rejoin += [('as_completed', dict(W=2, T=3, menu=KR, push=False)),
               ('as_completed', dict(W=3, T=4, menu=MENU + ['restart'])),
               ('sharded', dict(W=2, S=3, total=6, batch=2, menu=KR)),
               ('sharded', dict(W=2, S=2, total=5, batch=2, menu=KR,
                                push=False))]
  explorer.explore_all(ctx, MODULE, rejoin, pre_bound=-1,
                       dev_bound=2 if ctx.quick else 3, split=8)
  ctx.notes['rejoin_configurations'] = len(rejoin)
  # rejoin at the registry level: every sequence of <= 4 (5) registry events in
  # which a worker announces its death (graceful shutdown / preemption) and
  # later announces itself alive again: the announcement must be recorded
  import itertools
  alphabet = ('push-dead', 'push', 'poll', 'tick30', 'tick200', 'call')
  seqs = [ops for n in range(2, 5 if ctx.quick else 6)
          for ops in itertools.product(alphabet, repeat=n)
          if 'push-dead' in ops and 'push' in ops[ops.index('push-dead'):]]
  explorer.explore_all(ctx, MODULE,
                       [('liveness', dict(ops=list(ops), rejoin=True))
                        for ops in seqs], pre_bound=-1, dev_bound=0)
  ctx.notes['rejoin_event_sequences'] = len(seqs)
  shc = sharded_configs(ctx.tier)
  explorer.explore_all(ctx, MODULE, shc, pre_bound=-1, dev_bound=dev,
                       split=0 if ctx.quick else 8)
  ctx.notes['sharded_pipeline_configurations'] = len(shc)
  # a slow orchestrator: one pause (until quiescence) at any executed line of
  # as_completed / next_idle_worker / submit, combined with <= 1 fault
  paused = [('as_completed', dict(W=2, T=2, menu=MENU, pause=True)),
            ('as_completed', dict(W=2, T=3, bad=1, ignore=True, pause=True)),
            ('as_completed', dict(W=1, T=2, driver='run', pause=True))]
  explorer.explore_all(ctx, MODULE, paused, pre_bound=-1,
                       dev_bound=1 if ctx.quick else 2, split=16)
  # the smallest configuration also under schedule exploration
  explorer.explore_all(
      ctx, MODULE, [('as_completed', dict(W=2, T=2, mode='delay'))],
      pre_bound=1, dev_bound=0, split=16, hb_cache=True)
  ctx.notes['configurations'] = len(cfgs)
  ctx.notes['deviation_bound'] = dev
  ctx.sample({'harness': 'as_completed', 'params': cfgs[3][1],
              'faults': 'every placement of <= %d fault(s)' % dev})


def replay(ctx, data):
  r = data['replay']
  h = charness.HARNESSES[r['harness']](**r['params'])
  res, problems = explorer.replay_once(h, r['choices'])
  print(h.results, h.end, h.after)
  for sig, detail in problems:
    ctx.violation(sig, detail)
