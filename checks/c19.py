"""C19 - re-batching conserves rows, order and column alignment.

Exhaustive enumeration (E3): every sequence of input batch sizes up to a bound
x target size x column count x container kinds x pad x num_columns given or
inferred, on the real `iter_utils.rebatched_args`, plus the same law through
the pipeline operators (`apply/select(batch_size=, fn_batch_size=)`, `batch`).
Oracle: column-wise concatenation chunked by the target (a Python list).

Columns whose rows are not scalars (arrays of shape (n, d) / (n, d, e), lists
and tuples of nested lists; alone, paired with 1-D array / list / tuple
columns and with columns of another width) go through the same drivers:
`check_rebatched_rows` and `check_pipeline_single/pair`, reference model in
vmc/oracles/rebatch_ref.py.

ZERO-ROW INPUT BATCHES (an input batch whose columns are all empty: `[]`, `()`,
an array of shape (0,) / (0, d) / (0, d, e)) are part of the size alphabet of
BOTH tiers and of EVERY driver: leading, in the middle, trailing, several in a
row and streams of empty batches only, so that they arrive both with an empty
buffer and while rows are carried over.  The thorough tier simply uses the
size alphabet 0..k everywhere; the quick tier adds, next to its 1..k
sequences, every sequence over 0..z that contains at least one 0 (see
`zero_sequences`).
"""
import functools
import itertools as itt

import numpy as np

from vmc import enums
from vmc.runner import Stats

PROPERTY = 'C19'
LEVEL = 'exploration'

KINDS = ('list', 'tuple', 'ndarray')


def _mk(kind, rows):
  if kind == 'list':
    return list(rows)
  if kind == 'tuple':
    return tuple(rows)
  return np.asarray(rows, dtype=np.int64)


def _kind_of(x):
  if isinstance(x, np.ndarray):
    return 'ndarray'
  if isinstance(x, list):
    return 'list'
  if isinstance(x, tuple):
    return 'tuple'
  return type(x).__name__


def _tolist(x):
  return x.tolist() if isinstance(x, np.ndarray) else list(x)


@functools.lru_cache(maxsize=256)
def reference(sizes, target, ncol, pad):
  """Expected output as lists: [[col0 rows, col1 rows, ...], ...].

  Cached: the result is only ever compared, never handed to the library.
  """
  n = sum(sizes)
  cols = [[c * 1000 + r for r in range(n)] for c in range(ncol)]
  out = []
  for i in range(0, n, target):
    out.append([col[i:i + target] for col in cols])
  if out and pad is not None and len(out[-1][0]) < target:
    out[-1] = [c + [pad] * (target - len(c)) for c in out[-1]]
  return out


def make_stream(sizes, ncol, kinds):
  i = 0
  for s in sizes:
    yield tuple(_mk(kinds[c], [c * 1000 + r for r in range(i, i + s)])
                for c in range(ncol))
    i += s


def check_rebatched(st, sizes, target, ncol, kinds, pad, infer):
  from ml_metrics._src.utils import iter_utils
  case = ('rebatched_args', sizes, target, ncol, kinds, pad, infer)
  st.case(case, nontrivial=sum(sizes) > 0)
  exp = reference(sizes, target, ncol, pad)
  try:
    kw = {} if infer else {'num_columns': ncol}
    got = list(iter_utils.rebatched_args(
        make_stream(sizes, ncol, kinds), target, pad=pad, **kw))
  except Exception as e:  # pylint: disable=broad-except
    where = 'empty-stream-inferred-columns' if (not sizes and infer) else 'raise'
    st.violation(f'C19:rebatched_args:{where}:{type(e).__name__}',
                 {'case': case, 'error': repr(e)}, replay={'case': case})
    return
  st.outcome((len(got), tuple(len(b[0]) for b in got)))
  problems = []
  if len(got) != len(exp):
    problems.append('batch-count')
  for bi, (g, e) in enumerate(zip(got, exp)):
    if not isinstance(g, tuple) or len(g) != ncol:
      problems.append('column-count')
      break
    lists = [_tolist(col) for col in g]
    if lists != e:
      problems.append('rows')
    if len(sizes) and any(_kind_of(g[c]) != kinds[c] for c in range(ncol)):
      # a single-row slice keeps its container kind too
      problems.append('container-kind')
    lens = set(map(len, lists))
    if len(lens) != 1:
      problems.append('ragged-columns')
    if bi < len(got) - 1 and lens != {target}:
      problems.append('non-final-batch-size')
    if not all(lens):
      problems.append('empty-batch')
  if problems:
    st.violation('C19:rebatched_args:' + '+'.join(sorted(set(problems))),
                 {'case': case, 'got': got, 'expected': exp},
                 replay={'case': case})


def _unit(args):
  """One work unit: all cases for a list of size sequences."""
  size_seqs, targets, ncols, tier = args
  st = Stats()
  for sizes in size_seqs:
    for target in targets:
      for ncol in ncols:
        if tier == 'quick':
          kind_sets = [(k,) * ncol for k in KINDS]
          if ncol > 1:
            kind_sets.append(tuple(KINDS[i % 3] for i in range(ncol)))
        else:
          kind_sets = list(itt.product(KINDS, repeat=ncol))
        for kinds in kind_sets:
          for pad in (None, 0):
            for infer in (False, True):
              if infer and not sizes and False:
                continue
              check_rebatched(st, tuple(sizes), target, ncol, kinds, pad, infer)
  if size_seqs:
    st.sample({'driver': 'rebatched_args', 'input_batch_sizes': size_seqs[0],
               'targets': list(targets), 'columns': list(ncols)})
  return st


# ---- numpy columns whose element type differs between input batches ------------

def _variant_value(variant, j, v):
  """Value of row v in input batch j for a mixed-dtype column."""
  if variant == 'int-then-float':
    return v if j % 2 == 0 else v + 0.5
  if variant == 'float-then-int':
    return v + 0.5 if j % 2 == 0 else v
  if variant == 'str-width':
    return 'r' * (1 + j % 3) + str(v)
  if variant == 'bool-then-int':
    return (v % 2 == 0) if j == 0 else v
  raise ValueError(variant)


def _same_value(variant, a, b):
  if variant == 'str-width':
    return str(a) == str(b)
  return float(a) == float(b)


def check_mixed_dtype(st, sizes, target, variant):
  from ml_metrics._src.utils import iter_utils
  case = ('rebatched_args:mixed-dtype', sizes, target, variant)
  st.case(case, nontrivial=sum(sizes) > 0)
  batches, flat, i = [], [], 0
  for j, sz in enumerate(sizes):
    vals = [_variant_value(variant, j, v) for v in range(i, i + sz)]
    # a zero-row batch has the element type input batch j would have had with
    # rows (a filtered-out shard), not numpy's float64 default for []
    arr = np.asarray(vals or [_variant_value(variant, j, i)])[:sz]
    batches.append((arr, np.arange(i, i + sz)))
    flat.extend(vals)
    i += sz
  try:
    got = list(iter_utils.rebatched_args(iter(batches), target, num_columns=2))
  except Exception as e:  # pylint: disable=broad-except
    st.violation(f'C19:rebatched_args:mixed-dtype:raise:{type(e).__name__}:{variant}',
                 {'case': case, 'error': repr(e)}, replay={'mixed': case})
    return
  rows = [(a, int(b)) for g in got for a, b in zip(g[0].tolist(), g[1].tolist())]
  st.outcome((variant, len(got)))
  ok = len(rows) == len(flat) and all(
      k == idx and _same_value(variant, a, flat[idx])
      for idx, (a, k) in enumerate(rows))
  if not ok:
    st.violation(f'C19:rebatched_args:mixed-dtype:rows-changed:{variant}',
                 {'case': case, 'got': rows, 'expected': flat},
                 replay={'mixed': case})


def _mixed_unit(args):
  size_seqs, targets = args
  st = Stats()
  for sizes in size_seqs:
    for target in targets:
      for variant in ('int-then-float', 'float-then-int', 'str-width',
                      'bool-then-int'):
        check_mixed_dtype(st, tuple(sizes), target, variant)
  if size_seqs:
    st.sample({'driver': 'rebatched_args mixed dtype', 'sizes': size_seqs[0]})
  return st


# ---- columns whose rows are not scalars --------------------------------------
#
# A column spec is (kind, row_shape), a layout a tuple of specs (see
# vmc/oracles/rebatch_ref.py).  ('ndarray', (2,)) is an (n, 2) array,
# ('ndarray', (2, 2)) an (n, 2, 2) array, ('list', (2,)) a list of n 2-lists.

ND = lambda *shape: ('ndarray', tuple(shape))
LS = lambda *shape: ('list', tuple(shape))
TP = lambda *shape: ('tuple', tuple(shape))


def _dedupe(xs):
  return list(dict.fromkeys(xs))


def row_layouts(quick):
  """Layouts with at least one column whose rows are not scalars."""
  if quick:
    singles = [ND(1), ND(2), ND(3), ND(2, 2), LS(2), TP(2)]
    wide = [ND(2), ND(2, 2)]
    partners = [ND(), LS(), ND(2), ND(3), LS(2)]
    triples = [(ND(2, 2), ND(), LS(2))]
    rotations_only = True
  else:
    singles = [ND(1), ND(2), ND(3), ND(2, 2), ND(2, 3), ND(1, 2), LS(2),
               LS(2, 2), TP(2), TP(3)]
    wide = [ND(2), ND(3), ND(2, 2), ND(2, 3)]
    partners = [ND(), LS(), TP(), ND(1), ND(2), ND(3), ND(2, 2), LS(2), TP(2)]
    triples = [(ND(2, 2), ND(), LS(2)), (ND(2), ND(3), TP())]
    rotations_only = False
  out = [(s,) for s in singles]
  for x in wide:
    for y in partners:
      out += [(x, y), (y, x)]
  for t in triples:
    if rotations_only:
      out += [t[i:] + t[:i] for i in range(3)]
    else:
      out += list(itt.permutations(t))
  return _dedupe(out)


@functools.lru_cache(maxsize=None)
def _master(c, shape):
  """Rows 0..63 of column c as one read-only array (built from the oracle's rows)."""
  from vmc.oracles import rebatch_ref
  a = np.asarray(rebatch_ref.rows(c, 0, 64, shape), dtype=np.int64)
  a.setflags(write=False)
  return a


def _mk_col(spec, c, lo, hi):
  """A fresh batch (never shared between cases: the library may keep or alter it)."""
  kind, shape = spec
  part = _master(c, shape)[lo:hi]
  if kind == 'ndarray':
    return part.copy()
  return part.tolist() if kind == 'list' else tuple(part.tolist())


def make_row_stream(sizes, layout):
  from vmc.oracles import rebatch_ref
  offs = rebatch_ref.offsets(sizes)
  return [tuple(_mk_col(spec, c, lo, hi) for c, spec in enumerate(layout))
          for lo, hi in zip(offs, offs[1:])]


def _col_problems(g, exp_rows, spec):
  """Problems of one emitted column batch g against the expected rows."""
  kind, shape = spec
  out = []
  if _kind_of(g) != kind:
    out.append('container-kind')
  if isinstance(g, np.ndarray):
    if g.dtype != np.int64:
      out.append('dtype')
    if g.shape[1:] != shape:
      out.append('row-shape')
  if _tolist(g) != exp_rows:
    out.append('rows')
  return out


def _is_widened_pad(g, exp_rows, spec, pad):
  """True iff g is the expected padded batch plus extra pad elements only.

  I.e. the array has the right number of rows, the box [:, :d, :e] holds the
  expected rows and everything outside it is the pad value: the rows were not
  lost or reordered, every row was made longer.
  """
  if not isinstance(g, np.ndarray) or g.ndim != 1 + len(spec[1]):
    return False
  if g.shape[0] != len(exp_rows) or g.shape[1:] == spec[1]:
    return False
  if any(a < b for a, b in zip(g.shape[1:], spec[1])):
    return False
  box = (slice(None),) + tuple(slice(0, d) for d in spec[1])
  if g[box].tolist() != exp_rows:
    return False
  rest = np.ones(g.shape, dtype=bool)
  rest[box] = False
  return bool((g[rest] == pad).all())


def check_rebatched_rows(st, sizes, target, layout, pad, infer):
  """rebatched_args on a layout with non-scalar rows against the reference."""
  from ml_metrics._src.utils import iter_utils
  from vmc.oracles import rebatch_ref
  case = ('rebatched_args:rows', sizes, target, layout, pad, infer)
  st.case(case, nontrivial=sum(sizes) > 0)
  ncol = len(layout)
  exp = rebatch_ref.chunked(sizes, target, layout, pad)
  try:
    kw = {} if infer else {'num_columns': ncol}
    got = list(iter_utils.rebatched_args(
        iter(make_row_stream(sizes, layout)), target, pad=pad, **kw))
  except Exception as e:  # pylint: disable=broad-except
    where = 'empty-stream-inferred-columns' if (not sizes and infer) else 'raise'
    st.violation(f'C19:rebatched_args:rows:{where}:{type(e).__name__}',
                 {'case': case, 'error': repr(e)}, replay={'rows': case})
    return
  try:
    st.outcome((len(got), tuple(len(b[0]) for b in got)))
  except Exception:  # pylint: disable=broad-except
    st.outcome('malformed')
  problems, widened = [], 0
  if len(got) != len(exp):
    problems.append('batch-count')
  for bi, (g, e) in enumerate(zip(got, exp)):
    if not isinstance(g, tuple) or len(g) != ncol:
      problems.append('column-count')
      break
    padded = (pad is not None and bi == len(exp) - 1 and
              sum(sizes) % target != 0)
    for c in range(ncol):
      ps = _col_problems(g[c], e[c], layout[c])
      if ps and padded and _is_widened_pad(g[c], e[c], layout[c], pad):
        widened += 1
        continue
      problems += ps
    lens = {len(g[c]) for c in range(ncol)}
    if len(lens) != 1:
      problems.append('ragged-columns')
    if bi < len(got) - 1 and lens != {target}:
      problems.append('non-final-batch-size')
    if not all(lens):
      problems.append('empty-batch')
  detail = {'case': case, 'got': got, 'expected': exp}
  if problems:
    st.violation('C19:rebatched_args:rows:' + '+'.join(sorted(set(problems))),
                 detail, replay={'rows': case})
  elif widened:
    # rows, order, alignment and batch sizes are all as expected; the only
    # difference is that the padded final batch of an N-D array column has
    # longer rows than the input (pad elements appended along every axis).
    st.violation('C19:rebatched_args:rows:pad-lengthens-rows:nd-array-column',
                 detail, replay={'rows': case})


def _rows_unit(args):
  size_seqs, targets, layouts, variants = args
  st = Stats()
  for sizes in size_seqs:
    for target in targets:
      for layout in layouts:
        for pad, infer in variants:
          check_rebatched_rows(st, tuple(sizes), target, layout, pad, infer)
  if size_seqs:
    st.sample({'driver': 'rebatched_args, non-scalar rows',
               'input_batch_sizes': size_seqs[0], 'targets': list(targets),
               'layouts': [str(l) for l in layouts[:8]]})
  return st


# ---- the same law through the pipeline operators ---------------------------

def pipeline_specs(quick):
  """Column specs sent through the operators besides the plain list LS().

  (A tuple batch is ambiguous there: TreeFn reads a tuple as several outputs.)
  """
  if quick:
    return (ND(), ND(2), ND(2, 2), LS(2))
  return (ND(), ND(1), ND(2), ND(3), ND(2, 2), ND(2, 3), LS(2), LS(2, 2))


def pipeline_pairs(quick):
  if quick:
    return ((ND(2), ND()), (LS(), ND(2, 2)), (ND(2), LS(2)))
  return ((ND(2), ND()), (ND(), ND(2)), (LS(), ND(2, 2)), (ND(2, 2), LS()),
          (ND(2), LS(2)), (LS(2), ND(3)), (ND(2), ND(3)), (LS(), ND()))


def _norm(x):
  if isinstance(x, dict):
    return {k: _norm(v) for k, v in x.items()}
  if isinstance(x, np.ndarray):
    return ('ndarray', str(x.dtype), x.tolist())
  if isinstance(x, (list, tuple)):
    return (_kind_of(x), list(x))
  return repr(x)


def _norm_exp(spec, rows):
  if spec[0] == 'ndarray':
    return ('ndarray', 'int64', rows)
  return (spec[0], rows)


def _spec_tag(layout):
  """Signature part: 'scalar-rows' for the 1-D class, else 'rows-not-scalar'."""
  return 'scalar-rows' if all(s[1] == () for s in layout) else 'rows-not-scalar'


def _pipe_compare(st, name, case, layout, run_fn, exp):
  st.case(case, nontrivial=sum(case[1]) > 0)
  tag = _spec_tag(layout)
  try:
    got = run_fn()
  except Exception as e:  # pylint: disable=broad-except
    st.violation(f'C19:{name}:raise:{type(e).__name__}:{tag}',
                 {'case': case, 'error': repr(e)}, replay={'pipe': case})
    return None
  st.outcome((name, tag, len(got)))
  if got != exp:
    st.violation(f'C19:{name}:rows:{tag}',
                 {'case': case, 'got': got, 'expected': exp},
                 replay={'pipe': case})
  return got


def check_pipeline_single(st, sizes, targets, spec):
  """One column bound to Key.SELF through apply/select(batch_size, fn_batch_size)."""
  from ml_metrics._src.chainables import transform as chainable
  from ml_metrics._src.chainables import tree as tree_lib
  from vmc.oracles import rebatch_ref
  layout = (spec,)
  batches = [b[0] for b in make_row_stream(sizes, layout)]
  tag = _spec_tag(layout)

  def chunks(t):
    return [_norm_exp(spec, b[0])
            for b in rebatch_ref.chunked(sizes, t, layout)]

  for target in targets:
    exp = chunks(target)
    for name, build in (
        ('apply.batch_size', lambda t: chainable.TreeTransform().apply(
            fn=lambda x: x, batch_size=t)),
        ('apply.fn_batch_size', lambda t: chainable.TreeTransform().apply(
            fn=lambda x: x, fn_batch_size=t, batch_size=t)),
        ('select.batch_size', lambda t: chainable.TreeTransform().select(
            tree_lib.Key.SELF, batch_size=t)),
    ):
      case = (name, tuple(sizes), target, layout)
      _pipe_compare(
          st, name, case, layout,
          lambda: [_norm(b) for b in
                   build(target).make().iterate(iter(batches))], exp)
    # fn_batch_size smaller/larger than batch_size: fn sees fn_batch_size
    for fbs in targets:
      seen = []
      def fn(x, seen=seen):
        seen.append(_norm(x))
        return x
      name = 'apply.fn_batch_size+batch_size'
      case = (name, tuple(sizes), target, layout, fbs)
      st.case(case, nontrivial=sum(sizes) > 0)
      try:
        t = chainable.TreeTransform().apply(
            fn=fn, fn_batch_size=fbs, batch_size=target)
        got = [_norm(b) for b in t.make().iterate(iter(batches))]
      except Exception as e:  # pylint: disable=broad-except
        st.violation(f'C19:{name}:raise:{type(e).__name__}:{tag}',
                     {'case': case, 'error': repr(e)}, replay={'pipe': case})
        continue
      exp_fn = chunks(fbs)
      st.outcome((name, tag, len(got), len(seen)))
      if got != exp or seen != exp_fn:
        st.violation(f'C19:{name}:rows:{tag}',
                     {'case': case, 'got': got, 'expected': exp,
                      'fn_saw': seen, 'fn_expected': exp_fn},
                     replay={'pipe': case})


def check_pipeline_pair(st, sizes, targets, layout):
  """Two columns 'a', 'b' of a dict through apply/select/assign."""
  from ml_metrics._src.chainables import transform as chainable
  from vmc.oracles import rebatch_ref
  stream = make_row_stream(sizes, layout)
  keys = ('a', 'b')
  pair = lambda a, b: (a, b)

  def batches():
    return iter([dict(zip(keys, b)) for b in stream])

  def as_dicts(chunks):
    return [{k: _norm_exp(s, col) for k, s, col in zip(keys, layout, b)}
            for b in chunks]

  for target in targets:
    exp = as_dicts(rebatch_ref.chunked(sizes, target, layout))
    for name, build in (
        ('apply2.batch_size', lambda t: chainable.TreeTransform().apply(
            fn=pair, input_keys=keys, output_keys=keys, batch_size=t)),
        ('apply2.fn_batch_size', lambda t: chainable.TreeTransform().apply(
            fn=pair, input_keys=keys, output_keys=keys, fn_batch_size=t,
            batch_size=t)),
        ('select2.batch_size', lambda t: chainable.TreeTransform().select(
            keys, batch_size=t)),
    ):
      case = (name, tuple(sizes), target, layout)
      _pipe_compare(
          st, name, case, layout,
          lambda: [_norm(b) for b in build(target).make().iterate(batches())],
          exp)
    # assign zips the re-batched outputs with the *inputs*, which is only
    # meaningful when re-batching keeps the batch boundaries: every input
    # batch already has the target size.
    if sizes and all(s == target for s in sizes):
      same = [{**d, 'c': d['a'], 'd': d['b']} for d in exp]
      for name, build in (
          ('assign2.batch_size', lambda t: chainable.TreeTransform().assign(
              ('c', 'd'), fn=pair, input_keys=keys, batch_size=t)),
          ('assign2.fn_batch_size', lambda t: chainable.TreeTransform().assign(
              ('c', 'd'), fn=pair, input_keys=keys, fn_batch_size=t,
              batch_size=t)),
      ):
        case = (name, tuple(sizes), target, layout)
        _pipe_compare(
            st, name, case, layout,
            lambda: [_norm(b) for b in
                     build(target).make().iterate(batches())], same)


def _pipeline_unit(args):
  size_seqs, targets, specs, pairs = args
  st = Stats()
  for sizes in size_seqs:
    for spec in specs:
      check_pipeline_single(st, tuple(sizes), targets, spec)
    for layout in pairs:
      check_pipeline_pair(st, tuple(sizes), targets, layout)
  if size_seqs:
    st.sample({'driver': 'apply/select/assign(batch_size, fn_batch_size)',
               'input_batch_sizes': size_seqs[0], 'targets': list(targets),
               'column specs': [str(s) for s in specs],
               'pairs': [str(p) for p in pairs]})
  return st


UNITS = {}


def _dispatch(item):
  name, args = item
  return UNITS[name](args)


UNITS.update(scalar=_unit, mixed=_mixed_unit, rows=_rows_unit,
             pipeline=_pipeline_unit)


def zero_sequences(max_size, max_batches, min_len=1):
  """Every sequence of <= max_batches sizes in 0..max_size with at least one 0.

  Covers a zero-row batch in every position (leading, middle, trailing),
  several in a row, and streams of zero-row batches only, each combined with
  every filling of the other positions: so the empty batch arrives both with an
  empty buffer and with 1..target-1 rows carried over.
  """
  return [q for q in enums.sequences(range(0, max_size + 1), max_batches,
                                     min_len) if 0 in q]


def run(ctx):
  quick = ctx.quick
  max_batches, max_size = (4, 4) if quick else (5, 5)
  min_size = 1 if quick else 0
  targets = range(1, 6 if quick else 7)
  ncols = (1, 2, 3)
  seqs = list(enums.sequences(range(min_size, max_size + 1), max_batches))
  # non-scalar rows: smaller size sequences, every layout of row_layouts()
  r_batches, r_size, r_target = (3, 3, 4) if quick else (4, 4, 5)
  variants = ((None, False), (None, True), (0, False)) + (
      () if quick else ((0, True),))
  rseqs = list(enums.sequences(range(min_size, r_size + 1), r_batches))
  layouts = row_layouts(quick)
  specs, pairs = pipeline_specs(quick), pipeline_pairs(quick)
  p_batches, p_size = (3, 3) if quick else (4, 4)      # plain list column
  q_batches, q_size, q_target = (3, 2, 3) if quick else (3, 3, 4)   # the others
  # The zero-row class of the quick tier (the thorough tier has 0 in every size
  # alphabet): sequences with at least one 0, per driver family.
  z_batches, z_size, z_target = 4, 2, 4      # scalar rows, rebatched_args
  y_batches, y_size, y_target = 3, 2, 3      # non-scalar rows and the operators
  m_batches, m_size = 3, 3                   # mixed element types
  zseqs = zero_sequences(z_size, z_batches) if quick else []
  yseqs = zero_sequences(y_size, y_batches) if quick else []
  zmseqs = zero_sequences(m_size, m_batches, 2) if quick else []
  zero_rule = (
      'ZERO-ROW INPUT BATCHES (all columns empty: [], (), arrays of shape '
      '(0,)/(0,d)/(0,d,e)) leading / in the middle / trailing / several in a '
      'row / only-empty streams, arriving with an empty buffer and with rows '
      'carried over, meet every driver, container kind, layout, column count, '
      'pad and num_columns variant listed here: ' + (
          f'in addition to the 1..k size alphabets below, every sequence with at '
          f'least one 0 of <= {z_batches} batches with sizes 0..{z_size} x target '
          f'1..{z_target} (scalar rows through rebatched_args; {len(zseqs)} '
          f'sequences), of <= {y_batches} batches with sizes 0..{y_size} x target '
          f'1..{y_target} (non-scalar row layouts through rebatched_args and all '
          f'column specs / pairs through the operators incl. the plain list column; '
          f'{len(yseqs)} sequences), of 2-{m_batches} batches with sizes '
          f'0..{m_size} (mixed element types; the empty batch has the element '
          f'type of its position; {len(zmseqs)} sequences); ' if quick else
          'size 0 is a member of every size alphabet below (rebatched_args, '
          'mixed element types, non-scalar rows, operators); ') +
      'assign is exempt (it needs every input batch to have the target size); ')
  ctx.rule = (
      zero_rule +
      f'every sequence of <= {max_batches} input batches with sizes in '
      f'{min_size}..{max_size} x target 1..{max(targets)} x 1-3 columns x '
      f'container kinds (uniform and mixed{"" if quick else ", all combinations"}) '
      'x pad in {None,0} x num_columns given/inferred through rebatched_args; '
      'numpy columns whose element type changes between input batches (int/float, '
      'bool/int, string widths) over every sequence of 2-3 (4) batches; '
      'COLUMNS WHOSE ROWS ARE NOT SCALARS (arrays of shape (n,d) / (n,d,e), '
      'lists / tuples of n nested lists; row shapes '
      f'{sorted({s[1] for l in layouts for s in l if s[1]})}): {len(layouts)} '
      'layouts = every such column alone, every ordered pair of a wide array '
      'column with a 1-D array / list / tuple / other-width array / nested-list '
      f'column, and 3-column mixes, x every sequence of <= {r_batches} input '
      f'batches with sizes {min_size}..{r_size} x target 1..{r_target} x '
      f'(pad, num_columns inferred) in {variants} through rebatched_args '
      '(padding an array column appends whole rows of the pad value); '
      'plus apply/select(batch_size, fn_batch_size, fn_batch_size != batch_size) '
      f'pipelines over every sequence of <= {p_batches} list batches with sizes '
      f'{min_size}..{p_size} x target 1..4, and over every sequence of <= {q_batches} '
      f'batches with sizes {min_size}..{q_size} x target 1..{q_target} of one Key.SELF '
      f'column of each of {len(specs)} further column specs (1-D array, (n,d) '
      f'and (n,d,e) arrays, nested lists) and of {len(pairs)} two-column dict '
      'layouts (wide array with 1-D array / list / nested list) through '
      'apply/select with two keys (and assign when every input batch '
      'has the target size); non-trivial = stream with at least one row; '
      'distinct = distinct (driver, sizes, target, columns/layout, kinds, pad, infer)')
  ctx.assumptions += [
      'rows are unique tagged integers (column*1000+row; for non-scalar rows '
      'column*100000+row*100+index inside the row) so alignment is observable',
      'a zero-row input batch has the container kind, element type and row '
      'shape of its column (what slicing / filtering a batch down to nothing '
      'gives), not numpy\'s float64 default for []',
      'a padded array column is expected to gain whole rows filled with the pad '
      'value (row shape unchanged); list / tuple columns gain the pad value',
      'tuple batches are not sent through the operators (TreeFn reads a tuple '
      'as several outputs)',
  ]
  units = [('scalar', (u, tuple(targets), ncols, ctx.tier))
           for u in enums.chunks(ctx.shuffled(seqs), 64)]
  mseqs = [q for q in enums.sequences(range(min_size, 4 if quick else 5),
                                      3 if quick else 4) if len(q) >= 2]
  mseqs += zmseqs
  units += [('mixed', (u, tuple(range(1, 5))))
            for u in enums.chunks(ctx.shuffled(mseqs), 16)]
  units += [('rows', (u, tuple(range(1, r_target + 1)), layouts, variants))
            for u in enums.chunks(ctx.shuffled(rseqs), 32 if quick else 128)]
  pseqs = list(enums.sequences(range(min_size, p_size + 1), p_batches))
  units += [('pipeline', (u, tuple(range(1, 5)), (LS(),), ()))
            for u in enums.chunks(ctx.shuffled(pseqs), 16 if quick else 64)]
  qseqs = list(enums.sequences(range(min_size, q_size + 1), q_batches))
  units += [('pipeline', (u, tuple(range(1, q_target + 1)), specs, pairs))
            for u in enums.chunks(ctx.shuffled(qseqs), 16 if quick else 64)]
  # the zero-row class of the quick tier, through the same unit functions
  units += [('scalar', (u, tuple(range(1, z_target + 1)), ncols, ctx.tier))
            for u in enums.chunks(ctx.shuffled(zseqs), 32)]
  units += [('rows', (u, tuple(range(1, y_target + 1)), layouts, variants))
            for u in enums.chunks(ctx.shuffled(yseqs), 16)]
  units += [('pipeline', (u, tuple(range(1, y_target + 1)), (LS(),) + specs,
                          pairs))
            for u in enums.chunks(ctx.shuffled(yseqs), 25)]
  ctx.pmap(_dispatch, units)
  ctx.notes['zero_row_size_sequences'] = {
      'scalar': len(zseqs), 'rows_and_operators': len(yseqs),
      'mixed': len(zmseqs)} if quick else 'size 0 is in every alphabet'
  ctx.notes['input_size_sequences'] = len(seqs)
  ctx.notes['non_scalar_row_layouts'] = len(layouts)
  ctx.notes['non_scalar_row_size_sequences'] = len(rseqs)


def replay(ctx, data):
  rp = data['replay']
  tup = lambda x: tuple(tup(y) for y in x) if isinstance(x, list) else x
  if 'mixed' in rp:
    _, sizes, target, variant = rp['mixed']
    check_mixed_dtype(ctx, tuple(sizes), target, variant)
    return
  if 'rows' in rp:
    _, sizes, target, layout, pad, infer = rp['rows']
    check_rebatched_rows(ctx, tuple(sizes), target, tup(layout), pad, infer)
    return
  if 'pipe' in rp:
    case = rp['pipe']
    layout = tup(case[3])
    if len(layout) == 1:
      check_pipeline_single(ctx, tuple(case[1]), (case[2],) + tuple(case[4:5]),
                            layout[0])
    else:
      check_pipeline_pair(ctx, tuple(case[1]), (case[2],), layout)
    return
  _, sizes, target, ncol, kinds, pad, infer = rp['case']
  check_rebatched(ctx, tuple(sizes), target, ncol, tuple(kinds), pad, infer)
