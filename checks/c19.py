"""C19 - re-batching conserves rows, order and column alignment.

Exhaustive enumeration (E3): every sequence of input batch sizes up to a bound
x target size x column count x container kinds x pad x num_columns given or
inferred, on the real `iter_utils.rebatched_args`, plus the same law through
the pipeline operators (`apply/select(batch_size=, fn_batch_size=)`, `batch`).
Oracle: column-wise concatenation chunked by the target (a Python list).
"""
import itertools as itt

import numpy as np

from vmc import enums
from vmc.runner import Stats

PROPERTY = 'C19'
LEVEL = 'exploration'

KINDS = ('list', 'tuple', 'ndarray')


def _mk(kind, rows):
  if kind == 'list':
    return list(rows)
  if kind == 'tuple':
    return tuple(rows)
  return np.asarray(rows, dtype=np.int64)


def _kind_of(x):
  if isinstance(x, np.ndarray):
    return 'ndarray'
  if isinstance(x, list):
    return 'list'
  if isinstance(x, tuple):
    return 'tuple'
  return type(x).__name__


def _tolist(x):
  return x.tolist() if isinstance(x, np.ndarray) else list(x)


def reference(sizes, target, ncol, pad):
  """Expected output as lists: [[col0 rows, col1 rows, ...], ...]."""
  n = sum(sizes)
  cols = [[c * 1000 + r for r in range(n)] for c in range(ncol)]
  out = []
  for i in range(0, n, target):
    out.append([col[i:i + target] for col in cols])
  if out and pad is not None and len(out[-1][0]) < target:
    out[-1] = [c + [pad] * (target - len(c)) for c in out[-1]]
  return out


def make_stream(sizes, ncol, kinds):
  i = 0
  for s in sizes:
    yield tuple(_mk(kinds[c], [c * 1000 + r for r in range(i, i + s)])
                for c in range(ncol))
    i += s


def check_rebatched(st, sizes, target, ncol, kinds, pad, infer):
  from ml_metrics._src.utils import iter_utils
  case = ('rebatched_args', sizes, target, ncol, kinds, pad, infer)
  st.case(case, nontrivial=len(sizes) > 0)
  exp = reference(sizes, target, ncol, pad)
  try:
    kw = {} if infer else {'num_columns': ncol}
    got = list(iter_utils.rebatched_args(
        make_stream(sizes, ncol, kinds), target, pad=pad, **kw))
  except Exception as e:  # pylint: disable=broad-except
    where = 'empty-stream-inferred-columns' if (not sizes and infer) else 'raise'
    st.violation(f'C19:rebatched_args:{where}:{type(e).__name__}',
                 {'case': case, 'error': repr(e)}, replay={'case': case})
    return
  st.outcome((len(got), tuple(len(_tolist(b[0])) for b in got)))
  problems = []
  if len(got) != len(exp):
    problems.append('batch-count')
  for bi, (g, e) in enumerate(zip(got, exp)):
    if not isinstance(g, tuple) or len(g) != ncol:
      problems.append('column-count')
      break
    for c in range(ncol):
      if _tolist(g[c]) != e[c]:
        problems.append('rows')
      if _kind_of(g[c]) != kinds[c] and len(sizes) and not (
          # a single-row slice keeps its container kind too
          False):
        problems.append('container-kind')
    lens = {len(_tolist(g[c])) for c in range(ncol)}
    if len(lens) != 1:
      problems.append('ragged-columns')
    if bi < len(got) - 1 and lens != {target}:
      problems.append('non-final-batch-size')
    if not all(lens):
      problems.append('empty-batch')
  if problems:
    st.violation('C19:rebatched_args:' + '+'.join(sorted(set(problems))),
                 {'case': case, 'got': got, 'expected': exp},
                 replay={'case': case})


def _unit(args):
  """One work unit: all cases for a list of size sequences."""
  size_seqs, targets, ncols, tier = args
  st = Stats()
  for sizes in size_seqs:
    for target in targets:
      for ncol in ncols:
        if tier == 'quick':
          kind_sets = [(k,) * ncol for k in KINDS]
          if ncol > 1:
            kind_sets.append(tuple(KINDS[i % 3] for i in range(ncol)))
        else:
          kind_sets = list(itt.product(KINDS, repeat=ncol))
        for kinds in kind_sets:
          for pad in (None, 0):
            for infer in (False, True):
              if infer and not sizes and False:
                continue
              check_rebatched(st, tuple(sizes), target, ncol, kinds, pad, infer)
  if size_seqs:
    st.sample({'driver': 'rebatched_args', 'input_batch_sizes': size_seqs[0],
               'targets': list(targets), 'columns': list(ncols)})
  return st


# ---- numpy columns whose element type differs between input batches ------------

def _variant_value(variant, j, v):
  """Value of row v in input batch j for a mixed-dtype column."""
  if variant == 'int-then-float':
    return v if j % 2 == 0 else v + 0.5
  if variant == 'float-then-int':
    return v + 0.5 if j % 2 == 0 else v
  if variant == 'str-width':
    return 'r' * (1 + j % 3) + str(v)
  if variant == 'bool-then-int':
    return (v % 2 == 0) if j == 0 else v
  raise ValueError(variant)


def _same_value(variant, a, b):
  if variant == 'str-width':
    return str(a) == str(b)
  return float(a) == float(b)


def check_mixed_dtype(st, sizes, target, variant):
  from ml_metrics._src.utils import iter_utils
  case = ('rebatched_args:mixed-dtype', sizes, target, variant)
  st.case(case)
  batches, flat, i = [], [], 0
  for j, sz in enumerate(sizes):
    vals = [_variant_value(variant, j, v) for v in range(i, i + sz)]
    batches.append((np.asarray(vals), np.arange(i, i + sz)))
    flat.extend(vals)
    i += sz
  try:
    got = list(iter_utils.rebatched_args(iter(batches), target, num_columns=2))
  except Exception as e:  # pylint: disable=broad-except
    st.violation(f'C19:rebatched_args:mixed-dtype:raise:{type(e).__name__}:{variant}',
                 {'case': case, 'error': repr(e)}, replay={'mixed': case})
    return
  rows = [(a, int(b)) for g in got for a, b in zip(g[0].tolist(), g[1].tolist())]
  st.outcome((variant, len(got)))
  ok = len(rows) == len(flat) and all(
      k == idx and _same_value(variant, a, flat[idx])
      for idx, (a, k) in enumerate(rows))
  if not ok:
    st.violation(f'C19:rebatched_args:mixed-dtype:rows-changed:{variant}',
                 {'case': case, 'got': rows, 'expected': flat},
                 replay={'mixed': case})


def _mixed_unit(args):
  size_seqs, targets = args
  st = Stats()
  for sizes in size_seqs:
    for target in targets:
      for variant in ('int-then-float', 'float-then-int', 'str-width',
                      'bool-then-int'):
        check_mixed_dtype(st, tuple(sizes), target, variant)
  if size_seqs:
    st.sample({'driver': 'rebatched_args mixed dtype', 'sizes': size_seqs[0]})
  return st


# ---- the same law through the pipeline operators ---------------------------

def _pipeline_unit(args):
  from ml_metrics._src.chainables import transform as chainable
  from ml_metrics._src.chainables import tree as tree_lib
  size_seqs, targets = args
  st = Stats()
  for sizes in size_seqs:
    n = sum(sizes)
    batches = [list(range(i, i + s)) for i, s in
               zip(itt.accumulate((0,) + tuple(sizes[:-1])), sizes)]
    for target in targets:
      exp = [list(range(i, min(i + target, n))) for i in range(0, n, target)]
      # (a) apply(batch_size=target): outputs re-batched to target
      for name, build in (
          ('apply.batch_size', lambda t: chainable.TreeTransform().apply(
              fn=lambda x: x, batch_size=t)),
          ('apply.fn_batch_size', lambda t: chainable.TreeTransform().apply(
              fn=lambda x: x, fn_batch_size=t, batch_size=t)),
          ('select.batch_size', lambda t: chainable.TreeTransform().select(
              tree_lib.Key.SELF, batch_size=t)),
      ):
        case = (name, tuple(sizes), target)
        st.case(case, nontrivial=n > 0)
        try:
          got = [list(b) for b in build(target).make().iterate(iter(batches))]
        except Exception as e:  # pylint: disable=broad-except
          st.violation(f'C19:{name}:raise:{type(e).__name__}',
                       {'case': case, 'error': repr(e)}, replay={'case': case})
          continue
        st.outcome((name, tuple(map(len, got))))
        if got != exp:
          st.violation(f'C19:{name}:rows', {'case': case, 'got': got,
                                            'expected': exp},
                       replay={'case': case})
      # (b) fn_batch_size smaller/larger than batch_size: fn sees fn_batch_size
      for fbs in targets:
        seen = []
        def fn(x, seen=seen):
          seen.append(list(x))
          return x
        case = ('apply.fn_batch_size!=batch_size', tuple(sizes), fbs, target)
        st.case(case, nontrivial=n > 0)
        try:
          t = chainable.TreeTransform().apply(
              fn=fn, fn_batch_size=fbs, batch_size=target)
          got = [list(b) for b in t.make().iterate(iter(batches))]
        except Exception as e:  # pylint: disable=broad-except
          st.violation(f'C19:apply.fn_batch_size+batch_size:raise:{type(e).__name__}',
                       {'case': case, 'error': repr(e)}, replay={'case': case})
          continue
        exp_fn = [list(range(i, min(i + fbs, n))) for i in range(0, n, fbs)]
        if got != exp or seen != exp_fn:
          st.violation('C19:apply.fn_batch_size+batch_size:rows',
                       {'case': case, 'got': got, 'expected': exp,
                        'fn_saw': seen, 'fn_expected': exp_fn},
                       replay={'case': case})
  return st


def run(ctx):
  quick = ctx.quick
  max_batches, max_size = (4, 4) if quick else (5, 5)
  min_size = 1 if quick else 0
  targets = range(1, 6 if quick else 7)
  ncols = (1, 2, 3)
  seqs = list(enums.sequences(range(min_size, max_size + 1), max_batches))
  ctx.rule = (
      f'every sequence of <= {max_batches} input batches with sizes in '
      f'{min_size}..{max_size} x target 1..{max(targets)} x 1-3 columns x '
      f'container kinds (uniform and mixed{"" if quick else ", all combinations"}) '
      'x pad in {None,0} x num_columns given/inferred through rebatched_args; '
      'numpy columns whose element type changes between input batches (int/float, '
      'bool/int, string widths) over every sequence of 2-3 (4) batches; '
      'plus apply/select(batch_size, fn_batch_size) pipelines over every '
      'sequence of <= 4 list batches; non-trivial = non-empty stream; '
      'distinct = distinct (driver, sizes, target, columns, kinds, pad, infer)')
  ctx.assumptions += [
      'rows are unique tagged integers (column*1000+row) so alignment is observable',
      'zero-sized input batches are only enumerated in the thorough tier',
  ]
  units = [(u, tuple(targets), ncols, ctx.tier)
           for u in enums.chunks(ctx.shuffled(seqs), 64)]
  ctx.pmap(_unit, units)
  mseqs = [q for q in enums.sequences(range(1, 4 if quick else 5),
                                      3 if quick else 4) if len(q) >= 2]
  ctx.pmap(_mixed_unit, [(u, tuple(range(1, 5)))
                         for u in enums.chunks(ctx.shuffled(mseqs), 32)])
  pseqs = list(enums.sequences(range(1, 4 if quick else 5), 3 if quick else 4))
  ctx.pmap(_pipeline_unit, [(u, tuple(range(1, 5)))
                            for u in enums.chunks(ctx.shuffled(pseqs), 32)])
  ctx.notes['input_size_sequences'] = len(seqs)


def replay(ctx, data):
  if 'mixed' in data['replay']:
    _, sizes, target, variant = data['replay']['mixed']
    check_mixed_dtype(ctx, tuple(sizes), target, variant)
    return
  case = data['replay']['case']
  if case[0] == 'rebatched_args':
    _, sizes, target, ncol, kinds, pad, infer = case
    check_rebatched(ctx, tuple(sizes), target, ncol, tuple(kinds), pad, infer)
  else:
    ctx.merge(_pipeline_unit(([tuple(case[1])], tuple(range(1, 5)))))
