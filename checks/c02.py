"""C02 - pipeline aggregation and slicing equal a brute-force group-by.

Exhaustive enumeration (E3) of aggregate programs x slicer subsets x batched
streams on the real `TreeTransform.aggregate/add_aggregate/add_slice` runner,
through three drivers:

  call     make()(batch) for one-batch streams, make()(input_iterator=iter(()))
           for the empty stream
  iterate  make().iterate(stream) -> .agg_result and the AggregateResult that
           the iterator returns
  merge    update_state per batch on a fresh state, merge_states, get_result

and, for aggregation state that is CARRIED ACROSS STEPS (streams of >= 2
batches; the way a worker / a nested pipeline / a resumed run drives it):

  carry        one state through ChainedRunner.update_state(state, batch) for
               every batch in turn, then get_result
  carry-inner  the same on the TransformRunner of the aggregate stage
               (`named_aggs`); get_result after every batch is compared with
               the group-by of that prefix of the stream (`carry-inner@prefix`)
  resume       iterate(batches[:k]) -> iterate(batches[k:], state=agg_state) ->
               agg_result, the stream cut at a set of batch boundaries
  restore      iterate(SequenceDataSource), after the batches of a set of
               boundaries `it = it.from_state(it.state)`, -> agg_result

Oracle: vmc/oracles/slicing_ref.py (dict-of-lists group-by, Fractions).  Checked:
exact key set and key shape, value per key, unsliced value independent of the
slicer subset (implementation against implementation).
"""
import itertools as itt
from fractions import Fraction

import numpy as np

from vmc import enums
from vmc.oracles import slicing_ref
from vmc.runner import Stats

PROPERTY = 'C02'
LEVEL = 'exploration'


# ---- transparent aggregates (test fixtures, not the code under test) -------

def _plain(x):
  if isinstance(x, np.ndarray):
    return x.tolist()
  if isinstance(x, np.generic):
    return x.item()
  if isinstance(x, (list, tuple)):
    return [_plain(y) for y in x]
  return x


def _flat(x):
  return [z for y in x for z in _flat(y)] if isinstance(x, list) else [x]


class Collect:
  """State = every column it was fed, in order; result = [column, ...]."""

  def __init__(self, ncols):
    self.ncols = ncols

  def create_state(self):
    return []

  def update_state(self, state, *cols):
    assert len(cols) == self.ncols, cols
    return state + [[_plain(c) for c in cols]]

  def merge_states(self, states):
    return [u for s in states for u in s]

  def get_result(self, state):
    return [[r for u in state for r in u[k]] for k in range(self.ncols)]


class Mean2:
  """Exact mean per positional input; result = tuple of Fractions / None."""

  def __init__(self, ncols=2):
    self.ncols = ncols

  def create_state(self):
    return [(Fraction(0), 0)] * self.ncols

  def update_state(self, state, *cols):
    assert len(cols) == self.ncols, cols
    out = []
    for (s, n), c in zip(state, cols):
      f = _flat(_plain(c))
      out.append((s + sum(map(Fraction, f)), n + len(f)))
    return out

  def merge_states(self, states):
    states = list(states)
    return [(sum(s[k][0] for s in states), sum(s[k][1] for s in states))
            for k in range(self.ncols)]

  def get_result(self, state):
    return tuple(s / n if n else None for s, n in state)


class MeanDict(Mean2):
  """Keyword input x=..., dict result {'m': mean, 'n': count}."""

  def __init__(self):
    super().__init__(1)

  def update_state(self, state, x):  # pylint: disable=arguments-differ
    return super().update_state(state, x)

  def get_result(self, state):
    (s, n), = state
    return {'m': s / n if n else None, 'n': n}


# ---- programs ---------------------------------------------------------------

def FAN(a, b):  # fan-out: 0..2 slice values, the pair (2, 2) names one slice twice
  if a == 1:
    return () if b == 1 else (b,)
  return (a, b)


def FANT(a):  # tuple-valued fan-out: 1..2 slice values
  return tuple((i, a) for i in range(a))


def _mask_fn(per_input):
  def fn(ts):
    for key in sorted({t for row in ts for t in row}):
      mask = [[t == key for t in row] for row in ts]
      yield key, ((mask, True) if per_input else (mask,))
  return fn


def _within(col, allowed):
  return lambda r: [r[col]] if r[col] in allowed else []


# id -> (kwargs of add_slice, oracle description, needs nested 2-input aggregates)
MENU = {
    'a': (dict(keys='a'),
          dict(name=('a',), mode='rows', fn=lambda r: [r['a']], repl=None), False),
    'ab': (dict(keys=('a', 'b')),
           dict(name=('a', 'b'), mode='rows', fn=lambda r: [(r['a'], r['b'])],
                repl=None), False),
    'fan': (dict(keys=('a', 'b'), slice_name='fan', slice_fn=FAN),
            dict(name=('fan',), mode='rows', fn=lambda r: FAN(r['a'], r['b']),
                 repl=None), False),
    'fant': (dict(keys='a', slice_name=('p', 'q'), slice_fn=FANT),
             dict(name=('p', 'q'), mode='rows', fn=lambda r: FANT(r['a']),
                  repl=None), False),
    'a1': (dict(keys=dict(a=1)),
           dict(name=('a',), mode='rows', fn=_within('a', (1,)), repl=None), False),
    'b19': (dict(keys=dict(b=(1, 9))),
            dict(name=('b',), mode='rows', fn=_within('b', (1, 9)), repl=None),
            False),
    'brep': (dict(keys='b', slice_name='b0', replace_mask_false_with=0),
             dict(name=('b0',), mode='rows', fn=lambda r: [r['b']], repl=0), False),
    'm1': (dict(keys='ts', slice_name='tag', slice_mask_fn=_mask_fn(False)),
           dict(name=('tag',), mode='elems', col='ts', first_only=False,
                repl=None), True),
    'm1r': (dict(keys='ts', slice_name='tagr', slice_mask_fn=_mask_fn(False),
                 replace_mask_false_with=0),
            dict(name=('tagr',), mode='elems', col='ts', first_only=False, repl=0),
            True),
    'm2': (dict(keys='ts', slice_name='tag2', slice_mask_fn=_mask_fn(True)),
           dict(name=('tag2',), mode='elems', col='ts', first_only=True,
                repl=None), True),
    'm2r': (dict(keys='ts', slice_name='tag2r', slice_mask_fn=_mask_fn(True),
                 replace_mask_false_with=0),
            dict(name=('tag2r',), mode='elems', col='ts', first_only=True, repl=0),
            True),
}
FLAT_MENU = ('a', 'ab', 'fan', 'fant', 'a1', 'b19', 'brep')
NESTED_MENU = ('a', 'ab', 'fan', 'fant', 'a1', 'b19', 'm1', 'm1r', 'm2', 'm2r')
# A row slicer in replace mode over two-dimensional columns: whether a row that
# is not in the slice becomes `0` or `[0, 0]` is not documented, so it is only
# combined with the Collect program, where both forms are accepted (see same()).
NESTED_COLLECT_MENU = NESTED_MENU + ('brep',)
MENUS = {'flat': FLAT_MENU, 'nested': NESTED_MENU,
         'nested-collect': NESTED_COLLECT_MENU}


def _mv():
  from ml_metrics._src.aggregates import rolling_stats
  return rolling_stats.MeanAndVariance()


def _agg(kind, cols, names, sliced=True):
  return dict(kind=kind, cols=list(cols), names=list(names), sliced=sliced)


# cfg id -> (menu, ndarray columns?, [(fn maker, input_keys, output_keys, oracle agg)])
CONFIGS = {
    'collect-str': ('flat', False, [
        (lambda: Collect(1), 'v', 'out', _agg('collect', ['v'], ['out']))]),
    'mean-tuple-ndarray': ('flat', True, [
        (Mean2, ('v', 'w'), ('m_v', 'm_w'),
         _agg('mean', ['v', 'w'], ['m_v', 'm_w']))]),
    'mean-dictkeys': ('flat', False, [
        (MeanDict, dict(x='v'), dict(mean='m', cnt='n'),
         _agg('meandict', ['v'], ['mean', 'cnt']))]),
    'collect-unsliced+mv': ('flat', False, [
        (lambda: Collect(1), 'v', 'out', _agg('collect', ['v'], ['out'], False)),
        (_mv, 'v', 'mv', _agg('mv', ['v'], ['mv']))]),
    'mv+collect-unsliced': ('flat', True, [
        (_mv, 'w', 'mv', _agg('mv', ['w'], ['mv'])),
        (lambda: Collect(2), ('v', 'w'), 'out',
         _agg('collect', ['v', 'w'], ['out'], False))]),
    'collect+mean': ('flat', False, [
        (lambda: Collect(1), 'v', 'out', _agg('collect', ['v'], ['out'])),
        (Mean2, ('v', 'w'), ('m_v', 'm_w'),
         _agg('mean', ['v', 'w'], ['m_v', 'm_w']))]),
    'nested-collect': ('nested-collect', False, [
        (lambda: Collect(2), ('vs', 'ws'), 'out',
         _agg('collect', ['vs', 'ws'], ['out']))]),
    'flat-unsliced+nested-mean': ('nested', False, [
        (lambda: Collect(1), 'v', 'flat', _agg('collect', ['v'], ['flat'], False)),
        (Mean2, ('vs', 'ws'), ('m_vs', 'm_ws'),
         _agg('mean', ['vs', 'ws'], ['m_vs', 'm_ws']))]),
}


def subsets_of(cfg, max_size):
  for sub in enums.subsets(MENUS[CONFIGS[cfg][0]], max_size):
    names = [MENU[s][1]['name'] for s in sub]
    if len(set(names)) == len(names):  # add_slice rejects duplicate slice names
      yield sub


def build(cfg, subset):
  from ml_metrics._src.chainables import transform
  t = transform.TreeTransform()
  for i, (mk, ikeys, okeys, desc) in enumerate(CONFIGS[cfg][2]):
    kw = dict(input_keys=ikeys, output_keys=okeys,
              disable_slicing=not desc['sliced'])
    t = t.aggregate(mk(), **kw) if i == 0 else t.add_aggregate(fn=mk(), **kw)
  for s in subset:
    kw = dict(MENU[s][0])
    t = t.add_slice(kw.pop('keys'), **kw)
  return t


# ---- streams ----------------------------------------------------------------

FEATS = tuple(itt.product((1, 2), (1, 2)))
VALUES = (1, 4, 9)
TAG_A, TAG_B = {1: 'p', 2: 'q'}, {1: 'p', 2: 'r'}


def shapes(n, max_batches=3, max_rows=3):
  return [c for c in enums.compositions(n)
          if len(c) <= max_batches and max(c, default=0) <= max_rows]


def streams(family, min_rows_total, max_rows_total):
  """Tuples of batches; a batch is a tuple of rows (a, b, v)."""
  for n in range(min_rows_total, max_rows_total + 1):
    if family == 'tagged':  # v = square of the 1-based global row index
      rowseqs = ([(a, b, (i + 1) ** 2) for i, (a, b) in enumerate(f)]
                 for f in itt.product(FEATS, repeat=n))
    else:  # 'alphabet': v in {1, 4, 9}
      rowseqs = (list(r) for r in itt.product(
          [f + (v,) for f in FEATS for v in VALUES], repeat=n))
    for rows in rowseqs:
      for shape in shapes(n):
        yield tuple(tuple(p) for p in enums.cut(rows, shape))


def to_batches(stream, ndarray=False):
  """Column dicts; w, vs, ws, ts are derived so that alignment is observable."""
  out, i = [], 0
  for batch in stream:
    cols = {c: [] for c in ('a', 'b', 'v', 'w', 'vs', 'ws', 'ts')}
    for a, b, v in batch:
      for c, x in zip(cols, (a, b, v, 100 + i, [v, -v], [100 + i, 200 + i],
                             [TAG_A[a], TAG_B[b]])):
        cols[c].append(x)
      i += 1
    out.append(cols)
  if ndarray:
    return out, [{c: (np.asarray(x) if c in ('a', 'b', 'v', 'w') else x)
                  for c, x in b.items()} for b in out]
  return out, [{c: list(map(_copy, x)) for c, x in b.items()} for b in out]


def _copy(x):
  return list(x) if isinstance(x, list) else x


# ---- comparison -------------------------------------------------------------

def canon(result):
  """Implementation result -> {(metric, slice name, slice value): value}."""
  from ml_metrics._src.chainables import transform, tree_fns
  out, bad = {}, []
  for k, v in dict(result).items():
    if isinstance(k, str):
      out[(k, None, None)] = v
    elif (isinstance(k, transform.MetricKey) and isinstance(k.metrics, str)
          and isinstance(k.slice, tree_fns.SliceKey)
          and isinstance(k.slice.features, tuple)
          and isinstance(k.slice.values, tuple)
          and len(k.slice.features) == len(k.slice.values)
          and k.slice.features):
      val = tuple(tuple(x) if isinstance(x, list) else x
                  for x in _plain(k.slice.values))
      key = (k.metrics, k.slice.features, val)
      if key in out:
        bad.append(repr(k))
      out[key] = v
    else:
      bad.append(repr(k))
  return out, bad


def same(kind, got, exp):
  if kind == 'mv':
    try:
      if exp is None:  # nothing was added: a fresh accumulator
        return int(got.count) == 0
      g = (int(got.count), float(got.mean), float(got.var))
    except Exception:  # pylint: disable=broad-except
      return False
    return g[0] == exp[0] and all(
        abs(a - float(b)) <= 1e-9 * (1 + abs(float(b)))
        for a, b in zip(g[1:], exp[1:]))
  if kind == 'collect':  # a fully replaced row may be `0` or `[0, ..., 0]`
    got, exp = _zero_rows(_plain(got)), _zero_rows(exp)
  return _plain(got) == exp and type(got) is type(exp)  # pylint: disable=unidiomatic-typecheck


def _zero_rows(cols):
  if not (isinstance(cols, list) and all(isinstance(c, list) for c in cols)):
    return cols
  return [[0 if isinstance(r, list) and r and all(
      not isinstance(e, list) and e == 0 for e in r) else r for r in c]
          for c in cols]


def compare(st, driver, cfg, subset, result, exp, kinds, replay):
  """Records violations of one observed result against the oracle."""
  got, bad = canon(result)
  problems = []
  if bad:
    problems.append(('key-shape', None, bad))
  for key in sorted(set(got) | set(exp), key=repr):
    metric, sname, _ = key
    where = 'unsliced' if sname is None else 'slice=' + '.'.join(sname)
    if key not in exp:
      problems.append(('key-invented', where, key))
    elif key not in got:
      problems.append(('key-dropped', where, key))
    elif not same(kinds[metric], got[key], exp[key]):
      problems.append(('value', where, (key, got[key], exp[key])))
  for what, where, info in problems[:6]:
    st.violation(f'C02:{driver}:{what}:{cfg}:{where}',
                 {'cfg': cfg, 'slicers': subset, 'info': info, **replay},
                 replay=replay)
  return got


BASE = ('call', 'iterate', 'merge')
CARRIED = ('carry', 'carry-inner', 'resume', 'restore')


def cut_sets(driver, nbatches, full):
  """The sets of batch boundaries at which a carried-state driver hands over.

  carry / carry-inner hand the state over after every batch (one variant).
  Not full: resume at every single inner boundary; restore at all inner
  boundaries in one run.  Full: every non-empty set of inner boundaries, and the
  two outer boundaries (0: resumed before anything was seen, n: resumed with
  nothing left) alone.
  """
  if driver in ('carry', 'carry-inner'):
    return [None] if nbatches >= 2 else []
  if driver not in CARRIED:
    return [None]
  inner = tuple(range(1, nbatches))
  if not full:
    if not inner:
      return []
    return [(k,) for k in inner] if driver == 'resume' else [inner]
  if not nbatches:
    return []
  return list(enums.subsets(inner, min_size=1)) + [(0,), (nbatches,)]


def _drain(it):
  n = 0
  for _ in it:
    n += 1
  return n


def _drive_carried(st, driver, cuts, runner, batches, replay, on_prefix):
  """Aggregation state carried across steps; returns the reported result."""
  from ml_metrics._src.chainables import io
  cfg = replay.get('cfg')
  if driver == 'carry':
    state = runner.create_state()
    for b in batches:
      state = runner.update_state(state, b)
    return runner.get_result(state)
  if driver == 'carry-inner':
    (inner,) = runner.named_aggs.values()
    state = inner.create_state()
    result = None
    for i, b in enumerate(batches):
      state = inner.update_state(state, b)
      # A TreeMapView; `.data` is how ChainedRunner.get_result reads it.
      result = inner.get_result(state).data
      if i + 1 < len(batches):  # compared now: a result may alias the state
        on_prefix(i + 1, result)
    return result
  if driver == 'resume':
    state, n_out, it = None, 0, None
    bounds = [0] + list(cuts) + [len(batches)]
    for lo, hi in zip(bounds, bounds[1:]):
      it = (runner.iterate(iter(batches[lo:hi])) if state is None else
            runner.iterate(iter(batches[lo:hi]), state=state))
      n_out += _drain(it)
      state = it.agg_state
    result = it.agg_result
  else:  # restore
    it = runner.iterate(io.SequenceDataSource(batches))
    n_out = 0
    if 0 in cuts:
      it = it.from_state(it.state)
    for i in range(len(batches)):
      next(it)
      n_out += 1
      if i + 1 in cuts:
        it = it.from_state(it.state)
    n_out += _drain(it)
    result = it.agg_result
  if n_out != len(batches):
    st.violation(f'C02:{driver}:forwarded-batches:{cfg}',
                 {'n_out': n_out, **replay}, replay=replay)
  return result


def drive(st, driver, cfg, subset, stream, replay, cuts=None, on_prefix=None):
  """Runs one driver on a freshly built runner; returns the reported result."""
  from ml_metrics._src.chainables import transform
  batches = to_batches(stream, CONFIGS[cfg][1])[1]
  runner = build(cfg, subset).make()
  if driver in CARRIED:
    return _drive_carried(st, driver, cuts, runner, batches, replay,
                          on_prefix or (lambda k, result: None))
  if driver == 'call':
    return (runner(batches[0]) if batches
            else runner(input_iterator=iter(())))
  if driver == 'merge':
    states = [runner.update_state(runner.create_state(), b)
              for b in batches] or [runner.create_state()]
    return runner.get_result(runner.merge_states(states))
  it = runner.iterate(iter(batches))
  *outs, returned = transform.iterate_with_returned(it)
  result = it.agg_result
  if len(outs) != len(batches):
    st.violation(f'C02:iterate:forwarded-batches:{cfg}',
                 {'n_out': len(outs), **replay}, replay=replay)
  if not isinstance(returned, transform.AggregateResult) or repr(
      canon(returned.agg_result)) != repr(canon(result)):
    st.violation(f'C02:iterate:returned-differs-from-agg_result:{cfg}',
                 {'returned': repr(returned)[:600], **replay}, replay=replay)
  return result


def _culprit(driver, cfg, subset, stream, sig, cuts=None):
  """The single slicer that reproduces the same error alone, else the subset."""
  for s in subset if len(subset) > 1 else ():
    try:
      drive(Stats(), driver, cfg, (s,), stream, {}, cuts)
    except Exception as e:  # pylint: disable=broad-except
      if f'{type(e).__name__}<-{type(e.__cause__ or e).__name__}' == sig:
        return s
  return '+'.join(subset) or 'no-slicer'


def run_case(st, family, cfg, subset, stream,
             drivers=BASE, full=False, only_cuts=None):
  """One (program, stream) pair through the drivers; returns unsliced values."""
  _, ndarray, parts = CONFIGS[cfg]
  plain, _ = to_batches(stream, ndarray)
  aggs = [p[3] for p in parts]
  kinds = {n: a['kind'] for a in aggs for n in a['names']}
  slicers = [MENU[s][1] for s in subset]
  exp = slicing_ref.expected(aggs, slicers, plain)
  replay = {'family': family, 'cfg': cfg, 'subset': list(subset),
            'stream': [list(map(list, b)) for b in stream]}
  nrows = sum(map(len, stream))
  unsliced = None
  for driver in drivers:
    if driver == 'call' and len(stream) > 1:
      continue  # __call__(input_iterator=) is iterate() + agg_result
    for cuts in cut_sets(driver, len(stream), full):
      if only_cuts is not None and cuts != only_cuts:
        continue
      case = ((driver, cfg, subset, stream) if cuts is None else
              (driver, cuts, cfg, subset, stream))
      st.case(case, nontrivial=nrows > 0)
      rep = dict(replay, driver=driver, cuts=cuts and list(cuts))
      def on_prefix(k, partial, driver=driver, rep=rep):
        # the result reported after k batches = group-by of those k batches
        compare(st, driver + '@prefix', cfg, subset, partial,
                slicing_ref.expected(aggs, slicers, plain[:k]), kinds, rep)
      try:
        result = drive(st, driver, cfg, subset, stream, rep, cuts, on_prefix)
      except Exception as e:  # pylint: disable=broad-except
        cause = e.__cause__ or e
        sig = f'{type(e).__name__}<-{type(cause).__name__}'
        where = f'{cfg}:{_culprit(driver, cfg, subset, stream, sig, cuts)}'
        st.violation(
            f'C02:{driver}:raise:{sig}:{where if nrows else "empty-stream"}',
            {'error': repr(e)[:400], 'cause': repr(cause)[:400], **replay},
            replay=rep if driver in CARRIED else replay)
        continue
      got = compare(st, driver, cfg, subset, result, exp, kinds, rep)
      st.outcome((driver, sorted(map(repr, got.items()))))
      if driver == 'iterate':
        unsliced = {k: repr(v) for k, v in got.items() if k[1] is None}
  return unsliced


def _unit(args):
  family, cfg, max_subset, carried, chunk = args
  single_k, full_k, carried_rows = carried
  st = Stats()
  subs = list(subsets_of(cfg, max_subset))
  for stream in chunk:
    base = None
    carry_ok = sum(map(len, stream)) <= carried_rows
    for sub in subs:
      full = carry_ok and len(sub) <= full_k
      drivers = BASE + (CARRIED if full or (
          carry_ok and len(sub) <= single_k) else ())
      unsliced = run_case(st, family, cfg, sub, stream, drivers, full)
      if not sub:
        base = unsliced
      elif unsliced is not None and base is not None and unsliced != base:
        replay = {'family': family, 'cfg': cfg, 'subset': list(sub),
                  'stream': [list(map(list, b)) for b in stream]}
        st.violation(f'C02:iterate:unsliced-depends-on-slicers:{cfg}',
                     {'without': base, 'with': unsliced, **replay}, replay=replay)
  if chunk:
    st.sample({'cfg': cfg, 'family': family, 'slicer_subsets': len(subs),
               'stream (batches of rows a,b,v)': chunk[-1]})
  return st


def plan(quick):
  """[(family, min total rows, max total rows, cfgs, max slicer subset size,
  carried-state drivers: (max subset size with single cuts, max subset size
  with full cut sets, max total rows))]."""
  every = tuple(CONFIGS)
  numeric = ('mean-tuple-ndarray', 'collect-unsliced+mv', 'mv+collect-unsliced')
  none = (-1, -1, -1)
  if quick:
    return [('tagged', 0, 3, every, 2, (1, -1, 3)),
            ('alphabet', 0, 2, numeric, 1, none)]
  return [('tagged', 0, 3, every, 3, (2, 1, 3)),
          ('tagged', 4, 4, every, 2, none),
          ('alphabet', 0, 3, numeric, 1, (1, -1, 2))]


def run(ctx):
  pl = plan(ctx.quick)
  units, per_cfg = [], {}
  for family, lo, hi, cfgs, max_subset, carried in pl:
    ss = ctx.shuffled(streams(family, lo, hi))
    ctx.notes[f'streams_{family}_rows_{lo}_to_{hi}'] = len(ss)
    for cfg in cfgs:
      nsub = len(list(subsets_of(cfg, max_subset)))
      per_cfg[f'{family}[{lo}..{hi} rows]/{cfg}'] = nsub
      per = max(1, (800 if ctx.quick else 4000) // max(1, nsub))
      units += [(family, cfg, max_subset, carried, ss[i:i + per])
                for i in range(0, len(ss), per)]
  ctx.notes['programs'] = sum(per_cfg.values())
  ctx.notes['slicer_subsets_per_configuration'] = per_cfg
  ctx.rule = (
      'programs: 8 aggregate configurations (Collect / exact mean / '
      'MeanAndVariance; str, tuple, dict output keys; positional and keyword '
      'input keys; single or two stacked aggregates, one with disable_slicing, '
      'flat or nested (2 elements per row) input columns, list or ndarray '
      'columns) x every subset of size <= k of the slicer menu %s (nested '
      'programs: %s, plus brep for the nested Collect program), subsets with '
      'duplicate slice names excluded; streams: family "tagged" = every row '
      'sequence over features a,b in {1,2} (value = square of the row index) '
      'cut in every way into <= 3 non-empty batches of <= 3 rows, incl. the '
      'empty stream; family "alphabet" = same with value in {1,4,9}, numeric '
      'aggregate configurations only; bounds (family, total rows, k): %s; '
      'drivers call (one-batch and empty streams) / iterate / '
      'update_state+merge_states+get_result; AGGREGATION STATE CARRIED ACROSS '
      'STEPS (every stream of the family, hence every slice that occurs only '
      'in early / only in late batches, x every configuration x every slicer '
      'subset of size <= s): carry = one state through '
      'ChainedRunner.update_state(state, batch) batch by batch + get_result; '
      'carry-inner = the same on the aggregate stage\'s TransformRunner, with '
      'get_result after every batch compared with the group-by of that prefix; '
      'resume = iterate(batches[:k]) then iterate(batches[k:], '
      'state=agg_state).agg_result; restore = iterate(SequenceDataSource) with '
      'it = it.from_state(it.state) at batch boundaries; cut sets "single" = '
      'streams of >= 2 batches, resume at each single inner boundary, restore '
      'at all inner boundaries in one run; cut sets "full" (subsets of size <= '
      'f) = streams of >= 1 batch, resume and restore at every non-empty set of '
      'inner boundaries and at boundary 0 and boundary n alone; carried bounds '
      '(family, total rows, s, f, max total rows): %s; '
      'non-trivial = non-empty stream; distinct = distinct (driver[, cut set], '
      'configuration, slicer subset, stream)'
      % (list(FLAT_MENU), list(NESTED_MENU),
         [(f, f'{lo}..{hi}', k) for f, lo, hi, _, k, _ in pl],
         [(f, f'{lo}..{hi}') + c for f, lo, hi, _, _, c in pl if c[2] >= 0]))
  ctx.assumptions += [
      'a slice is fed only from the batches in which it occurs; in replace mode '
      'the non-members of those batches are replaced, other batches add nothing',
      'a row that names the same slice twice counts once (mask semantics)',
      'every batch has >= 1 row; a row slicer in replace mode over nested '
      'columns may turn a non-member row into 0 or into [0, 0] (both accepted) '
      'and is only combined with the Collect aggregate there',
      'mask slicers yield nested lists of bools, one per element; row slicers '
      'are combined with rectangular nested columns only',
      'carried state: the state returned by update_state / exposed as '
      'agg_state / captured by .state is the one handed to the next step; the '
      'result reported at the end (and, for carry-inner, after every batch) is '
      'that of one pass over the batches seen so far',
  ]
  ctx.pmap(_unit, ctx.shuffled(units))


def replay(ctx, data):
  r = data['replay']
  stream = tuple(tuple(tuple(row) for row in b) for b in r['stream'])
  drivers = (r['driver'],) if r.get('driver') else BASE
  cuts = tuple(r['cuts']) if r.get('cuts') is not None else None
  base = run_case(ctx, r['family'], r['cfg'], (), stream, ('iterate',))
  got = run_case(ctx, r['family'], r['cfg'], tuple(r['subset']), stream, drivers,
                 full=True, only_cuts=cuts)
  if got is not None and base is not None and got != base:
    ctx.violation(f'C02:iterate:unsliced-depends-on-slicers:{r["cfg"]}',
                  {'without': base, 'with': got})
