"""C16 - fault-free distributed execution equals in-process execution.

Exploration of configurations + bounded schedules (E1+E2): the real
`sharded_pipelines_as_iterator` (PrefetchedCourierServers, WorkerPool.iterate,
event-loop thread, aggregation thread) and the real `run_pipeline_interleaved`
with a worker-pool stage fed through a RemoteIteratorQueue run on the fake
transport without faults; outputs and the single final aggregate are compared
with the in-process run of the same pipeline.  Plus the strict-count law of
merge_states, enumerated for every (m, n).
"""
from vmc import charness, explorer
from vmc.runner import Stats

PROPERTY = 'C16'
LEVEL = 'exploration'
MODULE = 'vmc.charness'


def configs(tier):
  sh, il = [], []
  Ws = (1, 2) if tier == 'quick' else (1, 2, 3)
  for W in Ws:
    for S in (1, 2, 3, 4):
      for total, batch in ((0, 2), (1, 2), (4, 2), (5, 2), (7, 3)):
        for ibs in (1, 2, 4):
          if tier == 'quick' and (ibs == 4 or (total, batch) == (7, 3)) and S > 2:
            continue
          for fuse in (True, False):
            sh.append(('sharded', dict(W=W, S=S, total=total, batch=batch,
                                       ibs=ibs, fuse=fuse)))
  sh.append(('sharded', dict(W=2, S=2, total=4, batch=2, agg=False)))
  # a sliced aggregate whose slice values mostly occur in one shard only
  for W in (1, 2):
    for S in (1, 2, 3, 4):
      for fuse in (True, False):
        sh.append(('sharded', dict(W=W, S=S, total=7, batch=2, fuse=fuse,
                                   sliced=True)))
  # aggregates in two separately named stages: every shard state carries the
  # keys of both stages
  for W in (1, 2):
    for S in (1, 2, 3):
      for total in (0, 3, 6):
        sh.append(('sharded', dict(W=W, S=S, total=total, batch=2, agg='two')))
  for W in (1, 2):
    for buf in (0, 1, 2):
      for total, batch in ((0, 2), (3, 2), (4, 2), (5, 2)):
        for fuse in (True, False):
          il.append(('interleaved', dict(total=total, batch=batch, fuse=fuse,
                                         pool=True, W=W, buf=buf)))
  il.append(('interleaved', dict(total=5, batch=2, fuse=False, pool=True, W=2,
                                 buf=1, nworkers=1)))
  return sh, il


def _strict_count_unit(_):
  """merge_states(states[:m], strict_states_cnt=n) raises iff m != n."""
  from vmc import cenv, fixtures_c as fx
  cenv.prepare()
  st = Stats()
  for fuse in (True, False):
    runner = fx.sharded_pipeline(6, 2, fuse=fuse).make()
    shards = []
    for i in range(4):
      it = fx.sharded_pipeline(8, 2, shard_index=i, num_shards=4,
                               fuse=fuse).make().iterate()
      list(it)
      shards.append(it.agg_state)
    for target, name in ((runner, 'ChainedRunner'),
                         (list(runner.named_aggs.values())[0], 'TransformRunner')):
      for n in range(1, 6):
        for m in range(0, 5):
          case = (name, fuse, m, n)
          st.case(case)
          try:
            target.merge_states(shards[:m], strict_states_cnt=n)
            raised = False
          except ValueError:
            raised = True
          except Exception as e:  # pylint: disable=broad-except
            st.violation(f'C16:strict-count:{name}:wrong-exception',
                         {'case': case, 'error': repr(e)})
            continue
          st.outcome((name, raised))
          if raised != (m != n):
            what = 'partial-merge-accepted' if not raised else 'complete-merge-rejected'
            st.violation(f'C16:strict-count:{name}:{what}', {'case': case},
                         replay={'strict': case})
  st.sample({'driver': 'merge_states strict count', 'case': ['ChainedRunner', True, 3, 4]})
  return st


def run(ctx):
  sh, il = configs(ctx.tier)
  ctx.rule = (
      f'{len(sh)} configurations of sharded_pipelines_as_iterator (workers 1-'
      f'{2 if ctx.quick else 3}, shards 1-4, 0-7 rows, iterate_batch_size 1/2/4, '
      f'fused/unfused aggregate, plain and sliced) and {len(il)} of run_pipeline_interleaved with '
      'a worker-pool stage (workers 1-2, buffer 0/1/2, num_workers cap) under '
      'the default schedule; 5 configurations with every placement of one pause '
      'of the orchestrating loop (slow orchestrator, pause until quiescence, once '
      'per executed line); 5 configurations with every placement of one late '
      'reply; 18 sharded configurations with aggregates in two separately named '
      'stages; 4 configurations with the worker shuffles as environment choices '
      '(<= 2 deviations, thorough 3); the smallest instance of each driver under delay '
      f'bound {1 if ctx.quick else 2}; merge_states strict count for all '
      '(m, n) in 0..4 x 1..5 on both runner kinds. distinct = distinct configuration '
      '(x schedule).')
  ctx.assumptions += [
      'fake transport without faults; heartbeats pushed to a host server',
      'time passes only when every thread waits or polls (virtual clock)',
  ]
  explorer.explore_all(ctx, MODULE, sh + il, pre_bound=-1, dev_bound=0)
  # the orchestrating loops may be arbitrarily slow at any one executed line
  # (environment choice "pause here until everybody else has run as far as
  # possible"): every placement of one pause
  paused = [('sharded', dict(W=2, S=1, total=2, batch=2, pause=True)),
            ('sharded', dict(W=2, S=3, total=6, batch=2, pause=True)),
            ('sharded', dict(W=1, S=2, total=4, batch=2, pause=True)),
            ('interleaved', dict(total=4, batch=2, pool=True, W=2, buf=1,
                                 fuse=False, pause=True)),
            ('interleaved', dict(total=3, batch=2, pool=True, W=1, pause=True))]
  if not ctx.quick:
    paused += [('sharded', dict(W=3, S=4, total=7, batch=2, pause=True)),
               ('sharded', dict(W=2, S=2, total=5, batch=2, ibs=2, fuse=False,
                                pause=True)),
               ('sharded', dict(W=2, S=3, total=7, batch=2, sliced=True,
                                pause=True)),
               ('interleaved', dict(total=5, batch=2, pool=True, W=2, buf=2,
                                    pause=True))]
  explorer.explore_all(ctx, MODULE, paused, pre_bound=-1, dev_bound=1, split=16)
  ctx.notes['slow_orchestrator_configurations'] = len(paused)
  # replies may arrive late (not a fault: the reply is delivered, but only
  # after everybody else has run as far as possible): every placement of one
  # slow reply over the RPCs of a run
  slow = [('interleaved', dict(total=4, batch=2, pool=True, W=2,
                               menu=['slow-reply'])),
          ('interleaved', dict(total=6, batch=2, pool=True, W=2, buf=1,
                               fuse=False, menu=['slow-reply'])),
          ('interleaved', dict(total=3, batch=2, pool=True, W=1,
                               menu=['slow-reply'])),
          ('sharded', dict(W=2, S=2, total=5, batch=2, menu=['slow-reply'])),
          ('sharded', dict(W=2, S=3, total=6, batch=2, ibs=2,
                           menu=['slow-reply']))]
  explorer.explore_all(ctx, MODULE, slow, pre_bound=-1,
                       dev_bound=1 if ctx.quick else 2, split=8)
  ctx.notes['slow_reply_configurations'] = len(slow)
  # the random order in which the drivers try the workers (random.shuffle) as
  # an environment choice: every rotation at every shuffle, <= 2 deviations,
  # alone and combined with one late reply
  shuf = [('sharded', dict(W=3, S=3, total=6, batch=2, shuffle=True)),
          ('sharded', dict(W=2, S=3, total=6, batch=2, shuffle=True,
                           menu=['slow-reply'])),
          ('interleaved', dict(total=4, batch=2, pool=True, W=3, shuffle=True)),
          ('interleaved', dict(total=4, batch=2, pool=True, W=2, shuffle=True,
                               menu=['slow-reply']))]
  explorer.explore_all(ctx, MODULE, shuf, pre_bound=-1,
                       dev_bound=2 if ctx.quick else 3, split=8)
  ctx.notes['shuffle_configurations'] = len(shuf)
  ctx.pmap(_strict_count_unit, [0])
  # the smallest instance of each driver under delay-bounded schedule
  # exploration (last: the thorough bound may be cut by the time budget)
  small = [('sharded', dict(W=1, S=1, total=2, batch=2, mode='delay')),
           ('interleaved', dict(total=2, batch=2, pool=True, W=1, mode='delay'))]
  explorer.explore_all(ctx, MODULE, small, pre_bound=1, split=16, hb_cache=True)
  if not ctx.quick:
    explorer.explore_all(ctx, MODULE, small, pre_bound=2, split=16,
                         hb_cache=True)
  ctx.notes['configurations'] = len(sh) + len(il)
  ctx.sample({'harness': 'sharded', 'params': sh[5][1]})


def replay(ctx, data):
  r = data['replay']
  if 'strict' in r:
    ctx.merge(_strict_count_unit(0))
    return
  h = charness.HARNESSES[r['harness']](**r['params'])
  res, problems = explorer.replay_once(h, r['choices'])
  print(getattr(h, 'batches', None), h.end)
  for sig, detail in problems:
    ctx.violation(sig, detail)
