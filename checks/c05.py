"""C05 - failures and stop requests propagate through queues without hanging.

Model checking (E1) of the real IteratorQueue with faults: a producer whose
source raises at every position, an external `maybe_stop()` / `maybe_stop(exc)`
issued by an extra thread (its position is just another interleaving), queue
timeouts with a starved get / put, `ignore_error`.  All schedules within the
stated bound are executed; oracle = "every consumer ends with the injected
exception (or the documented end for that fault), nobody stays blocked, no
element delivered twice, every other producer returns".
Second level: the library's own composition `MultiplexIterator` (whose
`__next__` error path calls maybe_stop and shuts the pool down) - see c13.
"""
from vmc import explorer, qharness

PROPERTY = 'C05'
LEVEL = 'model_checking'
MODULE = 'vmc.qharness'


def configs(tier):
  q = 'queue'
  two, three, many = [], [], []
  # --- a producer fails, 1P + 1C: every position, every consumer mode
  for cap in (0, 1):
    for pos in (0, 1, 2):
      for m in ('get', ['batch', 0], ['bbatch', 2], 'iter'):
        two.append((q, dict(prods=[2], cap=cap, cons=[m], fail=[0, pos])))
  two.append((q, dict(prods=[2], cap=1, cons=['get'], fail=[0, 1],
                      ignore_error=True)))
  two.append((q, dict(prods=[2], cap=0, cons=[['bbatch', 2]], fail=[0, 0],
                      ignore_error=True)))
  # --- starvation with a timeout (virtual clock; fires at quiescence)
  two.append((q, dict(prods=[], cap=1, cons=['get'], timeout=1.0,
                      starve='get', declared=False)))
  two.append((q, dict(prods=[], cap=0, cons=[['bbatch', 2]], timeout=1.0,
                      starve='get', declared=False)))
  two.append((q, dict(prods=[2], cap=1, cons=[], timeout=1.0, starve='put')))
  # --- failing producer + healthy producer + consumer (3 threads)
  for cap in (0, 1):
    for pos in (0, 1):
      for m in ('get', ['bbatch', 2]):
        three.append((q, dict(prods=[1, 2], cap=cap, cons=[m], fail=[0, pos])))
  # --- failing producer, two consumers
  for cap in (0, 1):
    three.append((q, dict(prods=[2], cap=cap, cons=['get', 'get'],
                          fail=[0, 1])))
    three.append((q, dict(prods=[2], cap=cap, cons=['get', ['bbatch', 2]],
                          fail=[0, 2])))
  # --- external stop, 1P + 1C + stopper (3 threads)
  for cap in (0, 1):
    for stop in ('plain', 'exc'):
      for m in ('get', ['bbatch', 2]):
        three.append((q, dict(prods=[2], cap=cap, cons=[m], stop=stop)))
  # --- >= 4 threads: preemption bound 0 (all free switches at blocking points)
  many.append((q, dict(prods=[1, 2, 2], cap=1, cons=['get'], fail=[0, 0])))
  many.append((q, dict(prods=[1, 2, 2], cap=1, cons=[['batch', 0]],
                       fail=[0, 0])))
  # no consumer at all: the other producers must still stop and return (the
  # failing source fails at position 0, so it never needs queue space itself)
  many.append((q, dict(prods=[1, 2, 2], cap=1, cons=[], fail=[0, 0])))
  many.append((q, dict(prods=[1, 2, 2, 2], cap=1, cons=[], fail=[0, 0])))
  many.append((q, dict(prods=[2, 2], cap=1, cons=['get'], stop='plain')))
  many.append((q, dict(prods=[2, 2], cap=1, cons=['get'], stop='exc')))
  many.append((q, dict(prods=[2, 2], cap=1, cons=['get', 'get'], fail=[0, 1])))
  many.append((q, dict(prods=[2], cap=1, cons=['get', 'get'], stop='exc')))
  # a producer that starts after the stop request (late)
  late = [(q, dict(prods=[2], cap=1, cons=['get'], stop='plain', late=True)),
          (q, dict(prods=[2], cap=0, cons=['get'], stop='exc', late=True))]
  # a failure followed by a plain stop request (the failure must stay visible)
  # and consumers that only look after the failure / the stop has happened
  late += [(q, dict(prods=[2], cap=cap, cons=[m], fail=[0, pos], stop='plain',
                    stop_after_fail=True))
           for cap in ((1,) if tier == 'quick' else (0, 1)) for pos in (0, 1)
           for m in ('get', ['bbatch', 2])]
  # (4 threads: free switches only)
  many += [(q, dict(prods=[2], cap=1, cons=['get', 'get'], fail=[0, 1],
                    stop='plain', stop_after_fail=True)),
           (q, dict(prods=[2], cap=1, cons=['get', ['batch', 0]], fail=[0, 1],
                    stop='plain', stop_after_fail=True, late_cons=True))]
  late += [(q, dict(prods=[2], cap=0, cons=['get'], fail=[0, 1],
                    late_cons=True)),
           (q, dict(prods=[2], cap=0, cons=['iter'], fail=[0, 0], stop='exc',
                    stop_after_fail=True, late_cons=True)),
           (q, dict(prods=[2], cap=1, cons=['get'], stop='exc', late_cons=True)),
           (q, dict(prods=[2], cap=1, cons=[['bbatch', 2]], stop='plain',
                    late_cons=True))]
  deep = [c for c in two if c[1].get('fail') and c[1]['cap'] == 1
          and c[1]['cons'][0] in ('get', ['bbatch', 2])
          and not c[1].get('ignore_error')]
  deep += [c for c in two if c[1].get('timeout')]
  shallow = [c for c in two if c not in deep]
  three_q = [c for c in three if c[1]['cap'] == 1]
  if tier == 'quick':
    return [('2 threads + fault, preemption bound 2', 2, deep),
            ('2 threads + fault (remaining modes), preemption bound 1', 1, shallow),
            ('3 threads + fault, preemption bound 1', 1, three_q + late),
            ('4-5 threads + fault, preemption bound 0 (free switches at blocking points)', 0, many)]
  rest3 = [c for c in three if c not in three_q]
  quick_groups = [
      ('2 threads + fault, preemption bound 2', 2, deep),
      ('2 threads + fault (remaining modes), preemption bound 1', 1, shallow),
      ('3 threads + fault, preemption bound 1', 1, three_q + late),
      ('4-5 threads + fault, preemption bound 0 (free switches at blocking points)', 0, many)]
  return quick_groups + [
      ('3 threads + fault (unbounded queue), preemption bound 1', 1, rest3),
          ('2 threads + fault (remaining modes), preemption bound 2', 2, shallow),
          ('4-5 threads + fault, preemption bound 1', 1, many),
          ('3 threads + fault, preemption bound 2', 2, three_q + late),
          ('2 threads + fault, preemption bound 3', 3, deep)]


def run(ctx):
  groups = configs(ctx.tier)
  ctx.rule = (
      'stateless DFS over all schedules of the real IteratorQueue with one '
      'injected fault (producer failure at each position / external stop / '
      'starvation with timeout) within: '
      + '; '.join(f'{label} ({len(cfgs)} configurations)'
                  for label, _, cfgs in groups)
      + '. A case = one complete execution; distinct = distinct choice sequence.')
  ctx.assumptions += [
      'sequential consistency at bytecode granularity (CPython GIL)',
      'timed waits expire only at quiescence (virtual clock)',
      'the stop request arrives after every producer has begun, except in the '
      'explicitly "late" configurations; in the "after-failure" configurations '
      'it arrives after the failing producer has returned',
  ]
  for label, bound, cfgs in groups:
    explorer.explore_all(ctx, MODULE, cfgs, pre_bound=bound, split=24,
                         hb_cache=True)
  ctx.notes['bounds'] = [[label, len(cfgs)] for label, _, cfgs in groups]
  ctx.notes['hb_cache'] = True
  ctx.sample({'harness': 'queue', 'params': groups[0][2][0][1],
              'schedule': 'every choice sequence within the bound'})


def replay(ctx, data):
  r = data['replay']
  h = qharness.QueueHarness(**r['params'])
  res, problems = explorer.replay_once(h, r['choices'])
  for e in res.events or []:
    print(e)
  for sig, detail in problems:
    ctx.violation(sig, detail)
