"""C14 - remote evaluation is observationally the same as local evaluation.

Exploration of programs + model checking of concurrent clients (E1+E2): every
lazy expression of a small grammar (nested calls, attribute / item / call
chains, keyword arguments, cached calls, raising calls) is evaluated locally
with `lazy_fns.maybe_make` and remotely through a real CourierClient against a
real CourierServer over the fake transport; RemoteObject chains, remote
iterators and remote queues are compared with the local objects; a shutdown is
requested at every point of a 3-call history in three ways; two clients call
one server concurrently under a delay-bounded schedule exploration.

Also (see ctx.rule): shutdown requested in the middle of a call; the async
faces (__anext__, async_get, async_get_batch); arguments whose == is not a bool
(numpy arrays) and the same expression object sent repeatedly; stop/start
cycles of the server object; shutdown of a prefetching server while a request
is pending on a slow endless generator.
"""
from vmc import charness, explorer
from vmc.runner import Stats

PROPERTY = 'C14'
LEVEL = 'exploration'
MODULE = 'vmc.charness'


def _unit(params):
  st = Stats()
  h = charness.RemoteEval(**params)
  res = h.run_once([])
  again = h.run_once([])
  if again.log_digest != res.log_digest:
    st.violation('HARNESS-ERROR:nondeterministic', {'params': params})
  st.traces += 1
  st.transitions += res.steps
  st.states |= res.states
  for name, loc, rem in h.rows:
    st.case((params['part'], params.get('at'), params.get('how'), name))
    st.outcome((name, rem[0], repr(rem[1])[:40]))
  for sig, detail in h.check(res):
    st.violation(sig, detail, replay={'harness': 'remote_eval', 'params': params,
                                      'choices': [], 'mode': 'preempt'})
  if h.rows:
    st.sample({'part': params['part'], 'expression': h.rows[-1][0],
               'local': repr(h.rows[-1][1])[:80], 'remote': repr(h.rows[-1][2])[:80]})
  return st


def run(ctx):
  depth = 2 if ctx.quick else 3
  n = len(charness.c14_expressions(depth))
  nchunks = 32
  units = [dict(part='exprs', depth=depth, chunk=i, nchunks=nchunks)
           for i in range(nchunks)]
  units += [dict(part='remote-object'), dict(part='iterators')]
  units += [dict(part='shutdown', at=a, how=h) for a in (0, 1, 2)
            for h in ('stop', 'client-shutdown', 'request')]
  # the shutdown request arrives *while* a call is being served (the call then
  # fails: at even, or succeeds: at odd), at each position of the history
  units += [dict(part='shutdown', at=a, how='mid-call') for a in range(8)]
  # the server object is stopped and started again once / twice
  units += [dict(part='restart', at=a) for a in (1, 2)]
  ctx.rule = (
      f'{n} lazy expressions (grammar depth <= {depth}: add/mul/Box call, attr, '
      'item, nested chains, kwargs, cached calls at the root and nested, five '
      'kinds of raising expressions), each evaluated locally and through '
      'CourierClient.get_result; 9 RemoteObject chains; remote iterators / '
      'RemoteIterator / RemoteIteratorQueue over sources of length 0-3; shutdown '
      'requested at each point of a 3-call history in 3 ways and in the middle '
      'of a failing / succeeding call at each position; 5 expressions (values '
      'and errors) before and after the server object is stopped and started '
      'again (1-2 times); shutdown of a '
      'prefetching server while a request is pending on a slow endless '
      'generator (delay bound 1); plus two clients '
      'x 3 calls against one server under delay bound '
      f'{1 if ctx.quick else 2} (LRU cache fields hooked). distinct = distinct '
      '(part, expression)')
  ctx.assumptions += [
      'fake transport: handler exceptions that are *returned* (return_exception) '
      'are pickled objects, as with real courier',
      'client and server share one process (one lazy-object cache)',
  ]
  ctx.pmap(_unit, ctx.shuffled(units))
  from vmc import cenv, hooks
  m = cenv.prepare()
  hooks.instrument(m.func_utils.LruCache)
  explorer.explore_all(ctx, MODULE,
                       [('remote_eval', dict(part='two-clients', mode='delay'))],
                       pre_bound=1 if ctx.quick else 2, split=16, hb_cache=True)
  # a prefetching server is told to shut down while a request is pending on a
  # slow endless generator: the request is answered (elements + retriable
  # error, or dropped loudly), nothing hangs, the prefetch thread ends
  explorer.explore_all(
      ctx, MODULE,
      [('prefetch', dict(mode='delay', n=99, ps=ps, k=k, at=at, prop='C14',
                         script=['shutdown-pending', how]))
       for how in ('client', 'signal') for ps, k, at in ((1, 2, 0), (1, 2, 1))],
      pre_bound=1 if ctx.quick else 2, split=8, hb_cache=True)
  ctx.notes['expressions'] = n


def replay(ctx, data):
  r = data['replay']
  h = charness.HARNESSES[r.get('harness', 'remote_eval')](**r['params'])
  res, problems = explorer.replay_once(h, r.get('choices', []))
  for row in h.rows:
    print(row)
  for sig, detail in problems:
    ctx.violation(sig, detail)
