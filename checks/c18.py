"""C18 - tree views obey get/set laws and never mutate the viewed data.

Exhaustive enumeration (E3) on the real `tree.TreeMapView`: every tree of a
bounded depth/arity over dict/list/tuple nodes and int/str/ndarray leaves x
every existing, fresh, reserved and invalid key path x a value menu, as single
`copy_and_set`, as chains of `copy_and_set`, as one multi-key `copy_and_set`
and as `copy_and_update`; every read (single, multi-key, missing), the
iteration protocol (`keys/values/items/len`) and `apply(map_fn)`.
Oracle: vmc/oracles/tree_ref.py (persistent update on plain Python data).
"""
import itertools as itt

import numpy as np

from vmc import enums
from vmc import tree_enum as te
from vmc.oracles import tree_ref as ref
from vmc.runner import Stats

PROPERTY = 'C18'
LEVEL = 'exploration'

ERR = 'ERR'
EMPTY = 'EMPTY-VIEW'   # spec of `TreeMapView()` (no tree yet)

I, SELF, SKIP, MISSING, Lit = ref.I, ref.SELF, ref.SKIP, ref.MISSING, ref.Lit

_VALUES = {
    'int': lambda: 7,
    'str': lambda: 'v',
    'dict': lambda: {'n': 1},
    'list': lambda: [5],
    'tuple': lambda: (8, 9),
    'arr': lambda: np.array([3, 4]),
    'nested': lambda: {'n': [5, {'m': 6}]},
}
VALUES_FULL = ('int', 'str', 'dict', 'list', 'tuple', 'arr')
VALUES_CHAIN = ('int', 'nested')
VALUES_SPINE = ('int', 'dict')


# ---- translation between reference keys and library keys ---------------------

def _lib():
  from ml_metrics._src.chainables import tree  # pylint: disable=g-import-not-at-top
  return tree


def to_key(key, plain=False):
  """Reference key -> library key (`plain`: bare step instead of a Key path)."""
  T = _lib()
  if key is SELF:
    return T.Key.SELF
  if key is SKIP:
    return T.Key.SKIP
  if isinstance(key, Lit):
    return T.Key.Literal(key.value)
  steps = tuple(T.Key.Index(int(s)) if isinstance(s, I) else s for s in key)
  if plain:
    assert len(steps) == 1
    return steps[0]
  return T.Key(steps)


def from_key(k):
  """Library key (as produced by iteration) -> reference key."""
  T = _lib()
  if isinstance(k, T.Reserved):
    return SELF if k == 'SELF' else SKIP
  if not isinstance(k, T.Key):
    k = (k,)
  return tuple(I(int(s)) if isinstance(s, T.Index) else s for s in k)


def key_forms(key):
  """All spellings of one key: Key path, and the bare step for length 1."""
  forms = [('path', to_key(key))]
  if isinstance(key, tuple) and len(key) == 1:
    forms.append(('plain', to_key(key, plain=True)))
  return forms


def make_view(data):
  T = _lib()
  return T.TreeMapView() if data is MISSING else T.TreeMapView(data)


def data_of(view):
  T = _lib()
  d = view.data
  return MISSING if isinstance(d, T.NullMap) else d


def build(spec):
  return MISSING if spec == EMPTY else te.build(spec)


def root_class(spec):
  if spec == EMPTY:
    return 'empty-view'
  return spec if isinstance(spec, str) else spec[0]


# ---- path menus --------------------------------------------------------------

def set_paths(tree):
  """[(class, reference key)] every key a set is tried with on this tree."""
  out = [('SELF', SELF), ('root-path', ()), ('SKIP', SKIP)]
  if tree is MISSING:
    out += [('fresh-key', ('new',)), ('fresh-key-nested', ('new', 'sub')),
            ('fresh-index0', (I(0),)), ('fresh-index0-nested', (I(0), 'sub')),
            ('fresh-key-index0', ('new', I(0))),
            ('invalid-index-gap', (I(1),)),
            ('invalid-index-gap', ('new', I(1)))]
    return out
  for path, obj in ref.nodes(tree, into_arrays=True):
    if path:
      in_arr = len(path) and ref.is_arr(ref.get(tree, path[:-1]))
      out.append(('existing-array-element' if in_arr else 'existing', path))
      if in_arr:
        continue
    if isinstance(obj, dict):
      out += [('fresh-key', path + ('new',)),
              ('fresh-key-nested', path + ('new', 'sub')),
              ('fresh-key-index0', path + ('new', I(0))),
              ('invalid-index-gap', path + ('new', I(1)))]
    elif ref.is_seq(obj):
      n = len(obj)
      out += [('fresh-append', path + (I(n),)),
              ('fresh-append-nested', path + (I(n), 'sub')),
              ('invalid-index-gap', path + (I(n + 1),)),
              ('invalid-str-step-on-sequence', path + ('k',))]
    elif ref.is_arr(obj):
      out += [('invalid-array-append', path + (I(len(obj)),))]
    else:
      out += [('invalid-below-leaf', path + ('x',))]
  return out


def values_for(tree, key, names):
  if (isinstance(key, tuple) and key and tree is not MISSING):
    try:
      parent = ref.get(tree, key[:-1])
    except ref.RefError:
      parent = None
    if ref.is_arr(parent):
      return [n for n in names if n in ('int', 'str')] or ['int']
  return list(names)


# ---- drivers -----------------------------------------------------------------

def _coarse(cls):
  for p in ('existing', 'fresh', 'invalid'):
    if cls.startswith(p):
      return p
  return 'SELF' if cls == 'root-path' else cls


def _viol(st, driver, problem, cls, spec, detail, replay):
  root = '' if '.' in driver and '+' in cls else ':' + root_class(spec)
  st.violation(f'C18:{driver}:{problem}:{cls}{root}',
               dict(detail, tree=te.show(spec) if spec != EMPTY else EMPTY),
               replay=replay)


class _Show:
  """Defers repr() of library keys until a violation is written out."""
  __slots__ = ('o',)

  def __init__(self, o):
    self.o = o

  def __repr__(self):
    return repr(self.o)


def _run(fn):
  try:
    return fn(), None
  except Exception as e:  # pylint: disable=broad-except
    return ERR, type(e).__name__


def check_steps(st, spec, steps, form, keyform='path'):
  """One sequence of (class, key, value name) set steps in one spelling.

  form: 'chain'        view.copy_and_set(k1, v1).copy_and_set(k2, v2)...
        'multikey'     view.copy_and_set((k1, k2, ..), (v1, v2, ..))
        'update-pairs' view.copy_and_update([(k1, v1), ...])
        'update-dict'  view.copy_and_update({k1: v1, ...})
  """
  old = build(spec)
  snap = ref.snapshot(old)
  values = [_VALUES[v]() for _, _, v in steps]
  vsnaps = [ref.snapshot(v) for v in values]
  keys = [k for _, k, _ in steps]
  if len(steps) == 1:
    cls = steps[0][0]
  else:   # coarse classes, as a set: keeps the number of signatures small
    cls = '+'.join(sorted({_coarse(c) for c, _, _ in steps}))
  replay = {'driver': 'steps', 'spec': spec, 'form': form, 'keyform': keyform,
            'steps': [(c, _enc(k), v) for c, k, v in steps]}
  st.case(None)
  # reference
  exp_versions = [old]
  try:
    cur = old
    for k, v in zip(keys, values):
      cur = ref.set_(cur, k, v)
      exp_versions.append(cur)
    exp = cur
  except ref.RefError:
    exp = ERR
  # implementation
  lib_keys = [to_key(k, plain=(keyform == 'plain')) for k in keys]
  got_versions = []
  inter_snaps = []

  def impl():
    view = make_view(old)
    if form == 'chain':
      for k, v in zip(lib_keys, values):
        view = view.copy_and_set(k, v)
        got_versions.append(view.data)
        inter_snaps.append(ref.snapshot(data_of(view)))
      return data_of(view)
    if form == 'multikey':
      return data_of(view.copy_and_set(tuple(lib_keys), tuple(values)))
    if form == 'update-pairs':
      return data_of(view.copy_and_update(list(zip(lib_keys, values))))
    if form == 'update-dict':
      return data_of(view.copy_and_update(dict(zip(lib_keys, values))))
    raise AssertionError(form)

  got, err = _run(impl)
  det = {'form': form, 'keys': _Show(lib_keys),
         'values': values, 'expected': exp, 'got': got, 'error': err}
  st.outcome((form, cls, err, ref.same(got, exp)))
  driver = 'copy_and_set' if form in ('chain', 'multikey') else 'copy_and_update'
  driver += '' if len(steps) == 1 else f'.{form}'
  if isinstance(got, dict) and not ref.same(got, exp) and any(
      isinstance(k, _lib().Reserved) for k in got):
    # one failure class whatever the spelling: SKIP became a dict key
    st.violation('C18:set:SKIP-materialised-as-key:empty-view',
                 dict(det, tree=EMPTY if spec == EMPTY else te.show(spec)),
                 replay=replay)
  elif exp is ERR and got is not ERR:
    _viol(st, driver, 'accepts-invalid-key', cls, spec, det, replay)
  elif exp is not ERR and got is ERR:
    _viol(st, driver, f'raises-{err}', cls, spec, det, replay)
  elif exp is not ERR:
    if not ref.same(got, exp):
      _viol(st, driver, 'wrong-result', cls, spec, det, replay)
    else:
      old_ids = ref.container_ids(old) if old is not MISSING else {}
      bad = ref.sharing_violations(got, exp, old_ids)
      if bad:
        _viol(st, driver, 'untouched-subtree-not-shared', cls, spec,
              dict(det, at=[repr(p) for p in bad]), replay)
      # get-after-set through the library's own reader
      last = keys[-1]
      if (isinstance(last, tuple) and last and got is not MISSING):
        rd, rerr = _run(lambda: make_view(got)[to_key(last)])
        if rd is ERR or not ref.same(rd, ref.get(exp, last)):
          _viol(st, driver, 'get-after-set', cls, spec,
                dict(det, read=rd, read_error=rerr), replay)
  # frame conditions that hold whatever the outcome was
  if not ref.same(old, snap):
    _viol(st, driver, 'mutates-original', cls, spec,
          dict(det, original_before=snap, original_after=old), replay)
  for v, vs in zip(values, vsnaps):
    if not ref.same(v, vs):
      _viol(st, driver, 'mutates-caller-value', cls, spec,
            dict(det, value_before=vs, value_after=v), replay)
  for i, (gv, sn) in enumerate(zip(got_versions, inter_snaps)):
    gv = MISSING if isinstance(gv, _lib().NullMap) else gv
    if not ref.same(gv, sn):
      _viol(st, driver, 'mutates-intermediate-version', cls, spec,
            dict(det, version=i, before=sn, after=gv), replay)
  return exp


def check_set_to_current(st, spec):
  """Setting an existing path to the value read from it changes nothing."""
  old = build(spec)
  if old is MISSING:
    return
  snap = ref.snapshot(old)
  for path, _ in ref.nodes(old, into_arrays=True):
    for fname, k in key_forms(path):
      st.case(None)
      replay = {'driver': 'set-to-current', 'spec': spec, 'path': _enc(path)}

      def impl(k=k):
        view = make_view(old)
        return view.copy_and_set(k, view[k]).data
      got, err = _run(impl)
      st.outcome(('set-to-current', fname, err))
      det = {'key': _Show(k), 'got': got, 'error': err, 'expected': snap}
      if got is ERR:
        _viol(st, 'copy_and_set', f'set-to-current-raises-{err}', 'existing',
              spec, det, replay)
      elif not ref.same(got, snap):
        _viol(st, 'copy_and_set', 'set-to-current-changes-tree', 'existing',
              spec, det, replay)
      if not ref.same(old, snap):
        _viol(st, 'copy_and_set', 'mutates-original', 'set-to-current', spec,
              det, replay)


def check_multikey_single(st, spec):
  """One key inside a tuple: the documented value-vector conventions."""
  old = build(spec)
  keys = [k for c, k in set_paths(old) if c in ('existing', 'fresh-key',
                                                 'fresh-append', 'SELF')]
  menu = (('scalar', lambda: 7), ('tuple2', lambda: (8, 9)),
          ('tuple1', lambda: (8,)), ('list', lambda: [5, 6]))
  for key in keys:
    for vname, mk in menu:
      st.case(None)
      old = build(spec)
      snap = ref.snapshot(old)
      value = mk()
      replay = {'driver': 'multikey1', 'spec': spec, 'key': _enc(key),
                'value': vname}
      try:
        exp = ref.multi_set(old, (key,), value)
      except ref.RefError:
        exp = ERR
      got, err = _run(lambda: data_of(
          make_view(old).copy_and_set((to_key(key),), value)))
      st.outcome(('multikey1', vname, err, ref.same(got, exp)))
      det = {'keys': repr((to_key(key),)), 'values': value, 'expected': exp,
             'got': got, 'error': err}
      if (exp is ERR) != (got is ERR) or not ref.same(got, exp):
        _viol(st, 'copy_and_set.multikey', f'one-key-{vname}-value',
              'convention', spec, det, replay)
      if not ref.same(old, snap):
        _viol(st, 'copy_and_set.multikey', 'mutates-original', 'one-key', spec,
              det, replay)


def check_reads(st, spec, multi):
  """view[k] for every node, missing keys, multi-key alignment."""
  old = build(spec)
  snap = ref.snapshot(old)
  view = make_view(old)
  nodes = ref.nodes(old, into_arrays=True)
  cont = {id(o) for _, o in ref.nodes(old)}
  # single reads, every spelling
  for path, obj in nodes:
    spellings = key_forms(path) if path else [('path', to_key(())),
                                              ('SELF', to_key(SELF))]
    for fname, k in spellings:
      st.case(None)
      got, err = _run(lambda k=k: view[k])
      st.outcome(('read', fname, err, type(got).__name__))
      replay = {'driver': 'reads', 'spec': spec}
      det = {'key': _Show(k), 'got': got, 'error': err, 'expected': obj}
      if got is ERR:
        _viol(st, 'getitem', f'raises-{err}', 'existing', spec, det, replay)
      elif not ref.same(got, obj):
        _viol(st, 'getitem', 'wrong-value', 'existing', spec, det, replay)
      elif id(obj) in cont and got is not obj:
        _viol(st, 'getitem', 'returns-a-copy', 'existing', spec, det, replay)
  # missing keys must raise, and .get() must give the default
  missing = []
  for path, obj in nodes:
    if isinstance(obj, dict):
      missing.append(path + ('zz',))
    elif ref.is_seq(obj) or ref.is_arr(obj):
      missing.append(path + (I(len(obj)),))
    else:
      missing.append(path + ('zz',))
  for path in missing:
    for fname, k in key_forms(path):
      st.case(None)
      got, err = _run(lambda k=k: view[k])
      st.outcome(('read-missing', fname, err))
      replay = {'driver': 'reads', 'spec': spec}
      if got is not ERR:
        _viol(st, 'getitem', 'missing-key-yields-value', 'missing', spec,
              {'key': repr(k), 'got': got}, replay)
      got, err = _run(lambda k=k: view.get(k, 'dflt'))
      if not (got is not ERR and isinstance(got, str) and got == 'dflt'):
        _viol(st, 'get', 'missing-key-no-default', 'missing', spec,
              {'key': repr(k), 'got': got, 'error': err}, replay)
  # multi-key reads
  menu = [p for p, _ in nodes if p] + [SELF, Lit(7), missing[0]]
  for n in range(2, multi + 1):
    for combo in itt.product(menu, repeat=n):
      st.case(None)
      try:
        exp = ref.multi_get(old, combo)
      except ref.RefError:
        exp = ERR
      lk = tuple(to_key(k) for k in combo)
      got, err = _run(lambda lk=lk: view[lk])
      st.outcome(('multi-read', n, err))
      replay = {'driver': 'reads', 'spec': spec}
      det = {'keys': _Show(lk), 'got': got, 'error': err, 'expected': exp}
      if (exp is ERR) != (got is ERR):
        _viol(st, 'getitem.multikey',
              'missing-key-yields-value' if exp is ERR else f'raises-{err}',
              'tuple', spec, det, replay)
      elif exp is not ERR and not (
          isinstance(got, tuple) and len(got) == n and
          all(ref.same(g, e) for g, e in zip(got, exp))):
        _viol(st, 'getitem.multikey', 'misaligned', 'tuple', spec, det, replay)
  if not ref.same(old, snap):
    _viol(st, 'getitem', 'mutates-original', 'reads', spec, {}, {
        'driver': 'reads', 'spec': spec})


def check_iteration(st, spec):
  """keys/values/items/len: every leaf once, with a path that reads it back."""
  old = build(spec)
  snap = ref.snapshot(old)
  view = make_view(old)
  exp = ref.leaves(old)
  st.case(None, nontrivial=bool(exp))
  replay = {'driver': 'iteration', 'spec': spec}

  def impl():
    keys = view.keys()
    values = view.values()
    items = list(view.items())
    return keys, values, items, len(view), list(iter(view))
  got, err = _run(impl)
  st.outcome(('iter', err, len(exp)))
  if got is ERR:
    _viol(st, 'iteration', f'raises-{err}', 'leaves', spec, {'error': err},
          replay)
    return
  keys, values, items, n, it = got
  rkeys = [from_key(k) for k in keys]
  ekeys = [p for p, _ in exp]
  det = {'keys': [repr(k) for k in keys], 'expected_paths': [repr(p) for p in ekeys]}
  if sorted(map(repr, rkeys)) != sorted(map(repr, ekeys)):
    _viol(st, 'iteration', 'leaf-set', 'leaves', spec, det, replay)
    return
  if rkeys != ekeys:
    _viol(st, 'iteration', 'leaf-order', 'leaves', spec, det, replay)
  if n != len(exp) or [from_key(k) for k in it] != rkeys or (
      [from_key(k) for k, _ in items] != rkeys):
    _viol(st, 'iteration', 'len-iter-items-disagree', 'leaves', spec, det,
          replay)
  by_path = dict((repr(p), leaf) for p, leaf in exp)
  for k, rk, v, (_, iv) in zip(keys, rkeys, values, items):
    leaf = by_path[repr(rk)]
    rd, _ = _run(lambda k=k: view[k])
    if not (v is leaf and iv is leaf and rd is leaf):
      _viol(st, 'iteration', 'path-does-not-read-back-leaf', 'leaves', spec,
            dict(det, key=repr(k), value=v, leaf=leaf, read=rd), replay)
  if not ref.same(old, snap):
    _viol(st, 'iteration', 'mutates-original', 'leaves', spec, det, replay)


def _tag(x):
  return ('m', x)


def _double(x):
  return x * 2


MAP_FNS = (('tag', _tag), ('double', _double))


def check_apply(st, spec):
  """apply(map_fn) maps every leaf and nothing else; apply() is the data."""
  T = _lib()
  for name, fn in MAP_FNS:
    old = build(spec)
    snap = ref.snapshot(old)
    st.case(None, nontrivial=bool(ref.leaves(old)))
    replay = {'driver': 'apply', 'spec': spec, 'fn': name}
    try:
      exp = ref.map_leaves(old, fn)
    except Exception:  # the map function itself fails on some leaf
      exp = ERR
    got, err = _run(lambda: T.TreeMapView.as_view(old, map_fn=fn).apply())
    st.outcome(('apply', name, err, ref.same(got, exp)))
    det = {'fn': name, 'got': got, 'error': err, 'expected': exp}
    if exp is ERR and got is not ERR:
      _viol(st, 'apply', 'leaf-not-mapped', name, spec, det, replay)
    elif exp is not ERR and got is ERR:
      _viol(st, 'apply', f'raises-{err}', name, spec, det, replay)
    elif exp is not ERR and not ref.same(got, exp):
      _viol(st, 'apply', 'wrong-result', name, spec, det, replay)
    if not ref.same(old, snap):
      _viol(st, 'apply', 'mutates-original', name, spec,
            dict(det, original_after=old), replay)
  old = build(spec)
  st.case(None)
  got, err = _run(lambda: make_view(old).apply())
  if got is not old:
    _viol(st, 'apply', 'no-map-fn-not-identity', 'none', spec,
          {'got': got, 'error': err}, {'driver': 'apply', 'spec': spec})


# ---- work units --------------------------------------------------------------

def _enc(key):
  """JSON-able, decodable form of a reference key."""
  if key is SELF:
    return 'SELF'
  if key is SKIP:
    return 'SKIP'
  if isinstance(key, Lit):
    return ['LIT', key.value]
  return [['I', int(s)] if isinstance(s, I) else ['K', s] for s in key]


def _dec(enc):
  if enc == 'SELF':
    return SELF
  if enc == 'SKIP':
    return SKIP
  if enc and enc[0] == 'LIT':
    return Lit(enc[1])
  return tuple(I(v) if t == 'I' else v for t, v in enc)


def _spec_from_json(s):
  if isinstance(s, str):
    return s
  if s[0] == 'alias':
    return ('alias', int(s[1]))
  return (s[0], tuple(_spec_from_json(c) for c in s[1]))


def singles(st, spec, value_names):
  """Every key x value as one copy_and_set in every spelling + update forms."""
  tree = build(spec)
  for cls, key in set_paths(tree):
    for vname in values_for(tree, key, value_names):
      step = [(cls, key, vname)]
      check_steps(st, spec, step, 'chain', 'path')
      if isinstance(key, tuple) and len(key) == 1:
        check_steps(st, spec, step, 'chain', 'plain')
      if vname == value_names[0]:
        check_steps(st, spec, step, 'update-pairs')
        check_steps(st, spec, step, 'update-dict')


def chains(st, spec, length, value_names, forms):
  """Every sequence of `length` sets; step i+1 ranges over the keys of the
  tree produced by steps 1..i (so fresh and replaced sub-trees are re-entered).
  """
  def rec(prefix, cur):
    if len(prefix) == length:
      for form in forms:
        if form == 'update-dict':
          ks = [repr(k) for _, k, _ in prefix]
          if len(set(ks)) != len(ks):
            continue
        check_steps(st, spec, prefix, form)
      return
    if cur is ERR or not (cur is MISSING or ref.is_container(cur)):
      return  # a bare leaf as root is outside the property's domain
    for cls, key in set_paths(cur):
      for vname in values_for(cur, key, value_names):
        try:
          nxt = ref.set_(cur, key, _VALUES[vname]())
        except ref.RefError:
          nxt = ERR
        step = prefix + [(cls, key, vname)]
        if nxt is ERR and len(step) < length:
          # an invalid step in the middle: checked once, as the last step
          continue
        rec(step, nxt)
  rec([], build(spec))


def _unit(args):
  kind, specs, opt = args
  st = Stats()
  def timed(name, fn, *a):
    before = st.evaluations
    fn(st, *a)
    st.count('cases_' + name, st.evaluations - before)
  for spec in specs:
    start = st.evaluations
    if kind == 'single':
      timed('single_set', singles, spec, opt['values'])
      timed('set_to_current', check_set_to_current, spec)
      if opt.get('one_key', True):
        timed('one_key_tuple', check_multikey_single, spec)
      if spec != EMPTY:
        timed('reads', check_reads, spec, opt['multi'])
        timed('iteration', check_iteration, spec)
        timed('apply', check_apply, spec)
    elif kind == 'chain':
      timed('chain%d' % opt['length'], chains, spec, opt['length'],
            opt['values'], opt['forms'])
    if spec != EMPTY and te.n_aliases(spec):
      st.count('cases_on_aliased_trees', st.evaluations - start)
  if specs:
    st.sample({'driver': kind, 'tree': build(specs[0]) if specs[0] != EMPTY
               else EMPTY, 'options': opt,
               'set_keys': [f'{c}:{k!r}' for c, k in set_paths(build(specs[0]))][:12]})
  return st


def _roots(specs):
  """Property domain: the root is a mapping/sequence (or the empty view)."""
  return [s for s in specs if te.is_node(s)]


def _spine_depth3():
  """Depth-3 trees: a root with <= 2 children, each a chain (<= 1 child per
  node) of depth <= 2 with all leaf kinds."""
  sub = te.specs(2, max_children=1)
  out = []
  for kind in te.NODE_KINDS:
    for n in (1, 2):
      for ch in itt.product(sub, repeat=n):
        s = (kind, ch)
        if te.depth_of(s) == 3:
          out.append(s)
  return out


def run(ctx):
  quick = ctx.quick
  d1 = _roots(te.specs(1))
  d2 = _roots(te.specs(2))                       # every tree of depth <= 2
  spine3 = _spine_depth3()
  rot2 = sorted({te.rotated(s, o) for s in _roots(te.shapes(2))
                 for o in range(3)}, key=repr)
  rot1 = [te.rotated(s, i % 3) for i, s in enumerate(_roots(te.shapes(2)))]
  narrow2 = _roots(te.specs(2, max_children=1))
  all_forms = ('chain', 'multikey', 'update-pairs', 'update-dict')
  two_forms = ('chain', 'multikey')
  single_specs = [EMPTY] + d2 + spine3
  plan = [  # (kind, trees, options)
      ('single', [EMPTY] + d2,
       {'values': VALUES_FULL, 'multi': 2 if quick else 3}),
      ('single', spine3,
       {'values': VALUES_SPINE if quick else VALUES_FULL,
        'multi': 0 if quick else 2, 'one_key': not quick}),
      ('chain', [EMPTY] + (rot1 if quick else rot2),
       {'length': 2, 'values': VALUES_CHAIN,
        'forms': two_forms if quick else all_forms}),
  ]
  # mappings whose keys are plain strings spelled like the reserved markers
  # ('SELF', 'SKIP') are ordinary mappings: same laws
  look = sorted({te.with_lookalike_keys(s) for s in (d2 if not quick else
                                                    _roots(te.specs(2, max_children=2,
                                                                    leaf_kinds=('int', 'arr'))))
                 if te.has_dict(s)}, key=repr)
  plan.append(('single', look, {'values': VALUES_SPINE, 'multi': 2}))
  plan.append(('chain', look[:200] if quick else look,
               {'length': 2, 'values': VALUES_CHAIN, 'forms': two_forms}))
  # aliased sub-trees: the same dict/list/tuple/ndarray object reachable through
  # more than one path (siblings, cousins, an uncle; up to 3 occurrences).  The
  # tree is a value: every law holds path by path, whatever objects are shared.
  alias1 = te.alias_specs(1)                          # [A, A] with A an ndarray
  alias2 = te.alias_specs(2)                          # every aliased depth<=2
  alias_sh = te.alias_specs(2, leaf_kinds=('int',))   # container aliases only
  in2 = set(alias2)
  alias_spine = [s for s in te.alias_specs(3, max_children=(2, 1, 1))
                 if s not in in2]                     # depth 3 exactly
  alias_wide = [s for s in te.alias_specs(2, max_children=(3, 2),
                                          leaf_kinds=('int',))
                if s not in in2]                      # root has 3 children
  alias_rot = ([te.rotated(s, i % 3) for i, s in enumerate(alias_sh)]
               if quick else
               sorted({te.rotated(s, o) for s in alias_sh for o in range(3)},
                      key=repr))
  alias_look = sorted({te.with_lookalike_keys(s) for s in alias_sh + alias1
                       if te.has_dict(s)}, key=repr)
  alias_deep_sh = [] if quick else [
      s for s in te.alias_specs(3, max_children=(2, 1, 1), leaf_kinds=('int',))
      if s not in in2]
  small = set(alias_sh + alias1)      # these get the larger menus below
  plan += [
      ('single', [s for s in alias2 if s not in small],
       {'values': VALUES_SPINE if quick else VALUES_FULL,
        'multi': 0 if quick else 2}),
      ('single', alias_sh + alias1 + alias_look,
       {'values': VALUES_FULL, 'multi': 2 if quick else 3}),
      ('single', alias_spine + alias_wide,
       {'values': VALUES_SPINE, 'multi': 0, 'one_key': not quick}),
      ('chain', alias_rot + alias1 + alias_look,
       {'length': 2, 'values': VALUES_CHAIN,
        'forms': two_forms if quick else all_forms}),
  ]
  if alias_deep_sh:
    plan.append(('chain', [te.rotated(s, i % 3)
                           for i, s in enumerate(alias_deep_sh)],
                 {'length': 2, 'values': VALUES_CHAIN, 'forms': two_forms}))
  n_alias_single = len(alias2) + len(alias_look) + len(alias_spine + alias_wide)
  if quick:
    plan.append(('chain', [EMPTY] + d1 + alias1, {
        'length': 2, 'values': VALUES_CHAIN,
        'forms': ('update-pairs', 'update-dict')}))
    deep = []
  else:
    deep = [te.rotated(s, i % 3) for i, s in enumerate(
        s for s in _roots(te.shapes(3)) if te.depth_of(s) == 3)]
    plan += [
        ('single', deep, {'values': ('dict',), 'multi': 0,
                          'one_key': False}),
        ('chain', d2, {'length': 2, 'values': VALUES_CHAIN,
                       'forms': two_forms}),
        ('chain', [EMPTY] + sorted(set(d1 + narrow2), key=repr),
         {'length': 3, 'values': VALUES_CHAIN, 'forms': two_forms}),
    ]
  ctx.rule = (
      'trees: every dict/list/tuple tree of depth <= 2 with 0-2 children per '
      'node and int/str/ndarray leaves (%d), the empty view, and depth-3 trees '
      'whose root has <= 2 children that are chains of depth <= 2 (%d)%s; '
      'keys: every existing node path (incl. ndarray elements), fresh key / '
      'nested fresh key / fresh [0] at every dict, append / nested append at '
      'every list and tuple, SELF, the empty path, SKIP, and invalid keys '
      '(index gap, str step on a sequence, below a leaf, array append); '
      'values: int, str, dict, list, tuple, ndarray%s; each as one copy_and_set '
      '(Key and bare spelling), copy_and_update(pairs / dict), one-key tuple '
      'conventions, set-to-current; reads: every node in every spelling, '
      'missing keys, all ordered multi-key pairs%s, keys/values/items/len, '
      'apply(map_fn) with 2 functions; chains: every sequence of 2 sets '
      '(values int, nested dict; step 2 ranges over the keys of the tree after '
      'step 1) as chained copy_and_set and as one multi-key copy_and_set on '
      'every depth<=2 shape with leaf kinds int/str/ndarray assigned '
      'cyclically%s (%d trees)%s. '
      'Aliased sub-trees (the same dict/list/tuple/ndarray object reachable '
      'through more than one path; the oracle treats the tree as a value, so '
      'every law above holds path by path): every tree of depth <= 2 above in '
      'which one or more children are replaced, in every possible way, by a '
      'reference to a container or ndarray object completed earlier in '
      'depth-first order, value depth still <= 2 (%d trees: shared siblings, '
      '1-3 aliases), the same for the depth-3 two-chain trees (%d of depth 3: '
      'shared cousins / uncle) and for int-leaved depth-2 trees whose root has '
      '3 children (%d: up to 3 occurrences of one object); on all of these '
      'every single set in every spelling and update form, set-to-current, '
      'every read, keys/values/items/len and apply (values %s; one-key tuple '
      'conventions%s; all six values and multi-key reads on the %d aliased '
      'trees with int leaves only or of depth 1 and their variants with '
      'reserved-lookalike keys%s); every sequence of 2 sets (%s) on %d aliased '
      'trees: the int-leaved depth<=2 ones with leaf kinds assigned cyclically '
      '(%s), depth 1, lookalike keys%s. Cases are '
      'distinct by construction; non-trivial = at least one leaf or one set.'
      % (len(d2), len(spine3),
         '' if quick else '; single sets, reads, iteration and apply also on '
         'every depth-3 shape with <= 2 children per node, leaf kinds '
         'rotating (%d trees, value dict; int into ndarray elements)' % len(deep),
         ' (int, dict on the depth-3 trees)' if quick else '',
         ' (depth <= 2)' if quick else ' and triples (depth <= 2)',
         ' (one starting offset per shape)' if quick else
         ' (all three starting offsets)',
         len(rot1 if quick else rot2),
         ', as copy_and_update(pairs/dict) on the %d trees of depth <= 1'
         % len(d1) if quick else
         ' (there also as copy_and_update(pairs/dict)) and on all %d trees of '
         'depth <= 2; every sequence of 3 sets on the %d trees of depth <= 1 '
         'or of depth <= 2 with <= 1 child per node'
         % (len(d2), len(set(d1 + narrow2))),
         len(alias2), len(alias_spine), len(alias_wide),
         'int, dict' if quick else 'all six on depth <= 2, else int, dict',
         ' on depth <= 2' if quick else '',
         len(alias_sh + alias1 + alias_look),
         '' if quick else ' and on every aliased depth<=2 tree',
         'chained / multi-key copy_and_set; copy_and_update on depth 1'
         if quick else 'all four forms',
         len(alias_rot + alias1 + alias_look),
         'one starting offset per shape' if quick else 'all three offsets',
         '' if quick else ', and as chained / multi-key copy_and_set on the %d '
         'aliased two-chain shapes of depth 3' % len(alias_deep_sh)))
  ctx.assumptions += [
      'root of the viewed data is a dict/list/tuple or the empty view '
      '(statement: "any nested mapping/sequence"); a bare scalar/ndarray root '
      'is outside the domain, chains stop when a set makes the root a leaf',
      'empty containers below the root count as leaves (tree_test.test_iter)',
      'dict keys are str or int; a 2-child dict uses the keys "a" and 1',
      'only int/str values are written into ndarray elements (numpy casting '
      'rules are not part of the property)',
      'error kinds are not compared, only "raises" versus "returns"',
      'identity of untouched sub-objects is required below the root only '
      '(docstring: "shallow copies the nodes along the path")',
      'aliases refer to completed objects only: no tree contains itself '
      '(cyclic data is outside "nested mapping/sequence"); the empty tuple is '
      'not an alias target (CPython has a single () object anyway)',
  ]
  units = []
  for kind, trees, opt in plan:
    per = 4 if kind == 'chain' and opt['length'] == 3 else (
        8 if kind == 'chain' else (150 if opt['multi'] == 0 else 40))
    trees = ctx.shuffled(trees)
    units += [(kind, trees[i:i + per], opt) for i in range(0, len(trees), per)]
  ctx.pmap(_unit, ctx.shuffled(units))
  ctx.notes['trees_single'] = len(single_specs) + len(deep)
  ctx.notes['trees_single_aliased'] = n_alias_single
  ctx.notes['trees_chain'] = sum(len(t) for k, t, _ in plan if k == 'chain')


def replay(ctx, data):
  r = data['replay']
  spec = r['spec'] if r['spec'] == EMPTY else _spec_from_json(r['spec'])
  if r['driver'] == 'steps':
    steps = [(c, _dec(k), v) for c, k, v in r['steps']]
    check_steps(ctx, spec, steps, r['form'], r.get('keyform', 'path'))
  elif r['driver'] == 'set-to-current':
    check_set_to_current(ctx, spec)
  elif r['driver'] == 'multikey1':
    check_multikey_single(ctx, spec)
  elif r['driver'] == 'reads':
    check_reads(ctx, spec, 2)
  elif r['driver'] == 'iteration':
    check_iteration(ctx, spec)
  elif r['driver'] == 'apply':
    check_apply(ctx, spec)
