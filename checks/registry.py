"""Per-check metadata; tools/gen_manifest.py turns this into MANIFEST.json."""

HOOK_COMMITS = []

ENGINES = [
    {'name': 'E1-vsched', 'path': '/verif/vmc/sched.py',
     'serves_properties': ['C03', 'C04', 'C05', 'C13', 'C15', 'C20'],
     'kind_free_text': 'deterministic cooperative scheduler + stateless DFS explorer '
                       '(preemption/delay bounded) over the real implementation'},
    {'name': 'E2-fake-courier', 'path': '/verif/vmc/fake_courier',
     'serves_properties': ['C06', 'C14', 'C15', 'C16', 'C20'],
     'kind_free_text': 'in-process transport with exhaustive fault menu'},
    {'name': 'E3-enumerators', 'path': '/verif/vmc/enums.py',
     'serves_properties': ['C01', 'C02', 'C07', 'C08', 'C09', 'C10', 'C11', 'C12',
                           'C17', 'C18', 'C19'],
     'kind_free_text': 'bounded-exhaustive enumeration of inputs/programs/histories '
                       'against boring reference models; explicit-state BFS'},
]

NOTES = ('All checks: ./check <ID> --tier quick|thorough; evidence in '
         '/verif/evidence/<ID>.json; violations listed in KNOWN_FINDINGS.txt are '
         'printed as KNOWN-FINDING and do not fail the check.')

_E3 = 'bounded-exhaustive enumeration (small-scope model checking of operation sequences/inputs) against a reference model, on the real code'

CHECKS = {
    'C19': dict(
        ready=True, engine='E3-enumerators', level='exploration',
        technique=_E3,
        text=('Every sequence of <=4 (thorough: <=5) input batch sizes x target '
              'x 1-3 columns x container kinds x pad x given/inferred column '
              'count is run through the real rebatched_args and through '
              'apply/select(batch_size, fn_batch_size); output compared with '
              'concat-and-chunk on Python lists. Exhaustive within the bound; '
              'the carry-over/flush logic has no branch that needs more than '
              '3 pending input batches.'),
        note=('small-scope hypothesis: sizes <= 5, targets <= 6; rows are '
              'tagged integers; trusted: numpy, the 15-line list oracle')),
}
