"""Per-check metadata; tools/gen_manifest.py turns this into MANIFEST.json."""

HOOK_COMMITS = []

ENGINES = [
    {'name': 'E1-vsched', 'path': '/verif/vmc/sched.py',
     'serves_properties': ['C03', 'C04', 'C05', 'C06', 'C10', 'C12', 'C13', 'C14',
                           'C15', 'C16', 'C20'],
     'kind_free_text': 'deterministic cooperative scheduler (baton passing between '
                       'real threads, virtual clock) + stateless DFS explorer over '
                       'choice sequences (preemption / delay / deviation bounded, '
                       'happens-before caching) running the real implementation'},
    {'name': 'E2-fake-courier', 'path': '/verif/vmc/fake_courier/__init__.py',
     'serves_properties': ['C06', 'C14', 'C15', 'C16', 'C20'],
     'kind_free_text': 'in-process courier transport executing the real bound '
                       'handlers, with an exhaustive fault menu (deadline before / '
                       'after the handler, worker death)'},
    {'name': 'E3-enumerators', 'path': '/verif/vmc/enums.py',
     'serves_properties': ['C01', 'C02', 'C03', 'C07', 'C08', 'C09', 'C10', 'C11',
                           'C12', 'C17', 'C18', 'C19'],
     'kind_free_text': 'bounded-exhaustive enumeration of inputs / programs / '
                       'histories against boring reference models; explicit-state '
                       'BFS with replay-from-scratch'},
]

NOTES = ('All checks: ./check <ID> --tier quick|thorough; evidence in '
         '/verif/evidence/<ID>.json; violations listed in KNOWN_FINDINGS.txt are '
         'printed as KNOWN-FINDING and do not fail the check. No source hooks in '
         '/repo: all seams are module-global rebinding inside the checker process.')

_E3 = ('bounded-exhaustive enumeration (small-scope model checking of inputs / '
       'operation sequences) on the real code against a reference model')
_E1 = ('stateless model checking of the implementation: exhaustive DFS over '
       'thread schedules within a preemption/delay bound under a deterministic '
       'scheduler (happens-before caching)')
_E12 = ('exhaustive fault-placement enumeration (deviation bounded) over the real '
        'scheduler code on a fake transport with virtual time, plus bounded '
        'schedule exploration')
_GIL = ('sequential consistency at bytecode granularity (CPython GIL); scheduling '
        'points at every lock/condition/queue/future operation and at every '
        'access to a mutable field of the shared objects; trusted: the vmc shims '
        '(litmus self-tests in setup), CPython')


def _c(engine, level, technique, text, note):
  return dict(ready=True, engine=engine, level=level, technique=technique,
              text=text, note=note)


CHECKS = {
    'C01': _c('E3-enumerators', 'exploration', _E3,
              'Every shipped mergeable accumulator x configuration (83 catalogue '
              'entries): every dataset of <=3 (thorough 4/5) rows over a colliding '
              'alphabet x every two-level composition into <=3 shards (empty '
              'allowed) and batches x every merge order x both APIs must equal one '
              'accumulator fed once (rtol 1e-9); order-carrying: concatenation; '
              'reservoir sampler: size/membership/reviewed count; per-example '
              'outputs must not depend on batch mates (all batches <=3).',
              'small-scope hypothesis; explicit vocabulary for macro averaging, '
              'explicit histogram range/edges, non-negative min/max data, '
              'non-empty rankings; trusted: numpy, the plain-data comparator'),
    'C02': _c('E3-enumerators', 'exploration', _E3,
              '8 aggregate configurations x every subset of <=2 (thorough <=3) of '
              '11 slicers x every stream of <=3 (4) rows over a,b in {1,2} cut every '
              'way into <=3 batches (incl. the empty stream), run through '
              'make()(batch), iterate().agg_result / returned AggregateResult and '
              'update_state+merge_states+get_result; reported dict compared key for '
              'key and value for value with a 60-line dict-of-lists group-by; '
              'unsliced values also compared across slicer subsets.',
              'small scope: total rows <=3/4; >=1 row per batch; trusted: numpy, '
              'the group-by oracle, fixture aggregates'),
    'C03': _c('E1-vsched', 'model_checking',
              _E1 + ' + exhaustive enumeration of execution strategies',
              'Programs from a record-wise grammar (<=3 operators from apply / '
              'assign / select / filter + re-batching, 8 aggregate choices incl. a '
              'slicer) over datasets of 0-5 (7) records: every stage grouping '
              '(fused / chained), shard counts 1-4 through data_source(ds.shard) and '
              'make(shard=) + merge_states, update_state per record; num_threads '
              '1-3 under E1 (1 worker <=2 preemptions, 2 workers <=1, 3 workers free '
              'switches; thorough +1 on a subset); the interleaved in-process stage '
              'runner (totals 0-5, buffers 0-2) at preemption bound 0 and delay '
              'bound 1. Oracle: the single-threaded fused unsharded run (batch '
              'multiset, agg_result, returned AggregateResult); all helper threads '
              'finish.',
              _GIL + '; sink is not in the grammar; exact (transparent) aggregates; '
              'num_threads only in curated configurations'),
    'C04': _c('E1-vsched', 'model_checking', _E1,
              'The real IteratorQueue driven by 1-3 producer threads '
              '(enqueue_from_iterator) and 1-2 consumer threads (get, get_batch, '
              'blocking get_batch(k), iteration), capacity 0/1/2: every schedule '
              'with <=2 preemptions (2 threads), <=1 (3 threads), delay bound 1 (4 '
              'threads) [thorough: 3 / 2 / 2, 3 items] is executed and checked '
              'against a list model: conservation, no duplicates, per-producer '
              'FIFO, end-of-stream with all return values, no deadlock/livelock.',
              _GIL + '; Condition.notify wakes FIFO, no spurious wake-ups'),
    'C05': _c('E1-vsched', 'model_checking', _E1,
              'C04 harness plus one fault: a producer failing at each position, an '
              'external maybe_stop()/maybe_stop(exc) thread (also arriving before '
              'a producer starts), starved get/put with a timeout, ignore_error; '
              '2 threads <=2 preemptions, 3 threads <=1, 4-5 threads all free '
              'switches at blocking points. Oracle: every consumer ends with the '
              'injected exception (or the documented end), nobody stays blocked, '
              'no duplicate, other producers return.',
              _GIL + '; timed waits expire at quiescence only'),
    'C06': _c('E1-vsched', 'fault_enumeration', _E12,
              'as_completed / WorkerPool.run / call_and_wait over real '
              'CourierServers and sharded_pipelines_as_iterator over real '
              'PrefetchedCourierServers on the fake transport: every placement of '
              '<=1 (thorough 2) faults from {deadline before handler, deadline '
              'after handler (reply lost), worker death} over the task/generator '
              'RPCs of ~50 configurations (1-3 workers, 1-4 tasks / 1-3 shards, '
              'failing task, ignore_failures, retry thresholds, push and pull '
              'heartbeats); results = fault-free reference exactly once, aggregate '
              'merged exactly once, errors surface, workers released.',
              'fake transport semantics (DESIGN.md section 6); default schedule for '
              'fault runs; virtual time passes only at quiescence; trusted: vmc '
              'shims, fake_courier'),
    'C07': _c('E3-enumerators', 'exploration', _E3,
              'Every small label/prediction/ranking/numeric input x every '
              'ConfusionMatrixMetric / RetrievalMetric x input type x average x '
              'pos_label x vocab x k-list is evaluated through the accumulator API '
              'and the one-shot functions and compared with a from-scratch Fraction '
              'oracle (counts exact, rates rtol 1e-9); aliases, ranges and '
              'documented rejections are checked without expectations.',
              'small scope: <=4-5 binary labels, 3 classes, <=3 rows, rankings <=3 '
              'over 4 ids; trusted: the 625-line oracle (cross-checked by 15 '
              'mutants)'),
    'C08': _c('E3-enumerators', 'exploration', _E3,
              'All operator chains of length <=2 over 51 operator instances and <=3 '
              'over 26 (thorough <=3 / <=4) from select/apply/assign/filter/batch/'
              'sink with every key shape, each accepted chain on all 40 streams of '
              '<=3 records through make().iterate() and make()(record), against a '
              'plain-Python interpreter; build-time rejection compared; caller '
              'inputs snapshot-compared; sinks seen-once and closed.',
              'callables are pure string builders; re-batching sizes are C19\'s; '
              'on a reference error the implementation must raise and its emitted '
              'prefix must match'),
    'C09': _c('E3-enumerators', 'exploration', _E3,
              'Every length/split x shard count x index x offset, recursively '
              'nested, through SequenceDataSource / ShardedIterable; every split x '
              'index x slice x read-ahead through MergedSequences; one unreadable '
              'element at each position through _RangeIterator; compared with '
              'Python lists; recovery through from_state must yield the same shard.',
              'small scope n<=8 (16), tagged integer rows, ShardedIterable single '
              'level, no step slices'),
    'C10': _c('E3-enumerators', 'fault_enumeration', _E3 + ' (all checkpoint cut vectors)',
              'Every cut vector of <=3 (4) checkpoint generations x source '
              'configuration x state transport (object/pickle) x restore route x '
              'abandoned/continued iterator, on data-source iterators and eight '
              'pipeline shapes; the uninterrupted run is the oracle for delivered '
              'rows, agg_result and the StopIteration aggregate.',
              'n<=5/4 (7/6) for num_threads=0; 4 records for the threaded part'),
    'C11': _c('E3-enumerators', 'model_checking', _E3 + ' + explicit-state BFS',
              'All bracketings x permutations of <=3 (4) states from datasets of <=2 '
              'rows agree; fresh state neutral on both sides; merge leaves its '
              'operand intact and un-aliased; BFS depth 4/5 over add/merge/result '
              'on two live objects, states rebuilt by replay and deduplicated by '
              'structural fingerprint: every operation changes only its receiver, '
              'result() is repeatable and non-disturbing.',
              'a merge that raises for every grouping is C01\'s; seeded sampler '
              'assumed deterministic'),
    'C12': _c('E3-enumerators', 'fault_enumeration', _E3 + ' (all failure sets)',
              'Every failure set (|F|<=2; thorough all) over n<=5 (6) elements x '
              'failure in the data source or in one operator of apply + <=2 (3) of '
              '{apply, assign, filter, sink} x Value/Type/KeyError x ignore_error '
              'on/off x re-batching; skipping on => output, pairing and sink writes '
              'equal a list interpreter that drops exactly the failing calls; off '
              '=> raises with the injected object in the cause chain, exact '
              'prefix, sinks closed.',
              'sink closure observed after the exception is released; threaded '
              'part: apply only'),
    'C13': _c('E1-vsched', 'model_checking', _E1,
              'piter_multiplex / piter_fn / piter / pmap / MultiplexIterator on a '
              'virtual thread pool that honours max_workers (late task start), '
              '1-3 sources, buffer 0/1, early stop, failing source at each '
              'position: every schedule with <=2 preemptions (1 helper), <=1 (2 '
              'helpers), free switches only (3-4 helpers) [thorough +1]; multiset '
              'of values = sequential evaluation, generator returns collected, all '
              'helper threads finish, pool shutdown returns.',
              _GIL + '; pool model: FIFO task start when a worker frees'),
    'C14': _c('E1-vsched', 'exploration', _E3 + ' through the fake transport + bounded schedule exploration',
              '166 (thorough 256) lazy expressions (nested calls, attr/item/call '
              'chains, kwargs, cached calls, five kinds of raising expressions) '
              'evaluated locally and through CourierClient.get_result against a '
              'real CourierServer; RemoteObject chains; RemoteIterator / '
              'RemoteIteratorQueue over sources of length 0-3; shutdown at each '
              'point of a 3-call history in 3 ways; two concurrent clients under '
              'delay bound 1 (2).',
              'client and server share one process and one lazy-object cache; '
              'returned exceptions are pickled objects as with real courier'),
    'C15': _c('E1-vsched', 'model_checking', _E1,
              'A real PrefetchedCourierServer (prefetch thread, handlers, generator '
              'lock, IteratorQueue) driven through init / next_batch / '
              'stop_prefetch / shutdown: generator length 0-3, prefetch 1-2, batch '
              '1-3, failure at each position, re-init / stop / shutdown after 0-2 '
              'elements, one overlapping next+re-init; direct handler calls under '
              'preemption bound 2 / 1 (thorough 3 / 2), through CourierClient under '
              'delay bound 1 (2). Oracle: the generator as a list + exactly one end '
              'marker, no element of the old generator after re-init, no request '
              'left blocked.',
              _GIL + '; one handler thread per request; no transport faults here'),
    'C16': _c('E1-vsched', 'exploration', _E3 + ' of configurations on the fake transport + bounded schedule exploration',
              '~390 configurations of sharded_pipelines_as_iterator (workers 1-2 '
              '(3), shards 1-4, rows 0-7, iterate_batch_size 1/2/4, fused/unfused) '
              'and run_pipeline_interleaved with a pool stage fed by a '
              'RemoteIteratorQueue (workers 1-2, buffer 0/1/2, worker cap) under the '
              'default schedule, the smallest of each under delay bound 1 (2); '
              'outputs and the single final aggregate equal the in-process run; '
              'merge_states strict count for all (m, n).',
              'fake transport without faults; one fixture pipeline family '
              '(apply + exact sum/count aggregate)'),
    'C17': _c('E3-enumerators', 'model_checking', _E3 + ' + explicit-state BFS of cache histories',
              'Every typed expression tree up to depth 2 / 3 calls (thorough depth '
              '3, plus 4-call trees over one leaf) with every cache/lazy flag per '
              'call is materialised directly, after pickle and after gzip pickle, '
              'around clear_cache/clear_object, compared step by step with an eager '
              'interpreter (value/exception, call log, cache_info, identity); all '
              'operation histories to depth 6 (7) over LruCache (maxsize 1-3), the '
              'lazy cache bounded to 2-3, the handle registry bounded to 1-2, and '
              'fill/touch/overflow at the shipped bound 128, each replayed from '
              'scratch and compared with an OrderedDict LRU in every state.',
              '7 callables, 3 leaf kinds; pickle round trips stay in one process'),
    'C18': _c('E3-enumerators', 'exploration', _E3,
              'Every dict/list/tuple tree of depth <=2 with 0-2 children and '
              'int/str/ndarray leaves (+ depth-3 spines; thorough all 335k depth-3 '
              'shapes) x every existing and fresh key path, SELF, SKIP, literals x '
              'single/multi-key/chained copy_and_set, copy_and_update, reads in '
              'every spelling, keys/values/items/len, apply: get-after-set, frame '
              'condition, original unchanged at every depth, set-to-current is the '
              'identity, every leaf listed once.',
              'root is a dict/list/tuple or the empty view; error kinds are not '
              'compared'),
    'C19': _c('E3-enumerators', 'exploration', _E3,
              'Every sequence of <=4 (thorough <=5) input batch sizes x target x 1-3 '
              'columns x container kinds x pad x given/inferred column count '
              'through the real rebatched_args and through apply/select(batch_size, '
              'fn_batch_size); output compared with concat-and-chunk on Python '
              'lists.',
              'sizes <=5, targets <=6; rows are tagged integers'),
    'C20': _c('E1-vsched', 'model_checking', _E1 + ' + explicit-state BFS',
              '(a) BFS of the real WorkerRegistry to depth 4 (6) over 16 operations '
              'against a dict model; every history of <=4 (5) liveness events '
              '(poll, time passing, pushed heartbeat / death notice, completed '
              'call, server death, client shutdown) on a real client/server pair '
              'with virtual time; (b) acquire/release programs of 2-3 WorkerPools '
              'sharing Worker objects: every schedule with <=2 preemptions (2 pools '
              'x 1 worker), <=1 (2 workers / 3 pools) [thorough +1], ownership '
              'invariants after every operation.',
              _GIL + '; workers are kept alive through the registry in (b)'),
}


# ---- additions made after the seeded-defect waves (DESIGN.md section 8.5) ----------
_ADD = {
    'C01': ' Plus 17 large-offset catalogue entries (rows 1e8+{0,1,3}, 1.7e9+..., '
           'mixed 2-D with NaN) with tolerances measured on the unchanged tree '
           '(mean rtol 1e-13, var rtol 1e-5).',
    'C05': ' Also configurations without any consumer (the other producers must '
           'still stop and return).',
    'C06': ' The fault menu also contains the death of any *other* worker at any '
           'RPC boundary, a slow consumer, one pause of the orchestrating loop at '
           'any executed line (slow orchestrator), and tasks that cannot be sent '
           '(client-side submission failure).',
    'C08': ' The operator menu has 110 instances incl. multi-entry dict/tuple '
           'assign keys into existing and fresh nested containers; caller inputs '
           'are also checked for aliasing into outputs.',
    'C09': ' Second-generation recovery: the state recorded by a rebuilt shard / a '
           'restored iterator (before and after one step) must again rebuild the '
           'same elements.',
    'C10': ' Plus num_threads in {1, 2} under the deterministic scheduler (42 '
           'pipeline configurations, cut 0-4, free switches at blocking points; '
           'thorough <= 1 preemption): the known finding "prefetched elements '
           'are skipped after restore" comes from there.',
    'C12': ' num_threads 1-2 under the deterministic scheduler: a failing apply at '
           'every failure set |F|<=2 over 4 records x 3 source kinds x skipping '
           'on/off (1 thread <=1 preemption, 2 threads free switches; thorough +1).'
           ' Data sources: sliceable and index-only sequences, from_sequences '
           'members of every length, shards incl. one-element and empty ones.',
    'C14': ' Shutdown is also requested in the middle of a failing / succeeding '
           'call at each position of the history.',
    'C16': ' Plus every placement of one orchestrator pause and of one late '
           '(delivered, but slow) reply on 10 configurations.',
    'C17': ' One callable returns None; falsy values (None, 0, "") are stored in '
           'the LruCache BFS and the handle registry.',
    'C19': ' Plus numpy columns whose element type changes between input batches '
           '(int/float, bool/int, string widths).',
    'C20': ' Plus (a3) 2-3 threads of concurrent registry operations (<=2 '
           'preemptions) that must be linearizable w.r.t. the dict model and (c) '
           'as_completed / run / call_and_wait x task ok / raising / unsendable x '
           '<=1 fault or pause: no worker stays acquired.',
}
# ---- additions of waves 4-5 ---------------------------------------------------------
_ADD2 = {
    'C01': ' Unsorted / non-canonical list-valued configurations (k_list etc.).',
    'C02': ' Aggregation state carried across steps (update_state per batch, '
           'iterate(state=...), from_state) with every slicer kind.',
    'C03': ' Source-level strategies over sources of 63-257 records (shards longer '
           'than the 64-element read-ahead window, shards of shards, merged '
           'sequences, ShardedIterable), threaded configurations with more records '
           'than the output queue holds.',
    'C05': ' A failure followed by a plain stop request (the failure must stay '
           'visible), consumers that look only after the failure / stop.',
    'C06': ' Fault-free runs with every subset of <=2 late replies; worker '
           'shuffles as environment choices; a killed worker rejoining at any '
           'later RPC boundary (kill + restart); registry event sequences with a '
           'death announcement followed by an alive announcement.',
    'C08': ' Falsy but valid keys (Index(0), 0, (), Key()) in every key position '
           'of every operator; aggregate(fn, input_keys, output_keys) through '
           'three drivers.',
    'C09': ' Every API method on every reachable receiver (shard, nested shard, '
           'sibling, shard iterator, restored object); MultiplexIterator.from_state.',
    'C10': ' The same in-memory state restored twice; sources of 63-260 rows with '
           'cuts at the read-ahead window edges; pipelines with sliced aggregates.',
    'C11': ' Null states (empty batch added; rows that advance a counter but not '
           'the main table) as operands in every law and in the BFS.',
    'C12': ' Sources of 63-200 elements with failing indices at the 64/16/4/1 '
           'read-window edges.',
    'C14': ' Exception classes a transport or client might treat specially '
           '(TimeoutError and a subclass, StopIteration, RuntimeError, ...).'
           ' Stop/start cycles of the server object (1-2 restarts); shutdown of a '
           'prefetching server while a request is pending on a slow endless '
           'generator.',
    'C15': ' Shutdown (own request / signal) while a request is pending on a slow '
           'endless generator: answered or dropped loudly, prefetch thread ends.',
    'C16': ' Worker shuffles of the drivers as environment choices (<=2 '
           'deviations, alone and with one late reply); aggregates in two '
           'separately named stages on the sharded path.',
    'C17': ' Cache laws over serialised copies of expressions whose arguments are '
           'unhashable and not value-equal across copies.',
    'C18': ' Aliased subtrees (one container reachable through several paths) '
           'through every driver.',
    'C19': ' Columns whose rows are not scalars ((n,d), (n,d,e), nested lists); '
           'zero-row batches at every position of the stream.',
}
for _add in (_ADD, _ADD2):
  for _k, _v in _add.items():
    CHECKS[_k]['text'] += _v
