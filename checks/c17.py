"""C17 - lazy expressions evaluate to what the eager expression would.

Part 1 (programs): every expression tree up to a depth / call-node bound over
traced fixture callables (pure, raising, stateful, stateful returning None, a
class with attributes and __call__, a traced instance), traced and plain
(hashable and unhashable) constants, positional / keyword lazy arguments, attribute / item / call chains
and every cache_result_/lazy_result_ flag per call node.  Each tree is run
through one fixed history (make, make, [clear_cache, make, make,]
make(pickled), make(gzip-pickled), make, [clear_object, deref]) on the real lazy_fns
and on an eager mirror interpreter that does not import lazy_fns; compared
after every step: value (or exception), the ordered log of fixture calls
(evaluation count and order), cache_info(), object_info(), object identity.
Non-value-equal constants (fixtures_lazy.opaque: a list of plain instances
without __eq__, a numpy array, a dict of one, plain and traced - unhashable
and not equal to their own serialised copy, so that only the persistent id
identifies a copy of a cached call): the same trees over these leaves with
<= 2 call nodes; they and all trees with <= 2 call nodes run the long history
(..., the same pickle bytes again, the pickle of the unpickled copy, make).

Part 2 (cache histories, explicit-state BFS): (a) func_utils.LruCache with
maxsize 1..3 under getitem/get/set/insert/clear, stored values including the
falsy None, 0, ''; (b) the lazy layer with the LruCache instance behind
LazyFn.result_ bounded to 2..3, over make(e_i) for 4
cached expressions, clear_cache and an uncached twin, directly and through
pickled bytes, six expression families (one of cached calls whose value is
None) plus three over non-value-equal constants, also "recopied" (each make
sends the pickle of a copy of the copy sent before) and "retraced" (by-value
families: each make traces the call anew and sends its pickle); (c) the object registry behind handles bounded to 1..2 under
new-handle / deref / use / clear, handles made by lazy_result_ (values: fresh
lists; None) and by LazyObject.new(None) / LazyObject.new(0);
(d) one structured family at the shipped bound 128.  A state is the operation
history; it is replayed on a fresh cache; canonical observable state
deduplicates; every state is compared with an OrderedDict LRU reference.
"""
import itertools as itt

from vmc import enums
from vmc import fixtures_lazy as fx
from vmc.oracles import lazy_ref
from vmc.runner import Stats

PROPERTY = 'C17'
LEVEL = 'model_checking'

FLAGS = ('', 'c', 'l')
LEAVES = (('c', 1), ('lc', 1), ('c', [3]))
# leaf alphabets by name; the 'opaque*' ones hold constants that are unhashable
# AND not value-equal across serialised copies (fixtures_lazy.opaque): a list
# of plain instances without __eq__, a numpy array, plain and traced, a dict
LEAF_SETS = {
    'base': LEAVES,
    'one': LEAVES[:1],
    'opaque': (('c', 1), ('k', 'toks'), ('k', 'arr'), ('lk', 'toks')),
    'opaque6': (('c', 1), ('k', 'toks'), ('k', 'arr'), ('lk', 'toks'),
                ('lk', 'arr'), ('k', 'dtok')),
    'opaque2': (('c', 1), ('k', 'toks')),
}
PICKLED_STEPS = ('make_p', 'make_z', 'make_p2', 'make_pp')


# ---------------------------------------------------------------------------
# building the real lazy expression from a tuple
# ---------------------------------------------------------------------------

def _lf():
  from ml_metrics._src.chainables import lazy_fns
  return lazy_fns


def build(ast, memo, env=None):
  """The lazy_fns expression of `ast`; equal sub-tuples -> the same object."""
  key = repr(lazy_ref._tup(ast))  # pylint: disable=protected-access
  if key in memo:
    return memo[key]
  lf = _lf()
  t = ast[0]
  if t == 'c':
    return ast[1]
  if t == 'k':
    return fx.opaque(ast[1])
  if t == 'lc':
    r = lf.trace(ast[1])
  elif t == 'lk':
    r = lf.trace(fx.opaque(ast[1]))
  elif t == 'f':
    r = lf.trace(getattr(fx, ast[1]))
  elif t == 'v':
    return env[ast[1]]
  elif t == 'attr':
    r = getattr(build(ast[1], memo, env), ast[2])
  elif t == 'item':
    r = build(ast[1], memo, env)[ast[2]]
  else:
    fn = build(ast[1], memo, env)
    args = [build(a, memo, env) for a in ast[2]]
    kwargs = {k: build(v, memo, env) for k, v in ast[3]}
    flag = ast[4]
    if flag:
      kwargs['cache_result_' if flag == 'c' else 'lazy_result_'] = True
    r = fn(*args, **kwargs)
  memo[key] = r
  return r


def _is_handle(v):
  return isinstance(v, _lf().LazyObject)


def _norm_impl(v):
  return lazy_ref.normalise(v, _is_handle, _lf().maybe_make)


def _norm_ref(mirror, v):
  return lazy_ref.normalise(
      v, lambda x: isinstance(x, lazy_ref.Handle), mirror.make_value)


def _err(e):
  lf = _lf()
  if isinstance(e, (lf.LazyObjectMissingError, lazy_ref.MissingObject)):
    return ('err', 'MISSING-OBJECT')
  if isinstance(e, ValueError):
    return ('err', 'ValueError', str(e))
  return ('err', type(e).__name__)


_IDENT_TYPES = (list, dict, fx.Acc, fx.np.ndarray)


def _impl_infos():
  lf = _lf()
  i, o = lf.cache_info(), lf.object_info()
  return (i.hits, i.misses, i.currsize), (o.hits, o.misses, o.currsize)


def _caches():
  lf = _lf()
  return (lf.LazyFn.result_.cache_info.__self__,
          lf.LazyObject.result_.cache_info.__self__)


class _Bounds:
  """Temporarily lowers the two cache bounds (the bound is instance data)."""

  def __init__(self, fn_max=None, obj_max=None):
    self.new = (fn_max, obj_max)

  def __enter__(self):
    self.caches = _caches()
    self.old = tuple(c.maxsize for c in self.caches)
    for c, m in zip(self.caches, self.new):
      if m is not None:
        c.maxsize = m
    return self

  def __exit__(self, *a):
    for c, m in zip(self.caches, self.old):
      c.maxsize = m
    lf = _lf()
    lf.clear_cache()
    lf.clear_object()


# ---------------------------------------------------------------------------
# Part 1: expression trees
# ---------------------------------------------------------------------------

def _call(fn, args, kwargs, flag):
  return ('call', fn, tuple(args), tuple(kwargs), flag)


class TreeGen:
  """All typed expression trees with depth <= d and exactly k call nodes."""

  def __init__(self, leaves=LEAVES):
    self.memo = {}
    self.leaves = leaves

  def lst(self, kind, d, k):
    key = (kind, d, k)
    if key not in self.memo:
      self.memo[key] = list(getattr(self, kind)(d, k))
    return self.memo[key]

  def num(self, d, k):
    """Number-like expressions."""
    if k == 0:
      yield from self.leaves
      return
    if d < 1:
      return
    for flag in FLAGS:
      for x in self.lst('num', d - 1, k - 1):
        for name in ('tick', 'raiser', 'SCALE3', 'nothing'):
          yield _call(('f', name), [x], [], flag)
        yield _call(('f', 'mul'), [x], [('y', ('c', 2))], flag)
      for kx in range(k):
        for x in self.lst('num', d - 1, kx):
          for y in self.lst('num', d - 1, k - 1 - kx):
            yield _call(('f', 'add'), [x, y], [], flag)
      # call chains on a constructed object: Acc(a)(x), Acc(a).scaled(x)
      for ka in range(1, k):
        for a in self.lst('acc', d - 1, ka):
          for x in self.lst('num', d - 1, k - 1 - ka):
            yield _call(a, [x], [], flag)
            yield _call(('attr', a, 'scaled'), [x], [], flag)
    for a in self.lst('acc', d, k):
      yield ('attr', a, 'a')
    for m in self.lst('dct', d, k):
      yield ('item', m, 'k')
      yield ('item', m, 'p')

  def acc(self, d, k):
    if d < 1 or k < 1:
      return
    for flag in FLAGS:
      for x in self.lst('num', d - 1, k - 1):
        yield _call(('f', 'Acc'), [x], [], flag)

  def dct(self, d, k):
    if d < 1 or k < 1:
      return
    for flag in FLAGS:
      for kx in range(k):
        for x in self.lst('num', d - 1, kx):
          for y in self.lst('num', d - 1, k - 1 - kx):
            yield _call(('f', 'mkdict'), [x], [('k', y)], flag)

  def trees(self, d, kmin, kmax):
    for k in range(kmin, kmax + 1):
      for kind in ('num', 'acc', 'dct'):
        yield from getattr(self, kind)(d, k)


def all_trees(spec):
  """spec: [(depth, min calls, max calls, leaf alphabet, long history), ...].

  Yields (tree, long history?).  Of an 'opaque*' alphabet only the trees that
  hold at least one such constant (the others are in the base alphabets).
  """
  for d, kmin, kmax, leaves, ext in spec:
    for ast in TreeGen(LEAF_SETS[leaves]).trees(d, kmin, kmax):
      if not leaves.startswith('opaque') or _has_opaque(ast):
        yield ast, ext


def _has_opaque(ast):
  t = ast[0]
  if t in ('k', 'lk'):
    return True
  if t == 'call':
    return (_has_opaque(ast[1]) or any(_has_opaque(a) for a in ast[2])
            or any(_has_opaque(v) for _, v in ast[3]))
  if t in ('attr', 'item'):
    return _has_opaque(ast[1])
  return False


def _has_flag(ast, flag):
  if ast[0] == 'call':
    return (ast[4] == flag or _has_flag(ast[1], flag)
            or any(_has_flag(a, flag) for a in ast[2])
            or any(_has_flag(v, flag) for _, v in ast[3]))
  if ast[0] in ('attr', 'item'):
    return _has_flag(ast[1], flag)
  return False


def _mentions(ast, name, under_cached=False):
  """True if a traced fixture `name` occurs inside a cached call."""
  t = ast[0]
  if t == 'f':
    return under_cached and ast[1] == name
  if t in ('attr', 'item'):
    return _mentions(ast[1], name, under_cached)
  if t == 'call':
    u = under_cached or ast[4] == 'c'
    return (_mentions(ast[1], name, u) or any(_mentions(a, name, u) for a in ast[2])
            or any(_mentions(v, name, u) for _, v in ast[3]))
  return False


def tree_steps(ast, ext=False):
  """make_p: fresh pickle; make_z: gzip pickle; (long history) make_p2: the
  very bytes of make_p sent again; make_pp: a pickled copy of the unpickled
  copy (second generation)."""
  steps = ['make', 'make']
  if _has_flag(ast, 'c'):
    steps += ['clear', 'make', 'make']
  steps += ['make_p', 'make_z']
  if ext:
    steps += ['make_p2', 'make_pp']
  steps += ['make']
  if ast[0] == 'call' and ast[4] == 'l':
    steps += ['clear_obj', 'deref_last']
  return steps


def _cached_root(ast):
  return ast[0] == 'call' and ast[4] == 'c'


def _ref_history(ast, steps):
  ident = _IDENT_TYPES if _cached_root(ast) else ()
  fx.reset()
  m = lazy_ref.Mirror()
  out, last = [], None
  for kind in steps:
    n0 = len(fx.CALLS)
    v, o = None, None
    try:
      if kind == 'make' or kind in PICKLED_STEPS:
        v = m.make(ast)
      elif kind == 'clear':
        m.clear_cache()
      elif kind == 'clear_obj':
        m.clear_object()
      elif kind == 'deref_last':
        v = m.make_value(last)
      o = ('ok', _norm_ref(m, v))
    except Exception as e:  # pylint: disable=broad-except
      o = _err(e)
    same = (v is last) if isinstance(v, ident) else None
    out.append({'out': o, 'calls': list(fx.CALLS[n0:]), 'info': m.fns.info(),
                'obj': m.objs.info(), 'same': same})
    if kind not in ('clear', 'clear_obj'):
      last = v
  return out


def _impl_history(ast, steps):
  ident = _IDENT_TYPES if _cached_root(ast) else ()
  lf = _lf()
  fx.reset()
  lf.clear_cache()
  lf.clear_object()
  expr = build(ast, {})
  out, last, payload = [], None, None
  for kind in steps:
    n0 = len(fx.CALLS)
    v, o = None, None
    try:
      if kind == 'make':
        v = lf.maybe_make(expr)
      elif kind == 'make_p':
        payload = lf.pickler.dumps(expr)
        v = lf.maybe_make(payload)
      elif kind == 'make_p2':
        v = lf.maybe_make(payload)
      elif kind == 'make_pp':
        payload = lf.pickler.dumps(lf.pickler.loads(payload))
        v = lf.maybe_make(payload)
      elif kind == 'make_z':
        v = lf.maybe_make(lf.pickler.loadz(lf.pickler.dumpz(expr)))
      elif kind == 'clear':
        lf.clear_cache()
      elif kind == 'clear_obj':
        lf.clear_object()
      elif kind == 'deref_last':
        v = lf.maybe_make(last)
      o = ('ok', _norm_impl(v))
    except Exception as e:  # pylint: disable=broad-except
      o = _err(e)
      if isinstance(e, AttributeError):
        o = o + (str(e),)
    same = (v is last) if isinstance(v, ident) else None
    info, obj = _impl_infos()
    out.append({'out': o, 'calls': list(fx.CALLS[n0:]), 'info': info,
                'obj': obj, 'same': same})
    if kind not in ('clear', 'clear_obj'):
      last = v
  return out


def _diff(exp, got):
  """Which aspect differs first (None if the observations agree)."""
  eo, go = exp['out'], got['out']
  if eo[:2] != go[:2] or (eo[0] == 'ok' and eo != go) or (
      eo[:2] == ('err', 'ValueError') and eo != go):
    if go[0] == 'err':
      return 'raises-' + go[1]
    if eo[0] == 'err':
      return 'no-exception'
    return 'value'
  if exp['calls'] != got['calls']:
    if len(got['calls']) > len(exp['calls']):
      return 're-evaluated'
    if len(got['calls']) < len(exp['calls']):
      return 'evaluation-missing'
    return 'evaluation-order-or-args'
  if exp['info'] != got['info']:
    return 'cache_info'
  if exp['same'] != got['same']:
    return 'identity'
  if exp['obj'] != got['obj']:
    return 'object_info'
  return None


def _tree_sig(ast, kind, what, got):
  if (what == 'raises-AttributeError'
      and "has no attribute 'id'" in str(got['out'][-1])):
    return 'C17:LazyObject.__eq__:AttributeError:traced-vs-plain-value'
  if (kind in PICKLED_STEPS and _mentions(ast, 'SCALE3')
      and got['info'][1] > 0):
    return 'C17:make-after-pickle:cache-miss:traced-instance-in-cached-call'
  if _has_opaque(ast):
    return f'C17:tree:{kind}:{what}:non-value-equal-constant'
  return f'C17:tree:{kind}:{what}'


def check_tree(st, ast, ext=False):
  steps = tree_steps(ast, ext)
  st.case()
  exp = _ref_history(ast, steps)
  got = _impl_history(ast, steps)
  st.traces += 1
  st.outcome(repr([(g['out'], len(g['calls']), g['info']) for g in got]))
  for i, (e, g) in enumerate(zip(exp, got)):
    what = _diff(e, g)
    if what:
      sig = _tree_sig(ast, steps[i], what, g)
      st.count('cases[' + sig + ']')
      st.violation(sig,
                   {'tree': ast, 'steps': steps[:i + 1], 'step': i,
                    'expected': e, 'observed': g},
                   replay={'part': 'tree', 'ast': ast, 'ext': ext})
      return False
  return True


def _tree_unit(args):
  spec, r, n = args
  st = Stats()
  for ast, ext in itt.islice(all_trees(spec), r, None, n):
    ok = check_tree(st, ast, ext)
    if ok and st.evaluations % 5000 == 1:
      st.sample({'part': 'tree', 'tree': ast,
                 'history': tree_steps(ast, ext)})
    if _has_opaque(ast):
      st.count('trees_with_non_value_equal_constant')
      if _has_flag(ast, 'c'):
        st.count('trees_with_cached_call_over_non_value_equal_constant')
    if _has_flag(ast, 'c'):
      st.count('trees_with_cached_call')
    if _has_flag(ast, 'l'):
      st.count('trees_with_lazy_result')
  return st


def _flags_unit(_):
  """cache_result_ and lazy_result_ together are rejected when tracing."""
  lf = _lf()
  st = Stats()
  for name in ('add', 'Acc', 'SCALE3'):
    st.case(('both-flags', name))
    try:
      lf.trace(getattr(fx, name))(1, cache_result_=True, lazy_result_=True)
      st.violation('C17:trace:both-flags-accepted', {'callable': name},
                   replay={'part': 'flags'})
    except ValueError:
      st.outcome('ValueError')
  return st


# ---------------------------------------------------------------------------
# Part 2a: func_utils.LruCache, explicit-state BFS
# ---------------------------------------------------------------------------

LRU_KEYS = ('a', 'b', 'c', 'd')
# stored values: 'k0' (set) / 'k1' (insert) for every key, and - a value is a
# value - the falsy ones None, 0, '' under the first key
LRU_FALSY = (None, 0, '')
LRU_OPS = ([('getitem', k) for k in LRU_KEYS] + [('get', k) for k in LRU_KEYS]
           + [('set', k) for k in LRU_KEYS] + [('insert', k) for k in LRU_KEYS]
           + [('set', k, i) for k in LRU_KEYS[:1]
              for i in range(len(LRU_FALSY))]
           + [('clear',)])
_NO = '<absent>'


def _lru_apply(cache, ref, op):
  """Applies op to both; returns (observed, expected) results."""
  if op[0] in ('getitem', 'get'):
    ok, v = ref.get(op[1])
    exp = v if ok else _NO
    if op[0] == 'getitem':
      try:
        got = cache[op[1]]
      except KeyError:
        got = _NO
    else:
      got = cache.get(op[1], _NO)
  elif op[0] == 'set':
    value = LRU_FALSY[op[2]] if len(op) > 2 else op[1] + '0'
    ref.put(op[1], value)
    cache[op[1]] = value
    exp = got = None
  elif op[0] == 'insert':
    ref.put(op[1], op[1] + '1')
    cache.cache_insert(op[1], op[1] + '1')
    exp = got = None
  else:
    ref.clear()
    cache.cache_clear()
    exp = got = None
  return got, exp


def _lru_observe(cache):
  info = cache.cache_info()
  keys = list(cache)
  return {'keys': keys, 'values': [cache.data[k] for k in keys],
          'len': len(cache), 'info': (info.hits, info.misses, info.currsize),
          'maxsize': info.maxsize,
          'contains': [k in cache for k in LRU_KEYS + ('z',)]}


def _lru_expected(ref):
  keys = list(ref.d)
  return {'keys': keys, 'values': [ref.d[k] for k in keys], 'len': len(keys),
          'info': ref.info(), 'maxsize': ref.maxsize,
          'contains': [k in ref.d for k in LRU_KEYS + ('z',)]}


def _lru_run(st, maxsize, history):
  """Replays history on a fresh cache; returns canonical state or None."""
  from ml_metrics._src.utils import func_utils
  cache, ref = func_utils.LruCache(maxsize=maxsize), lazy_ref.RefLru(maxsize)
  st.traces += 1
  for i, op in enumerate(history):
    got, exp = _lru_apply(cache, ref, op)
    obs, want = _lru_observe(cache), _lru_expected(ref)
    if got != exp or obs != want:
      what = 'result' if got != exp else next(
          k for k in obs if obs[k] != want[k])
      st.violation(f'C17:LruCache:{op[0]}:{what}',
                   {'maxsize': maxsize, 'history': history[:i + 1],
                    'result': got, 'expected_result': exp, 'observed': obs,
                    'expected': want},
                   replay={'part': 'lru', 'maxsize': maxsize,
                           'history': history[:i + 1]})
      return None
  obs = _lru_observe(cache)
  return (tuple(obs['keys']), tuple(repr(v) for v in obs['values']),
          obs['info'])


def _bfs(st, tag, ops, run, depth, enabled=None):
  """Explicit-state BFS; run(history) -> canonical state (None = violation)."""
  root = run(())
  seen = {root}
  st.state((tag, root))
  frontier = [()]
  for _ in range(depth):
    nxt = []
    for h in frontier:
      for op in ops:
        if enabled is not None and not enabled(h, op):
          continue
        h2 = h + (op,)
        st.transitions += 1
        st.case((tag, h2))
        c = run(h2)
        if c is None:
          continue
        st.outcome((tag, c))
        if c not in seen:
          seen.add(c)
          st.state((tag, c))
          nxt.append(h2)
    frontier = nxt
  return len(seen)


def _lru_unit(args):
  maxsize, depth = args
  st = Stats()
  n = _bfs(st, ('lru', maxsize), LRU_OPS,
           lambda h: _lru_run(st, maxsize, h), depth)
  st.count('lru_states', n)
  st.sample({'part': 'LruCache BFS', 'maxsize': maxsize, 'depth': depth,
             'operations': [list(o) for o in LRU_OPS], 'states': n})
  return st


# ---------------------------------------------------------------------------
# Part 2b: the lazy layer's cache, explicit-state BFS
# ---------------------------------------------------------------------------

def _s(x, flag, fn='stamp'):
  return _call(('f', fn), [x], [], flag)


def families():
  c = lambda v: ('c', v)
  e0, e1 = _s(c(0), 'c'), _s(c(1), 'c')
  a0 = _call(('f', 'Acc'), [c(0)], [], 'c')
  n0 = _s(c(0), 'c', 'nothing')
  k = lambda name: ('k', name)
  o0, o1 = _s(k('tok:0'), 'c'), _s(('lk', 'tok:1'), 'c')
  return {
      # unhashable arguments that are not value-equal across serialised
      # copies (only the persistent id tells that a copy is the same call):
      # a list of plain instances, a numpy array, a traced such list, a dict
      'opaque': ([o0, _s(k('arr:1'), 'c'), _s(('lk', 'tok:2'), 'c'),
                  _s(k('dtok'), 'c')], _s(k('tok:0'), '')),
      # the same below / next to by-value keys: cached calls over id-keyed
      # cached calls (positional, keyword), a numpy array next to one
      'opaque_nested': ([o0, o1,
                         _call(('f', 'mkdict'), [o0], [('k', o1)], 'c'),
                         _call(('f', 'mkdict'), [k('arr:0')], [('k', o0)],
                               'c')],
                        _call(('f', 'mkdict'), [o0], [('k', o1)], '')),
      # by-value keys over traced non-value-equal constants (the constant is
      # identified by its persistent id, the call by value)
      'opaque_traced': ([_s(('lk', 'tok:0'), 'c'), _s(('lk', 'arr:1'), 'c'),
                         _call(('f', 'mkdict'), [('lk', 'tok:0')],
                               [('k', ('lk', 'arr:1'))], 'c'),
                         _s(_s(('lk', 'tok:0'), 'c'), 'c')],
                        _s(('lk', 'tok:0'), '')),
      # by-value keys
      'flat': ([_s(c(i), 'c') for i in range(4)], _s(c(0), '')),
      # unhashable argument: keyed by the identity of the call object
      'by_id': ([_s(c([i]), 'c') for i in range(4)], _s(c([0]), '')),
      # cached calls inside cached calls, positional and keyword
      'nested': ([e0, e1,
                  _call(('f', 'mkdict'), [e0], [('k', e1)], 'c'),
                  _call(('f', 'mkdict'), [e0], [('k', c(2))], 'c')],
                 _call(('f', 'mkdict'), [e0], [('k', e1)], '')),
      # cached constructor, cached call / method call on it
      'chain': ([a0, _call(a0, [c(1)], [], 'c'),
                 _call(('attr', a0, 'scaled'), [c(2)], [], 'c'),
                 _call(('f', 'Acc'), [_s(c(5), 'c')], [], 'c')],
                _call(a0, [c(1)], [], '')),
      # the same call with a plain and with a traced constant argument
      'traced_const': ([_s(c(1), 'c'), _s(('lc', 1), 'c'), _s(c(2), 'c'),
                        _s(('lc', 2), 'c')], _s(('lc', 1), '')),
      # cached calls whose value is None (stateful initialisers), alone, as
      # cached arguments of cached calls, next to a non-None entry
      'none_valued': ([n0, _s(c(1), 'c', 'nothing'),
                       _call(('f', 'mkdict'), [n0], [('k', e1)], 'c'),
                       _s(n0, 'c')],
                      _s(c(0), '', 'nothing')),
  }


def _labels(asts):
  """cache_key -> label for every cached call occurring in the family."""
  out = {}

  def walk(a, path):
    if a[0] == 'call':
      if a[4] == 'c':
        out.setdefault(lazy_ref.cache_key(a), path)
      walk(a[1], path + '.fn')
      for i, x in enumerate(a[2]):
        walk(x, f'{path}.{i}')
      for k, v in a[3]:
        walk(v, f'{path}.{k}')
    elif a[0] in ('attr', 'item'):
      walk(a[1], path + '.of')
  for i, a in enumerate(asts):
    walk(a, f'e{i}')
  return out


class LazySystem:
  """One family bound to the real lazy layer (built once per work unit)."""

  def __init__(self, name, maxsize, mode):
    self.name, self.maxsize, self.mode = name, maxsize, mode
    self.asts, self.twin = families()[name]
    self.memo = {}
    self.gens = {}
    self.leaf_memo = {}
    self.exprs = [build(a, self.memo) for a in self.asts]
    self.twin_expr = build(self.twin, self.memo)
    self.ref_labels = _labels(self.asts)
    # the same labels for the real call objects (their persistent ids)
    self.impl_labels = {}
    for key, lab in self.ref_labels.items():
      for a in self._cached_nodes():
        if lazy_ref.cache_key(a) == key:
          self.impl_labels.setdefault(build(a, self.memo).id, lab)

  def _cached_nodes(self):
    found = []

    def walk(a):
      if a[0] == 'call':
        if a[4] == 'c':
          found.append(a)
        walk(a[1])
        for x in a[2]:
          walk(x)
        for _, v in a[3]:
          walk(v)
      elif a[0] in ('attr', 'item'):
        walk(a[1])
    for a in self.asts:
      walk(a)
    return found

  def label(self, labels, key):
    # retraced call objects have fresh ids: entries are told apart by value
    return '?' if self.mode == 'retraced' else labels.get(key, '?')

  def ops(self):
    return [('make', i) for i in range(4)] + [('clear',), ('twin',)]

  def _make(self, expr, slot=None, cur=None):
    lf = _lf()
    if self.mode == 'recopied':
      # generation g of the expression at its g-th make: the bytes of a copy
      # of the copy that was sent last time (first time: of the original)
      # (the bytes of generation g are made once per system and re-sent)
      g = cur[slot] = cur.get(slot, -1) + 1
      gens = self.gens.setdefault(slot, [])
      while len(gens) <= g:
        gens.append(lf.pickler.dumps(
            lf.pickler.loads(gens[-1]) if gens else expr))
      return lf.maybe_make(gens[g])
    if self.mode == 'retraced':
      # the call is traced anew for every make (new call objects, new ids)
      # over the same traced callables / constants, and sent pickled: a call
      # keyed by value is the same cache entry
      ast = self.twin if slot == 'twin' else self.asts[slot]
      memo = dict(self.leaf_memo)
      expr = build(ast, memo)
      self.leaf_memo.update((k, v) for k, v in memo.items()
                            if k.startswith(("('lc', ", "('lk', ", "('f', ")))
      return lf.maybe_make(lf.pickler.dumps(expr))
    if self.mode == 'pickled':
      return lf.maybe_make(lf.pickler.dumps(expr))
    if self.mode == 'gzip':
      return lf.maybe_make(lf.pickler.loadz(lf.pickler.dumpz(expr)))
    return lf.maybe_make(expr)

  def run_ref(self, history):
    fx.reset()
    m = lazy_ref.Mirror(maxsize=self.maxsize)
    last, obs = {}, None
    for op in history:
      n0 = len(fx.CALLS)
      v, slot = None, op[0] if op[0] != 'make' else op[1]
      try:
        if op[0] == 'make':
          v = m.make(self.asts[op[1]])
        elif op[0] == 'twin':
          v = m.make(self.twin)
        else:
          m.clear_cache()
        o = ('ok', _norm_ref(m, v))
      except Exception as e:  # pylint: disable=broad-except
        o = _err(e)
      same = (v is last.get(slot)) if (
          isinstance(v, _IDENT_TYPES) and op[0] == 'make') else None
      last[slot] = v
      obs = {'out': o, 'calls': list(fx.CALLS[n0:]), 'info': m.fns.info(),
             'same': same, 'obj': None,
             'order': [(self.label(self.ref_labels, k), repr(_norm_ref(m, x)))
                       for k, x in m.fns.d.items()]}
    return obs, fx.STATE['n']

  def run_impl(self, history):
    lf = _lf()
    fx.reset()
    lf.clear_cache()
    lf.clear_object()
    cache = _caches()[0]
    last, obs, cur = {}, None, {}
    for op in history:
      n0 = len(fx.CALLS)
      v, slot = None, op[0] if op[0] != 'make' else op[1]
      try:
        if op[0] == 'make':
          v = self._make(self.exprs[op[1]], slot, cur)
        elif op[0] == 'twin':
          v = self._make(self.twin_expr, slot, cur)
        else:
          lf.clear_cache()
        o = ('ok', _norm_impl(v))
      except Exception as e:  # pylint: disable=broad-except
        o = _err(e)
        if isinstance(e, AttributeError):
          o = o + (str(e),)
      same = (v is last.get(slot)) if (
          isinstance(v, _IDENT_TYPES) and op[0] == 'make') else None
      last[slot] = v
      obs = {'out': o, 'calls': list(fx.CALLS[n0:]),
             'info': _impl_infos()[0], 'same': same, 'obj': None,
             'order': [(self.label(self.impl_labels, getattr(k, 'id', None)),
                        repr(_norm_impl(cache.data[k]))) for k in cache]}
    return obs, fx.STATE['n']

  def run(self, st, history):
    """Replays on fresh caches; canonical observable state or None."""
    st.traces += 1
    if not history:
      self.run_impl(())
      return ((), _impl_infos()[0], 0)
    exp, _ = self.run_ref(history)
    got, n = self.run_impl(history)
    what = _diff(exp, got)
    if what is None and exp['order'] != got['order']:
      what = 'eviction-order'
    if what:
      op = history[-1]
      if (what == 'raises-AttributeError'
          and "has no attribute 'id'" in str(got['out'][-1])):
        sig = 'C17:LazyObject.__eq__:AttributeError:traced-vs-plain-value'
      else:
        sig = f'C17:lazy-cache:{op[0]}:{what}'
        if self.name.startswith('opaque'):
          sig += ':non-value-equal-constant'
      st.violation(sig, {'family': self.name, 'maxsize': self.maxsize,
                         'mode': self.mode, 'history': history,
                         'expressions': self.asts, 'twin': self.twin,
                         'expected': exp, 'observed': got},
                   replay={'part': 'lazy', 'family': self.name,
                           'maxsize': self.maxsize, 'mode': self.mode,
                           'history': history})
      return None
    return (tuple(got['order']), got['info'], n)


def _lazy_unit(args):
  name, maxsize, mode, depth = args
  st = Stats()
  with _Bounds(fn_max=maxsize):
    sys_ = LazySystem(name, maxsize, mode)
    n = _bfs(st, ('lazy', name, maxsize, mode), sys_.ops(),
             lambda h: sys_.run(st, h), depth)
  st.count('lazy_cache_states', n)
  st.sample({'part': 'lazy cache BFS', 'family': name, 'maxsize': maxsize,
             'mode': mode, 'depth': depth, 'expressions': sys_.asts,
             'uncached_twin': sys_.twin, 'states': n})
  return st


# ---------------------------------------------------------------------------
# Part 2c: lazy_result_ handles and the object registry, explicit-state BFS
# ---------------------------------------------------------------------------

OBJ_SLOTS = 3
OBJ_OPS = ([('new', j) for j in range(OBJ_SLOTS)]
           + [('deref', j) for j in range(OBJ_SLOTS)]
           + [('use', j) for j in range(OBJ_SLOTS)] + [('clear_obj',)])


def _obj_enabled(history, op):
  return op[0] in ('new', 'clear_obj') or ('new', op[1]) in history


def obj_slots(kind):
  """How slot j gets its handle: ('lazy', expr with lazy_result_) or
  ('direct', value) = LazyObject.new(value)."""
  if kind == 'none':
    # handles whose value is None (through lazy_result_ and directly) or falsy
    return [('lazy', _s(('c', 0), 'l', 'nothing')), ('direct', None),
            ('direct', 0)]
  return [('lazy', _s(('c', j), 'l')) for j in range(OBJ_SLOTS)]


class ObjSystem:

  def __init__(self, maxsize, mode, kind='stamp'):
    self.maxsize, self.mode, self.kind = maxsize, mode, kind
    self.news = obj_slots(kind)
    self.uses = [_call(('f', 'first'), [('v', j)], [], '')
                 for j in range(OBJ_SLOTS)]
    self.memo = {}
    self.new_exprs = [build(a, self.memo) if how == 'lazy' else None
                      for how, a in self.news]

  def run_ref(self, history):
    fx.reset()
    m = lazy_ref.Mirror(obj_maxsize=self.maxsize)
    made, obs = {}, None
    for op in history:
      n0 = len(fx.CALLS)
      v = None
      try:
        if op[0] == 'new':
          how, what = self.news[op[1]]
          v = m.env[op[1]] = (m.make(what) if how == 'lazy'
                              else m.new_handle(what))
          made[op[1]] = m.objs.d[v.serial]
          o = ('ok', 'handle')
        elif op[0] == 'deref':
          v = m.make_value(m.env[op[1]])
          o = ('ok', _norm_ref(m, v), v is made[op[1]])
        elif op[0] == 'use':
          v = m.make(self.uses[op[1]])
          o = ('ok', _norm_ref(m, v))
        else:
          m.clear_object()
          o = ('ok', None)
      except Exception as e:  # pylint: disable=broad-except
        o = _err(e)
      serials = {h.serial: j for j, h in m.env.items()}
      obs = {'out': o, 'calls': list(fx.CALLS[n0:]), 'obj': m.objs.info(),
             'order': [(serials.get(k, 'dead'), repr(_norm_ref(m, m.objs.d[k])))
                       for k in m.objs.d]}
    return obs

  def run_impl(self, history):
    lf = _lf()
    fx.reset()
    lf.clear_cache()
    lf.clear_object()
    cache = _caches()[1]
    env, made, obs = {}, {}, None
    pick = (lambda x: x) if self.mode == 'direct' else lf.pickler.dumps
    for op in history:
      n0 = len(fx.CALLS)
      v = None
      try:
        if op[0] == 'new':
          how, what = self.news[op[1]]
          v = env[op[1]] = (lf.maybe_make(pick(self.new_exprs[op[1]]))
                            if how == 'lazy' else lf.LazyObject.new(what))
          made[op[1]] = cache.data.get(v)
          o = ('ok', 'handle' if _is_handle(v) and v.value is None
               else repr(v))
        elif op[0] == 'deref':
          v = lf.maybe_make(pick(env[op[1]]))
          o = ('ok', _norm_impl(v), v is made[op[1]])
        elif op[0] == 'use':
          v = lf.maybe_make(pick(build(self.uses[op[1]], {}, env)))
          o = ('ok', _norm_impl(v))
        else:
          lf.clear_object()
          o = ('ok', None)
      except Exception as e:  # pylint: disable=broad-except
        o = _err(e)
      ids = {h.id: j for j, h in env.items()}
      obs = {'out': o, 'calls': list(fx.CALLS[n0:]),
             'obj': _impl_infos()[1],
             'order': [(ids.get(k.id, 'dead'), repr(_norm_impl(cache.data[k])))
                       for k in cache]}
    return obs

  def run(self, st, history):
    st.traces += 1
    if not history:
      self.run_impl(())
      return ((), _impl_infos()[1], ())
    exp = self.run_ref(history)
    got = self.run_impl(history)
    what = None
    if exp['out'] != got['out']:
      if exp['out'] == ('err', 'MISSING-OBJECT'):
        what = 'missing-object-not-reported'
      elif got['out'][0] == 'err':
        what = 'raises-' + got['out'][1]
      else:
        what = 'value-or-identity'
    elif exp['calls'] != got['calls']:
      what = 'evaluations'
    elif exp['obj'] != got['obj']:
      what = 'object_info'
    elif exp['order'] != got['order']:
      what = 'eviction-order'
    if what:
      st.violation(f'C17:object-registry:{history[-1][0]}:{what}',
                   {'maxsize': self.maxsize, 'mode': self.mode,
                    'handles': self.news,
                    'history': history, 'expected': exp, 'observed': got},
                   replay={'part': 'obj', 'maxsize': self.maxsize,
                           'mode': self.mode, 'kind': self.kind,
                           'history': history})
      return None
    filled = tuple(sorted({op[1] for op in history if op[0] == 'new'}))
    return (tuple(got['order']), got['obj'], filled)


def _obj_unit(args):
  maxsize, mode, depth, kind = args
  st = Stats()
  with _Bounds(obj_max=maxsize):
    sys_ = ObjSystem(maxsize, mode, kind)
    n = _bfs(st, ('obj', maxsize, mode, kind), OBJ_OPS,
             lambda h: sys_.run(st, h), depth, enabled=_obj_enabled)
  st.count('object_registry_states', n)
  st.sample({'part': 'object registry BFS', 'maxsize': maxsize, 'mode': mode,
             'handles': sys_.news, 'depth': depth, 'states': n})
  return st


# ---------------------------------------------------------------------------
# Part 2d: the shipped bound (128): fill, touch some of the oldest 3, overflow
# ---------------------------------------------------------------------------

def _bound_histories(bound=128):
  for k in range(0, 4):
    for touched in itt.permutations(range(3), k):
      for over in (1, 2, 3):
        yield (list(range(bound)) + list(touched)
               + list(range(bound, bound + over)) + list(range(6))
               + [bound - 1, bound])


def _bound_unit(args):
  layer, hs = args
  st = Stats()
  lf = _lf()
  from ml_metrics._src.utils import func_utils
  opaque = layer.endswith('-opaque')
  # (-opaque: keyed by persistent id, argument a list of one plain instance)
  asts = [_s(('k', f'tok:{i}') if opaque else ('c', i), 'c')
          for i in range(128 + 3)]
  index = {lazy_ref.cache_key(a): i for i, a in enumerate(asts)}
  memo = {}
  exprs = [build(a, memo) for a in asts]
  for h in hs:
    case = (layer, tuple(h[128:-8]))
    st.case(case)
    st.traces += 1
    fx.reset()
    lf.clear_cache()
    bad = None
    if layer == 'LruCache':
      cache, ref = func_utils.LruCache(), lazy_ref.RefLru(128)
      for step, i in enumerate(h):
        ok, v = ref.get(i)
        if not ok:
          ref.put(i, ('v', i))
        try:
          got = cache[i]
        except KeyError:
          got = None
          cache[i] = ('v', i)
        info = cache.cache_info()
        if (got != v or list(cache) != list(ref.d)
            or (info.hits, info.misses, info.currsize) != ref.info()):
          bad = (step, 'lookup-or-order')
          break
    else:
      m = lazy_ref.Mirror()
      for i in h:
        m.make(asts[i])
      exp_calls, exp_info = list(fx.CALLS), m.fns.info()
      exp_order = [index[k] for k in m.fns.d]
      fx.reset()
      for i in h:
        lf.maybe_make(exprs[i] if layer == 'lazy' else
                      lf.pickler.dumps(exprs[i]))
      got_order = [k.args[0][0].name if opaque else k.args[0]
                   for k in _caches()[0]]
      if list(fx.CALLS) != exp_calls:
        bad = (next((j for j, (a, b) in enumerate(zip(fx.CALLS, exp_calls))
                     if a != b), min(len(fx.CALLS), len(exp_calls))),
               'evaluations')
      elif _impl_infos()[0] != exp_info:
        bad = (len(h), 'cache_info')
      elif got_order != exp_order:
        bad = (len(h), 'eviction-order')
    st.outcome((layer, case, bad))
    if bad:
      st.violation(f'C17:bound128:{layer}:{bad[1]}',
                   {'layer': layer, 'touched_then_overflow': case[1],
                    'where': bad[0]},
                   replay={'part': 'bound128', 'layer': layer, 'history': h})
  lf.clear_cache()
  st.sample({'part': 'bound 128', 'layer': layer,
             'touched+overflow of first history': list(hs[0][128:-8])})
  return st


# ---------------------------------------------------------------------------

def run(ctx):
  quick = ctx.quick
  # (depth, min calls, max calls, leaf alphabet, long history)
  if quick:
    spec = [(2, 1, 2, 'base', True), (2, 3, 3, 'base', False),
            (2, 1, 2, 'opaque', True)]
  else:
    spec = [(3, 1, 2, 'base', True), (3, 3, 3, 'base', False),
            (3, 4, 4, 'one', False), (3, 1, 2, 'opaque6', True),
            (2, 3, 3, 'opaque2', True)]
  depth = 6 if quick else 7
  n_units = 64 if quick else 256
  ctx.rule = (
      'PROGRAMS: every typed expression tree with '
      + ('depth <= 2 and <= 3 call nodes' if quick else
         'depth <= 3 and <= 3 call nodes, plus depth <= 3 with exactly 4 call '
         'nodes over the single leaf 1,') + ' over traced {add, mul(y=kw), mkdict(p, k=kw), Acc (class; '
      '.a, .scaled(x), __call__), raiser, tick (stateful), nothing (stateful, '
      'returns None), SCALE3 (traced '
      'instance; call, .k)}, leaves {1, trace(1), [3]}, item '
      "access ['k'],['p'], every flag in {none, cache_result_, lazy_result_} "
      'per call node; each tree through the history make, make [, '
      'clear_cache, make, make], make(pickle), make(gzip pickle), make [, '
      'clear_object, deref]; NON-VALUE-EQUAL CONSTANTS (unhashable and not '
      'equal to their own serialised copy, so only the persistent id '
      'identifies a copy of a cached call): the same trees with '
      + ('depth <= 2 and <= 2 call nodes over leaves {1, [Tok a, Tok b] (plain'
         ' instances without __eq__), numpy array [1 2 3], trace([Tok a, Tok '
         'b])}' if quick else
         'depth <= 3 and <= 2 call nodes over leaves {1, [Tok a, Tok b] (plain'
         ' instances without __eq__), numpy array [1 2 3], trace(either), '
         '{t: Tok d}}, and depth <= 2 with exactly 3 call nodes over {1, [Tok '
         'a, Tok b]},') + ' holding at least one such leaf; these and all '
      'trees with <= 2 call nodes go through the long history: ..., '
      'make(pickle), make(gzip pickle), make(the same pickle bytes again), '
      'make(pickle of the unpickled copy), make. HISTORIES (BFS, all operation sequences up to depth '
      f'{depth} ({depth + 1} for LruCache), deduplicated by canonical '
      'observable state): LruCache maxsize 1..3 x 20 operations (getitem/get/'
      "set/insert x 4 keys, set of None / 0 / '' under one key, clear);"
      ' lazy layer cache bounded to 2..3 x {make(e0..e3), clear_cache, '
      'make(uncached twin)} x 6 expression families (one of None-valued cached'
      ' calls) x {direct, pickled}, and bounded to '
      + ('2' if quick else '2..3') + ' x recopied (every make of an '
      'expression sends the pickle of a copy of the copy sent before); 2 '
      'families of cached calls over non-value-equal constants (stamp([Tok]),'
      ' stamp(array), stamp(trace([Tok])), stamp({t: Tok}); by-value cached '
      'calls over such calls) bounded to 2..3 x pickled, 3 x recopied'
      + ('' if quick else ', 2 x {recopied, direct}')
      + '; retraced (every make traces the call anew over the same traced '
      'callables and constants and sends its pickle; by-value families only)'
      ' bounded to 2 x {'
      + ('nested, traced_const' if quick else 'every by-value family')
      + ', cached calls over traced non-value-equal constants (stamp(trace('
      '[Tok])), stamp(trace(array)), mkdict of both, stamp of cached stamp)}'
      + ('' if quick else '; all 8 bounded to 1..2 through gzip pickles')
      + '; '
      'handle registry bounded to 1..2 x {new, deref, use x 3 slots, '
      'clear_object} x {direct, pickled} x {handles of lazy_result_ stamp(j); '
      'handles of lazy_result_ nothing(0), LazyObject.new(None), '
      'LazyObject.new(0)}; bound 128: fill, touch every '
      'ordered subset of the oldest 3, overflow by 1..3, probe, on LruCache /'
      ' lazy / lazy pickled / lazy pickled with arguments [Tok i]. distinct = distinct tree or distinct '
      '(system, history); every case is non-trivial')
  ctx.assumptions += [
      'fixtures live in an importable module so that cloudpickle pickles them '
      'by reference (call log shared with unpickled copies)',
      'a cached call is keyed by value (callee, arguments; flags ignored) when'
      ' its direct plain arguments are hashable, else by the persistent id of '
      'the call object; equal sub-tuples of one tree are built as one object',
      'the persistent id of a call object survives serialisation: every copy '
      '(of a copy) of a cached call is the same cache entry even when its '
      'arguments are neither hashable nor equal to their copies',
      'LruCache: overwriting an existing key replaces the value without '
      'refreshing its recency (cannot happen through the lazy layer); '
      'cache_clear resets hits/misses like functools.lru_cache',
      'a handle passed to a plain function is passed as a handle; exception '
      'messages are compared only for ValueError (the raiser fixture)',
      'pickling = the default pickler (cloudpickle), same process',
      'None (and 0, \'\') is a value like any other: a cached call that '
      'evaluates to None is evaluated once; a held handle of None '
      'dereferences to None',
  ]
  only = getattr(ctx, 'only', None) or []
  if only:
    ctx.cap('only=' + ','.join(only))
  on = lambda part: not only or part in only
  if on('trees'):
    ctx.pmap(_flags_unit, [0])
    ctx.pmap(_tree_unit,
             ctx.shuffled((spec, r, n_units) for r in range(n_units)))
    ctx.notes['trees'] = ctx.evaluations - 3
  lazy_units = []
  for name in sorted(families()):
    by_value = name not in ('by_id', 'opaque', 'opaque_nested')
    if name == 'opaque_traced':
      combos = [(2, 'retraced')]
      if not quick:
        combos += [(3, 'retraced'), (2, 'pickled'), (3, 'recopied')]
    elif name.startswith('opaque'):
      combos = [(2, 'pickled'), (3, 'pickled'), (3, 'recopied')]
      if not quick:
        combos += [(2, 'recopied'), (2, 'direct')]
    else:
      combos = [(m, mode) for m in (2, 3) for mode in ('direct', 'pickled')]
      combos += [(m, 'recopied') for m in ((2,) if quick else (2, 3))]
      if by_value and (not quick or name in ('nested', 'traced_const')):
        combos.append((2, 'retraced'))
    if not quick:
      combos += [(m, 'gzip') for m in (1, 2)]
    lazy_units += [(name, m, mode, depth) for m, mode in combos]
  hs = list(_bound_histories())
  units = []
  if on('lazy'):
    units += [('lazy', u) for u in lazy_units]
  if on('lru'):
    units += [('lru', (m, depth + 1)) for m in (1, 2, 3)]
  if on('obj'):
    units += [('obj', (m, mode, depth, kind)) for m in (1, 2)
              for mode in ('direct', 'pickled') for kind in ('stamp', 'none')]
  if on('bound'):
    units += [('bound', (layer, chunk)) for layer in
              ('LruCache', 'lazy', 'lazy-pickled', 'lazy-pickled-opaque')
              for chunk in enums.chunks(hs, 3)]
  ctx.pmap(_part2_unit, ctx.shuffled(units))


def _part2_unit(item):
  kind, args = item
  return {'lazy': _lazy_unit, 'lru': _lru_unit, 'obj': _obj_unit,
          'bound': _bound_unit}[kind](args)


def replay(ctx, data):
  r = data['replay']
  part = r['part']
  tup = lazy_ref._tup  # pylint: disable=protected-access
  if part == 'tree':
    check_tree(ctx, _detuple_consts(tup(r['ast'])), r.get('ext', False))
  elif part == 'flags':
    ctx.merge(_flags_unit(0))
  elif part == 'lru':
    _lru_run(ctx, r['maxsize'], tup(r['history']))
  elif part == 'lazy':
    with _Bounds(fn_max=r['maxsize']):
      LazySystem(r['family'], r['maxsize'], r['mode']).run(ctx, tup(r['history']))
  elif part == 'obj':
    with _Bounds(obj_max=r['maxsize']):
      ObjSystem(r['maxsize'], r['mode'], r.get('kind', 'stamp')).run(
          ctx, tup(r['history']))
  elif part == 'bound128':
    ctx.merge(_bound_unit((r['layer'], [r['history']])))


def _detuple_consts(ast):
  """After a JSON round trip: plain list constants are lists again."""
  t = ast[0]
  if t == 'c':
    return ('c', list(ast[1]) if isinstance(ast[1], tuple) else ast[1])
  if t in ('lc', 'f', 'v', 'k', 'lk'):
    return ast
  if t in ('attr', 'item'):
    return (t, _detuple_consts(ast[1]), ast[2])
  return ('call', _detuple_consts(ast[1]),
          tuple(_detuple_consts(a) for a in ast[2]),
          tuple((k, _detuple_consts(v)) for k, v in ast[3]), ast[4])
