"""C08 - pipeline operators route data exactly as a reference interpreter.

Exhaustive enumeration (E3) of operator chains (select / apply / assign /
filter / batch / sink) over a menu of operator instances that covers every key
shape (single, tuple, nested path, index, dict/kwargs, SELF, SKIP first /
middle / last, literal) and callables returning a scalar, a tuple, a dict;
and every multi-entry (2-3) dict-form / tuple-form key spec over the position
kinds top-level / nested-existing / nested-fresh;
x every stream of <= 3 records from a 3-record menu; run on the real
`TreeTransform(...).make().iterate(stream)` (and `make()(record)`).
Falsy-but-valid keys (Index(0), the mapping key 0, the empty tuple of keys (),
the empty path Key()) meet every key position of every operator in a second
world: records keyed by 0 / 1 (int-keyed dict, tuple, list) and an operator
menu made by `_falsy_ops` (see FALSY_* below); a few of them also sit in the
main menu so that the named-key operators compose with them.
Oracle: vmc/oracles/pipeline_ref.py (plain-Python interpreter); the caller's
records are deep-compared with a snapshot, and object identity is checked both
ways (untouched sub-trees shared, updated sub-trees not the caller's objects).
"""
import gc
import itertools as itt

from vmc import enums
from vmc.oracles import pipeline_ref as pref
from vmc.oracles import tree_ref as ref
from vmc.runner import Stats

PROPERTY = 'C08'
LEVEL = 'exploration'

I, SELF, SKIP, Lit = ref.I, ref.SELF, ref.SKIP, ref.Lit


# ---- the user's program pieces (shared by implementation and reference) ------

def canon(x):
  """repr that does not depend on dict insertion order."""
  if isinstance(x, dict):
    return '{%s}' % ', '.join(sorted(
        '%s: %s' % (canon(k), canon(v)) for k, v in x.items()))
  if isinstance(x, list):
    return '[%s]' % ', '.join(canon(v) for v in x)
  if isinstance(x, tuple):
    return '(%s)' % ', '.join(canon(v) for v in x)
  if isinstance(x, int) and not isinstance(x, bool):
    return repr(int(x))           # Index(1) / I(1) / 1 as a dict key
  if x is ref.MISSING or type(x).__name__ == 'NullMap':
    return 'MISSING'              # the record that holds nothing
  return repr(x)


def f1(*a, **k):
  """Returns one (non-tuple) value that depends on every argument."""
  return 'f%s%s' % (canon(a), canon(k))


def f2(*a, **k):
  return ('p' + f1(*a, **k), 'q' + f1(*a, **k))


def f3(*a, **k):
  return ('p' + f1(*a, **k), 'q' + f1(*a, **k), 'r' + f1(*a, **k))


def fd(*a, **k):
  return {'p': 'p' + f1(*a, **k), 'q': 'q' + f1(*a, **k)}


def fd3(*a, **k):
  return {'p': 'p' + f1(*a, **k), 'q': 'q' + f1(*a, **k),
          'r': 'r' + f1(*a, **k)}


def pred(*a, **k):
  """Keeps records whose first selected value is an odd int / a flat dict /
  a 2-element list; every record when it is given no argument at all."""
  if not a and not k:
    return True
  x = a[0] if a else next(iter(k.values()))
  if isinstance(x, bool):
    return x
  if isinstance(x, int):
    return x % 2 == 1
  if isinstance(x, dict):
    return 'c' not in x
  if isinstance(x, (list, tuple)):
    return len(x) == 2
  return bool(x)


def pred2(x, y):
  return x + y < 6


FNS = {'f1': f1, 'f2': f2, 'f3': f3, 'fd': fd, 'fd3': fd3, 'pred': pred, 'pred2': pred2}


class RecSink:
  """A sink that records everything (fixture; importable)."""

  def __init__(self):
    self.writes = []
    self.closed = 0

  def write(self, *a, **k):
    self.writes.append((a, k))

  def close(self):
    self.closed += 1


def make_record(i):
  if i == 0:
    return {'a': 1, 'b': 2}
  if i == 1:
    return {'a': 4, 'b': 5, 'c': {'d': [10, 20], 'e': {'g': 3}}}
  if i == 2:
    return [7, [8, 9]]
  # the records of the falsy-key world: everything is addressed by 0 / 1, and
  # `pred` tells the value under 0 from the whole record for each of them
  if i == 3:
    return {0: 2, 1: [3, 4]}
  if i == 4:
    return (4, [5, 6])
  return [7, [8, 9], 3]


RECORD_NAMES = ('flat-dict', 'nested-dict', 'bare-list',
                'int-keyed-dict', 'tuple', 'list-of-3')
MAIN_RECORDS, FALSY_RECORDS = (0, 1, 2), (3, 4, 5)


# ---- operator menu -----------------------------------------------------------

def _op(name, kind, **kw):
  d = dict(kind=kind, name=name, **kw)
  if 'fn' in d:
    d['fn_name'] = d['fn']
    d['fn'] = FNS[d['fn']]
  return d


P = lambda *steps: tuple(steps)   # a path

MENU = [
    # select(in[, out])
    _op('select(a)', 'select', inp=P('a')),
    _op('select((a,b))', 'select', inp=[P('a'), P('b')]),
    _op('select((a,b),(x,y))', 'select', inp=[P('a'), P('b')],
        out=[P('x'), P('y')]),
    _op('select(c.d)', 'select', inp=P('c', 'd')),
    _op('select([0])', 'select', inp=P(I(0))),
    _op('select(SELF)', 'select', inp=SELF),
    _op('select((a,Lit7),(x,y))', 'select', inp=[P('a'), Lit(7)],
        out=[P('x'), P('y')]),
    _op('select({x:a})!', 'select', inp={'x': P('a')}),
    # apply(fn, in, out)
    _op('apply(f1)', 'apply', fn='f1'),
    _op('apply(f1,a,x)', 'apply', fn='f1', inp=P('a'), out=P('x')),
    _op('apply(f2,(a,b))', 'apply', fn='f2', inp=[P('a'), P('b')]),
    _op('apply(f2,(a,b),(x,y))', 'apply', fn='f2', inp=[P('a'), P('b')],
        out=[P('x'), P('y')]),
    _op('apply(f2,a,x)', 'apply', fn='f2', inp=P('a'), out=P('x')),
    _op('apply(f2,a,(x,SKIP))', 'apply', fn='f2', inp=P('a'),
        out=[P('x'), SKIP]),
    _op('apply(f2,a,(SKIP,x))', 'apply', fn='f2', inp=P('a'),
        out=[SKIP, P('x')]),
    _op('apply(f3,a,(x,SKIP,y))', 'apply', fn='f3', inp=P('a'),
        out=[P('x'), SKIP, P('y')]),
    _op('apply(f1,{x:a,y:b},x)', 'apply', fn='f1',
        inp={'x': P('a'), 'y': P('b')}, out=P('x')),
    _op('apply(fd,a,{u:p})', 'apply', fn='fd', inp=P('a'), out={'u': P('p')}),
    _op('apply(f1,a,n.m)', 'apply', fn='f1', inp=P('a'), out=P('n', 'm')),
    _op('apply(f1,a,[0])', 'apply', fn='f1', inp=P('a'), out=P(I(0))),
    _op('apply(f1,c.d,x)', 'apply', fn='f1', inp=P('c', 'd'), out=P('x')),
    _op('apply(f1,[0],x)', 'apply', fn='f1', inp=P(I(0)), out=P('x')),
    _op('apply(f1,(a,Lit7),x)', 'apply', fn='f1', inp=[P('a'), Lit(7)],
        out=P('x')),
    _op('apply(f1,a,x,fn_batch_size=2)!', 'apply', fn='f1', inp=P('a'),
        out=P('x'), fn_batch_size=2),
    # assign(key, fn, in)
    _op('assign(x,f1,a)', 'assign', fn='f1', inp=P('a'), out=P('x')),
    _op('assign(y,f1,b)', 'assign', fn='f1', inp=P('b'), out=P('y')),
    _op('assign(x,f1)', 'assign', fn='f1', out=P('x')),
    _op('assign((x,y),f2,(a,b))', 'assign', fn='f2', inp=[P('a'), P('b')],
        out=[P('x'), P('y')]),
    _op('assign(a,f1,b)', 'assign', fn='f1', inp=P('b'), out=P('a')),
    _op('assign(c.n,f1,a)', 'assign', fn='f1', inp=P('a'), out=P('c', 'n')),
    _op('assign(n.m,f1,a)', 'assign', fn='f1', inp=P('a'), out=P('n', 'm')),
    _op('assign([1],f1,[0])', 'assign', fn='f1', inp=P(I(0)), out=P(I(1))),
    _op('assign([2],f1,[0])', 'assign', fn='f1', inp=P(I(0)), out=P(I(2))),
    _op('assign({u:p},fd,a)', 'assign', fn='fd', inp=P('a'),
        out={'u': P('p')}),
    _op('assign({u:c.d})', 'assign', out={'u': P('c', 'd')}),
    _op('assign((x,SKIP),f2,a)', 'assign', fn='f2', inp=P('a'),
        out=[P('x'), SKIP]),
    _op('assign(x,f1,{x:a,y:b})', 'assign', fn='f1',
        inp={'x': P('a'), 'y': P('b')}, out=P('x')),
    _op('assign(SELF,f1,a)', 'assign', fn='f1', inp=P('a'), out=SELF),
    _op('assign(f1)!', 'assign', fn='f1'),
    _op('assign(x,f1,a,fn_batch_size=2)!', 'assign', fn='f1', inp=P('a'),
        out=P('x'), fn_batch_size=2),
    # filter(pred, in)
    _op('filter(pred,a)', 'filter', fn='pred', inp=P('a')),
    _op('filter(pred)', 'filter', fn='pred'),
    _op('filter(pred2,(a,b))', 'filter', fn='pred2', inp=[P('a'), P('b')]),
    _op('filter(pred,{x:a})', 'filter', fn='pred', inp={'x': P('a')}),
    # batch(k)
    _op('batch(2)', 'batch', k=2),
    _op('batch(1)', 'batch', k=1),
    _op('batch(-1)!', 'batch', k=-1),
    # sink(s, in)
    _op('sink(S)', 'sink'),
    _op('sink(S,a)', 'sink', inp=P('a')),
    _op('sink(S,(a,b))', 'sink', inp=[P('a'), P('b')]),
    _op('sink(S,{x:a})', 'sink', inp={'x': P('a')}),
]


# Falsy but valid keys among the named-key operators (the main records): the
# index 0, the mapping key 0 and the empty tuple of keys in every key position.
FALSY_MAIN = [
    _op('select(a,[0])', 'select', inp=P('a'), out=P(I(0))),
    _op('apply(f1,a,0)', 'apply', fn='f1', inp=P('a'), out=P(0)),
    _op('assign(0,f1,a)', 'assign', fn='f1', inp=P('a'), out=P(0)),
    _op('filter(pred,[0])', 'filter', fn='pred', inp=P(I(0))),
    _op('filter(pred,())', 'filter', fn='pred', inp=[]),
    _op('sink(S,[0])', 'sink', inp=P(I(0))),
    _op('sink(S,())', 'sink', inp=[]),
]
MENU += FALSY_MAIN


# Multi-entry key forms.  Every position of a 2- or 3-entry key spec is one of
#   T  a top-level key                           x / y / z
#   E  a nested path into a container that the nested-dict record already has
#                                                c.n / c.e.h / c.d.[2]
#   F  a nested path into a container nobody has n.m / n.k / m.k  (a later F
#      lands in the container an earlier F of the same spec has just made)
# (on the flat-dict record E is fresh too; on the bare list all are errors).
POSITION = {
    'T': (P('x'), P('y'), P('z')),
    'E': (P('c', 'n'), P('c', 'e', 'h'), P('c', 'd', I(2))),
    'F': (P('n', 'm'), P('n', 'k'), P('m', 'k')),
}
RESULT = (P('p'), P('q'), P('r'))


def path_name(path):
  return '.'.join('[%d]' % s if isinstance(s, I) else str(s) for s in path)


def _multi_entry_ops():
  ops = []
  for n in (2, 3):
    fn = 'fd' if n == 2 else 'fd3'
    for shape in itt.product('TEF', repeat=n):
      keys = [POSITION[c][j] for j, c in enumerate(shape)]
      spec = ','.join('%s:%s' % (path_name(k), path_name(r))
                      for k, r in zip(keys, RESULT))
      # dict-form assign keys: {record path: path in fn's dict result}
      ops.append(_op('assign({%s},%s,a)' % (spec, fn), 'assign', fn=fn,
                     inp=P('a'), out=dict(zip(keys, RESULT))))
      # dict-form output keys of apply (fresh record: E is as fresh as F)
      if 'E' not in shape:
        ops.append(_op('apply(%s,a,{%s})' % (fn, spec), 'apply', fn=fn,
                       inp=P('a'), out=dict(zip(keys, RESULT))))
      # tuple-form assign keys (set one by one)
      if n == 2:
        ops.append(_op('assign((%s),f2,(a,b))' % ','.join(
            path_name(k) for k in keys), 'assign', fn='f2',
                       inp=[P('a'), P('b')], out=list(keys)))
  # the same on the bare-list record: append / nested-existing positions
  for keys in ([P(I(2)), P(I(1), I(2))], [P(I(1), I(0)), P(I(1), I(2))],
               [P(I(1), I(2)), P(I(2)), P(I(1), I(0))]):
    fn = 'fd' if len(keys) == 2 else 'fd3'
    spec = ','.join('%s:%s' % (path_name(k), path_name(r))
                    for k, r in zip(keys, RESULT))
    ops.append(_op('assign({%s},%s,[0])' % (spec, fn), 'assign', fn=fn,
                   inp=P(I(0)), out=dict(zip(keys, RESULT))))
  return ops


_SINGLE = {o['name'] for o in MENU}
MENU += [o for o in _multi_entry_ops() if o['name'] not in _SINGLE]
BY_NAME = {o['name']: o for o in MENU}
assert len(BY_NAME) == len(MENU)


# ---- the falsy-key world -------------------------------------------------------
# Keys that Python calls falsy and that are keys like any other:
#   [0]     Key.Index(0)   (an int subclass equal to 0)
#   0       the mapping key 0 (on a sequence: the same element as [0])
#   ()      the empty tuple of keys: no argument / no output key
#   Path()  the empty path Key(): the root, like SELF
# Every one of them sits in every key position of every operator: input key
# (alone, in a tuple of keys, as a keyword argument), output key of select and
# apply (alone, in a tuple with SKIP / with a second key, in a dict-form spec),
# assign key (alone, in a tuple, in a dict-form spec).  [1] / 1 are the truthy
# controls the chains are composed with.  All records of this world (FALSY_
# RECORDS) are addressed by 0 and 1, so that every operator finds its inputs.
Z0 = (P(I(0)), P(0))                 # falsy one-step keys
NOKEY, ROOT = [], P()
ONE = P(I(1))


def spec_name(k):
  if isinstance(k, list):
    return '(%s)' % ','.join(spec_name(e) for e in k)
  if isinstance(k, dict):
    return '{%s}' % ','.join('%s:%s' % (
        n if isinstance(n, str) else spec_name(n), spec_name(v))
                             for n, v in k.items())
  if k is SKIP:
    return 'SKIP'
  if k is SELF:
    return 'SELF'
  return path_name(k) if k else 'Path()'


def _falsy_ops():
  ops = []

  def add(kind, fn=None, inp=None, out=None):
    args = [a for a in (fn, None if inp is None else spec_name(inp),
                        None if out is None else spec_name(out))
            if a is not None]
    if kind == 'assign':     # the library's argument order: key, fn, inputs
      args = ([spec_name(out)] if out is not None else []) + [
          a for a in (fn, None if inp is None else spec_name(inp))
          if a is not None]
    if kind == 'sink':
      args = ['S'] + args
    kw = {}
    if fn is not None:
      kw['fn'] = fn
    if inp is not None:
      kw['inp'] = inp
    if out is not None:
      kw['out'] = out
    ops.append(_op('%s(%s)' % (kind, ','.join(args)), kind, **kw))

  # input side
  for k in Z0 + (NOKEY, ROOT):
    add('select', inp=k)
    add('apply', 'f1', inp=k)
    add('apply', 'f2', inp=k)          # a 2-tuple record: addressable by 0 / 1
    add('assign', 'f1', inp=k, out=ONE)
    add('filter', 'pred', inp=k)
    add('sink', inp=k)
  for k in Z0 + (ROOT,):
    add('apply', 'f1', inp={'x': k})
    add('assign', 'f1', inp={'x': k}, out=ONE)
    add('filter', 'pred', inp={'x': k})
    add('sink', inp={'x': k})
  for k in Z0:
    add('select', inp=[k, ONE])
    add('select', inp=[ONE, k])
    add('apply', 'f2', inp=[ONE, k])
    add('filter', 'pred', inp=[k, ONE])
    add('sink', inp=[k, ONE])
  # output side
  for k in Z0 + (NOKEY, ROOT):
    add('select', inp=ONE, out=k)
    add('apply', 'f1', inp=ONE, out=k)
    add('assign', 'f1', inp=ONE, out=k)
  for k in Z0:
    add('apply', 'f2', inp=ONE, out=[k, SKIP])
    add('apply', 'f2', inp=ONE, out=[SKIP, k])
    add('apply', 'fd', inp=ONE, out={k: P('p')})
    add('assign', 'f2', inp=ONE, out=[k, ONE])
    add('assign', 'fd', inp=ONE, out={k: P('p')})
  add('apply', 'f2', inp=ONE, out=[P(I(0)), P(I(1))])
  add('apply', 'f2', inp=ONE, out=[P(0), P(1)])
  add('select', inp=[ONE, P(I(0))], out=[P(I(0)), P(I(1))])
  add('select', inp=[P(1), P(0)], out=[P(0), P(1)])
  return ops


ZMENU = []
for _o in _falsy_ops() + [BY_NAME['batch(2)'], BY_NAME['batch(1)']]:
  if _o['name'] in BY_NAME:          # the same instance is in the main menu
    _m = BY_NAME[_o['name']]
    assert {k: repr(v) for k, v in _m.items()} == {
        k: repr(v) for k, v in _o.items()}, _o['name']
    _o = _m
  else:
    BY_NAME[_o['name']] = _o
  ZMENU.append(_o['name'])
assert len(set(ZMENU)) == len(ZMENU)
# one instance per (operator, falsy key class, side) for the longer chains
ZREDUCED = [
    'select([0])', 'select([1],0)',
    'apply(f2,[0])', 'apply(f2,())', 'apply(f1,[1],[0])', 'apply(f2,[1],(0,SKIP))',
    'assign([1],f1,0)', 'assign([1],f1,())', 'assign([0],f1,[1])',
    'assign({0:p},fd,[1])',
    'filter(pred,[0])', 'filter(pred,())',
    'sink(S,[0])', 'sink(S,())', 'batch(2)',
]
ZSMALL = [
    'select([0])', 'select([1],0)', 'apply(f2,())', 'apply(f1,[1],[0])',
    'apply(f2,[1],(0,SKIP))', 'assign([1],f1,0)', 'assign([0],f1,[1])',
    'filter(pred,[0])', 'filter(pred,())', 'sink(S,[0])', 'sink(S,())',
    'batch(2)',
]
assert all(n in ZMENU for n in ZREDUCED + ZSMALL)

# reduced menus: one instance per key shape that matters for composition
REDUCED = [
    'select((a,b))', 'select((a,b),(x,y))', 'select(c.d)', 'select(SELF)',
    'select({x:a})!',
    'apply(f1)', 'apply(f1,a,x)', 'apply(f2,(a,b),(x,y))',
    'apply(f2,a,(x,SKIP))', 'apply(f2,a,(SKIP,x))', 'apply(fd,a,{u:p})',
    'apply(f1,a,n.m)', 'apply(f1,a,[0])',
    'assign(x,f1,a)', 'assign(y,f1,b)', 'assign((x,y),f2,(a,b))',
    'assign(a,f1,b)', 'assign(c.n,f1,a)', 'assign({u:c.d})',
    'assign(SELF,f1,a)', 'assign(f1)!',
    'assign({x:p,c.e.h:q},fd,a)', 'assign({c.n:p,c.e.h:q,c.d.[2]:r},fd3,a)',
    'filter(pred,a)', 'filter(pred)',
    'batch(2)', 'sink(S)', 'sink(S,a)',
]
SMALL = [
    'select((a,b))', 'select(c.d)', 'apply(f1,a,x)', 'apply(f2,a,(x,SKIP))',
    'apply(f2,(a,b),(x,y))', 'assign(x,f1,a)', 'assign(y,f1,b)',
    'assign(c.n,f1,a)', 'assign({x:p,c.e.h:q},fd,a)', 'filter(pred,a)',
    'filter(pred)', 'batch(2)', 'sink(S,a)',
]
assert all(n in BY_NAME for n in REDUCED + SMALL)


# ---- translation to the library ----------------------------------------------

def _libs():
  from ml_metrics._src.chainables import transform, tree  # pylint: disable=g-import-not-at-top
  return transform, tree


def lib_key(k):
  _, T = _libs()
  if k is SELF:
    return T.Key.SELF
  if k is SKIP:
    return T.Key.SKIP
  if isinstance(k, Lit):
    return T.Key.Literal(k.value)
  if isinstance(k, dict):
    return {(lib_key(n) if isinstance(n, tuple) else n): lib_key(v)
            for n, v in k.items()}
  if isinstance(k, list):
    return tuple(lib_key(e) for e in k)
  steps = tuple(T.Key.Index(int(s)) if isinstance(s, I) else s for s in k)
  if len(steps) == 1:
    return steps[0]          # the usual spelling of a one-step key
  return T.Key(steps)


def build_impl(program, sinks, make=True):
  """Builds the TreeTransform and makes the runner (= build time)."""
  transform, _ = _libs()
  t = transform.TreeTransform()
  for i, op in enumerate(program):
    kind = op['kind']
    kw = {}
    if 'inp' in op:
      kw['input_keys'] = lib_key(op['inp'])
    for name in ('fn_batch_size', 'batch_size'):
      if name in op:
        kw[name] = op[name]
    if kind == 'select':
      kw.pop('input_keys', None)
      out = lib_key(op['out']) if 'out' in op else None
      t = t.select(lib_key(op.get('inp', SELF)), output_keys=out, **kw)
    elif kind == 'apply':
      if 'out' in op:
        kw['output_keys'] = lib_key(op['out'])
      t = t.apply(fn=op['fn'], **kw)
    elif kind == 'assign':
      keys = lib_key(op['out']) if 'out' in op else ()
      t = t.assign(keys, fn=op.get('fn'), **kw)
    elif kind == 'filter':
      t = t.filter(op['fn'], **kw)
    elif kind == 'batch':
      t = t.batch(op['k'])
    elif kind == 'sink':
      t = t.sink(sinks[i], **kw)
  return t.make() if make else t


def clean(x):
  """Library output -> plain data (Reserved keys become the ref's markers)."""
  _, T = _libs()
  if isinstance(x, dict):
    return {(SKIP if isinstance(k, T.Reserved) and k == 'SKIP' else k):
            clean(v) for k, v in x.items()}
  if isinstance(x, list):
    return [clean(v) for v in x]
  if isinstance(x, tuple) and type(x) is tuple:  # pylint: disable=unidiomatic-typecheck
    return tuple(clean(v) for v in x)
  if isinstance(x, T.NullMap):
    return ref.MISSING
  return x


# ---- naming a difference -----------------------------------------------------

# bookkeeping deviations (they change the build-time verdict)
BOOK = ('keep-skip', 'select-adds', 'sink-self', 'select-falsy-out-is-in',
        'assign-falsy-key-is-none')
OLD_BOOK = BOOK[:3]


def _relevant(program):
  """Deviations (pipeline_ref.DEVIATIONS) that can matter for this program,
  ordered by the operator at which they first bite."""
  ok0, _, tr0 = pref.validate(program)
  out = {}

  def add(i, d):
    out[d] = min(out.get(d, i), i)
  for d in ('select-adds', 'sink-self', 'keep-skip'):
    okd, _, trd = pref.validate(program, frozenset([d]))
    first = next((i for i, (a, b) in enumerate(zip(trd, tr0))
                  if repr(a) != repr(b) and i < len(program) and
                  program[i]['kind'] in ('batch', 'assign', 'filter')),
                 None)
    if first is not None:
      add(first, d)
    elif okd != ok0:
      add(len(program), d)
  for i, op in enumerate(program):
    if op['kind'] == 'filter' and i < len(tr0) and not tr0[i]:
      add(i, 'filter-needs-output-keys')
    if op['kind'] in ('apply', 'select'):
      el = pref.out_elems(op)
      if el and el[0] is SKIP:
        add(i, 'skip-materialises')
    if op['kind'] == 'sink' and isinstance(op.get('inp'), dict):
      add(i, 'sink-no-kwargs')
    # a falsy key spec taken for "not given"
    if op['kind'] != 'select' and pref.spec_falsy(op.get('inp', SELF)):
      add(i, 'falsy-in-is-self')
    if (op['kind'] == 'select' and op.get('out') not in (None, [], ()) and
        pref.spec_falsy(op['out'])):
      add(i, 'select-falsy-out-is-in')
    if (op['kind'] == 'assign' and op.get('out', []) != [] and
        pref.spec_falsy(op['out'])):
      add(i, 'assign-falsy-key-is-none')
  return sorted(out, key=lambda d: (_FALSY_RANK.get(d, 1), out[d], d))


# a falsy key spec in the program is the first suspect (the specific ones
# before the general one)
_FALSY_RANK = {'select-falsy-out-is-in': 0, 'assign-falsy-key-is-none': 0,
               'falsy-in-is-self': 2}


def name_build_difference(program, impl_ok):
  """Which single bookkeeping deviation gives the implementation's verdict."""
  rel = [d for d in _relevant(program) if d in BOOK and d in _FALSY_RANK]
  book = rel + [b for b in BOOK if b not in _FALSY_RANK]
  for n in (1, 2, 3):
    for devs in itt.combinations(book, n):
      if pref.validate(program, frozenset(devs))[0] == impl_ok:
        return '+'.join(devs)
  return 'unexplained:' + '+'.join(sorted({o['kind'] for o in program}))


def name_run_difference(program, records, got, err):
  """The smallest set of deviations under which the reference reproduces the
  implementation's observable behaviour (naming only; never a verdict)."""
  rel = _relevant(program)
  got_c = [clean(g) for g in got]
  cands = rel + [b for b in OLD_BOOK if b not in rel]
  for n in (1, 2, 3):
    for devs in itt.combinations(cands, n):
      dv = frozenset(devs)
      if not pref.validate(program, dv)[0]:
        continue
      r = pref.run(program, records, dv)
      if (r.error is None) != (err is None):
        continue
      if err is None and len(r.outputs) != len(got_c):
        continue
      if len(got_c) > len(r.outputs) or not all(
          ref.same(a, b) for a, b in zip(got_c, r.outputs)):
        continue
      return '+'.join(sorted(devs))
  if rel:   # not reproduced exactly: name the deviations that can matter
    return '~' + '+'.join(sorted(rel))
  ok0, _, tr0 = pref.validate(program)
  for n in (2, 3):
    for devs in itt.combinations(OLD_BOOK, n):
      okd, _, trd = pref.validate(program, frozenset(devs))
      if okd != ok0 or any(
          repr(a) != repr(b) for i, (a, b) in enumerate(zip(trd, tr0))
          if i < len(program) and program[i]['kind'] in (
              'batch', 'assign', 'filter')):
        return '~' + '+'.join(devs)
  return 'unexplained:' + '+'.join(sorted({o['kind'] for o in program}))


def _key_form(op):
  out = op.get('out', ())
  keys = (list(out.keys()) if isinstance(out, dict) else
          list(out) if isinstance(out, list) else [out])
  form = ('dict-keys' if isinstance(out, dict) else
          'tuple-keys' if isinstance(out, list) else 'one-key')
  nested = any(isinstance(k, tuple) and len(k) > 1 for k in keys)
  return '%s:%s:%s:%s' % (op['kind'], form, 'multi' if len(keys) > 1 else '1',
                          'nested' if nested else 'flat')


def name_input_damage(program, stream_ids):
  """Names a 'caller's objects written / aliased' failure after the operator
  form that shows it on its own (naming only; never a verdict)."""
  writers = [o for o in program if o['kind'] == 'assign']
  culprits = set()
  for op in writers:
    records = [make_record(i) for i in stream_ids]
    snaps = [ref.snapshot(r) for r in records]
    ids = {}
    for r in records:
      ref.container_ids(r, ids)
    try:
      got = list(build_impl([op], {}).iterate(list(records)))
      exp = pref.run([op], records)
      if exp.error is None and len(got) == len(exp.outputs) and any(
          ref.alias_violations(g, e, ids) for g, e in zip(got, exp.outputs)):
        culprits.add(_key_form(op))
    except Exception:  # pylint: disable=broad-except
      pass
    if not all(ref.same(r, s) for r, s in zip(records, snaps)):
      culprits.add(_key_form(op))
  forms = culprits or {_key_form(o) for o in writers}
  if forms:
    return '+'.join(sorted(forms))
  return 'ops:' + '+'.join(sorted({o['kind'] for o in program}))


# ---- one program -------------------------------------------------------------

def prog_names(program):
  return [o['name'] for o in program]


def check_build(st, program):
  """Build-time verdicts agree.  Returns True iff the program can be run."""
  names = prog_names(program)
  st.case(None)
  ok, why, _ = pref.validate(program)
  sinks = {i: RecSink() for i, o in enumerate(program) if o['kind'] == 'sink'}
  try:
    build_impl(program, sinks)
    impl_ok, err = True, None
  except Exception as e:  # pylint: disable=broad-except
    impl_ok, err = False, f'{type(e).__name__}: {str(e)[:160]}'
  st.outcome(('build', ok, impl_ok, (err or '')[:12]))
  replay = {'program': names}
  if ok and not impl_ok:
    st.violation(
        'C08:build:valid-chain-rejected:' + name_build_difference(program, False),
        {'program': names, 'error': err}, replay=replay)
  elif not ok and impl_ok:
    st.violation(
        'C08:build:invalid-chain-accepted:' + why.split(':', 1)[1] + ':' +
        name_build_difference(program, True),
        {'program': names, 'reference_says': why}, replay=replay)
  return ok and impl_ok


def check_run(st, program, stream_ids, call_too=True, built=None):
  """One program on one stream.  `built` = (transform, sinks) to re-use a
  transform built once per program (its sinks are reset); the runner is made
  afresh for every stream."""
  names = prog_names(program)
  records = [make_record(i) for i in stream_ids]
  snaps = [ref.snapshot(r) for r in records]
  in_ids = {}
  for r in records:
    ref.container_ids(r, in_ids)
  replay = {'program': names, 'stream': list(stream_ids)}
  exp = pref.run(program, records)
  st.case(None, nontrivial=bool(stream_ids) and not exp.unspecified)
  if exp.unspecified:      # (batch over order-dependent output keys)
    st.outcome(('unspecified',))
    return
  if built is None:
    sinks = {i: RecSink() for i, o in enumerate(program)
             if o['kind'] == 'sink'}
    runner = build_impl(program, sinks)
  else:
    transform_, sinks = built
    for s in sinks.values():
      s.writes, s.closed = [], 0
    runner = transform_.make()
  got, err = [], None
  it = runner.iterate(list(records))
  try:
    for x in it:
      got.append(x)
  except Exception as e:  # pylint: disable=broad-except
    err = f'{type(e).__name__}: {str(e)[:120]}'
  del it, runner
  st.outcome(('run', err is None, exp.error is None, len(got),
              repr(got)[:40]))
  det = {'program': names, 'stream': [RECORD_NAMES[i] for i in stream_ids],
         'records': snaps, 'got': got, 'error': err,
         'expected': exp.outputs, 'reference_error': exp.error}

  def viol(what, extra=None, output_differs=True, damage=False):
    # only a difference in outputs / errors can be due to a routing deviation
    if output_differs:
      label = name_run_difference(program, [ref.snapshot(s) for s in snaps],
                                  got, err)
    elif damage:
      label = name_input_damage(program, stream_ids)
    else:
      label = 'ops:' + '+'.join(sorted({o['kind'] for o in program}))
    st.violation(f'C08:run:{what}:{label}', dict(det, **(extra or {})),
                 replay=replay)

  got_c = [clean(g) for g in got]
  if exp.error is None:
    if err is not None:
      viol('raises-' + err.split(':')[0])
    elif len(got_c) != len(exp.outputs) or not all(
        ref.same(a, b) for a, b in zip(got_c, exp.outputs)):
      viol('wrong-output')
    else:
      bad = [p for g, e in zip(got, exp.outputs)
             for p in ref.sharing_violations(g, e, in_ids, path=('out',))]
      if bad:
        viol('untouched-input-subtree-copied', {'at': [repr(p) for p in bad]},
             output_differs=False)
      # ... and an updated sub-tree must not be one of the caller's objects
      leak = [p for g, e in zip(got, exp.outputs)
              for p in ref.alias_violations(g, e, in_ids, path=('out',))]
      if leak:
        viol('updated-subtree-is-callers-object',
             {'at': [repr(p) for p in leak]}, output_differs=False,
             damage=True)
    # sinks: every record once, in order, then closed exactly once
    if err is None:
      gc.collect() if any(s.closed != 1 for s in sinks.values()) else None
      for i, s in sinks.items():
        want = exp.sinks[i]
        if len(s.writes) != len(want.writes) or not all(
            ref.same(clean(list(a[0])), list(b[0])) and
            ref.same(clean(a[1]), b[1])
            for a, b in zip(s.writes, want.writes)):
          viol('sink-saw-other-records',
               {'sink_op': i, 'sink_saw': s.writes,
                'sink_expected': want.writes},
               output_differs=len(got_c) != len(exp.outputs) or not all(
                   ref.same(a, b) for a, b in zip(got_c, exp.outputs)))
        if s.closed != 1:
          viol('sink-not-closed-once', {'sink_op': i, 'closed': s.closed},
               output_differs=False)
  else:
    if err is None:
      viol('value-where-reference-says-error')
    elif not (len(got_c) <= len(exp.outputs) and all(
        ref.same(a, b) for a, b in zip(got_c, exp.outputs))):
      viol('wrong-output-before-error')
  if not all(ref.same(r, s) for r, s in zip(records, snaps)):
    viol('mutates-caller-input', {'records_after': records},
         output_differs=False, damage=True)
  # the single-record call interface
  if (call_too and len(stream_ids) == 1 and exp.error is None and
      len(exp.outputs) == 1 and err is None):
    st.case(None)
    rec = make_record(stream_ids[0])
    rec_ids = ref.container_ids(rec)
    exp1 = pref.run(program, [rec]).outputs[0]
    sinks2 = {i: RecSink() for i in sinks}
    try:
      raw = build_impl(program, sinks2)(rec)
      one = clean(raw)
      if not ref.same(rec, snaps[0]):
        st.violation('C08:call:mutates-caller-input:' + name_input_damage(
            program, stream_ids), dict(det, record_after=rec), replay=replay)
      elif ref.same(one, exp1) and ref.alias_violations(raw, exp1, rec_ids):
        st.violation('C08:call:updated-subtree-is-callers-object:' +
                     name_input_damage(program, stream_ids),
                     dict(det, call_result=one), replay=replay)
      if not ref.same(one, exp.outputs[0]):
        st.violation('C08:call:wrong-output:' + name_run_difference(
            program, [make_record(stream_ids[0])], [one], None),
                     dict(det, call_result=one), replay=replay)
    except Exception as e:  # pylint: disable=broad-except
      st.violation(f'C08:call:raises-{type(e).__name__}:' +
                   name_run_difference(program, [make_record(stream_ids[0])],
                                       [], repr(e)),
                   dict(det, call_error=repr(e)[:200]), replay=replay)


STREAMS = [s for s in enums.sequences(MAIN_RECORDS, 3)]
# the falsy-key world: its own records; streams of <= 2 (quick) / <= 3 records
ZSTREAMS = {n: [s for s in enums.sequences(FALSY_RECORDS, n)] for n in (2, 3)}


def check_program(st, names, streams=None):
  program = [BY_NAME[n] for n in names]
  if check_build(st, program):
    sinks = {i: RecSink() for i, o in enumerate(program)
             if o['kind'] == 'sink'}
    built = (build_impl(program, sinks, make=False), sinks)
    for s in STREAMS if streams is None else streams:
      check_run(st, program, s, built=built)


# ---- assign with re-batching (inputs paired with outputs through the tee) -----

def rows10(xs):
  return [10 * v for v in xs]


def check_assign_rebatched(st, b, fbs, n):
  """assign(x, fn, a, fn_batch_size=fbs, batch_size=b) over n batches of b
  rows: appendix A only specifies it when the re-batched outputs align with
  the input batches (batch_size = input batch size); fn is row-wise, so every
  record must get exactly the rows computed from its own column."""
  transform, _ = _libs()
  case = ('assign-rebatched', b, fbs, n)
  st.case(case, nontrivial=n > 0)
  records = [{'a': [j * b + r for r in range(b)], 'tag': j} for j in range(n)]
  snaps = [ref.snapshot(r) for r in records]
  exp = [dict(r, x=rows10(r['a'])) for r in snaps]
  seen = []

  def fn(xs):
    seen.append(list(xs))
    return rows10(xs)
  replay = {'assign_rebatched': [b, fbs, n]}
  try:
    t = transform.TreeTransform().assign(
        'x', fn=fn, input_keys='a', fn_batch_size=fbs, batch_size=b)
    got = [clean(g) for g in t.make().iterate(list(records))]
  except Exception as e:  # pylint: disable=broad-except
    st.violation(f'C08:assign-rebatched:raises-{type(e).__name__}',
                 {'case': case, 'error': repr(e)[:200]}, replay=replay)
    return
  st.outcome(('assign-rebatched', len(got), len(seen)))
  rows = [v for r in snaps for v in r['a']]
  exp_seen = [rows[i:i + fbs] for i in range(0, len(rows), fbs)]
  if len(got) != len(exp) or not all(ref.same(g, e) for g, e in zip(got, exp)):
    st.violation('C08:assign-rebatched:outputs-paired-with-wrong-inputs',
                 {'case': case, 'got': got, 'expected': exp}, replay=replay)
  elif seen != exp_seen:
    st.violation('C08:assign-rebatched:fn-saw-other-batches',
                 {'case': case, 'fn_saw': seen, 'expected': exp_seen},
                 replay=replay)
  if not all(ref.same(r, s) for r, s in zip(records, snaps)):
    st.violation('C08:assign-rebatched:mutates-caller-input',
                 {'case': case, 'records_after': records}, replay=replay)


def _rebatch_unit(cases):
  st = Stats()
  for c in cases:
    check_assign_rebatched(st, *c)
  return st


# ---- aggregate with falsy keys -------------------------------------------------

class ListAgg:
  """Aggregatable fixture: the state is the list of f1(*inputs, **kw_inputs)."""

  def create_state(self):
    return []

  def update_state(self, state, *a, **k):
    return state + [f1(*a, **k)]

  def merge_states(self, states):
    return [x for s in states for x in s]

  def get_result(self, state):
    return list(state)


AGG_IN = [P(I(0)), P(0), NOKEY, ROOT, ONE, {'x': P(I(0))}, {'x': P(0)},
          [P(I(0)), ONE], [ONE, P(0)]]
AGG_OUT = [SELF, P(I(0)), P(0), ROOT, NOKEY, P('x')]
AGG_DRIVERS = ('iterate', 'call-iterator', 'call-record')


def check_aggregate(st, i_in, i_out, stream_ids):
  """aggregate(fn, input_keys, output_keys) with falsy keys: the aggregate sees
  exactly the selected inputs of every record, its result lands under the
  output key of a fresh record, the records pass through untouched."""
  transform, _ = _libs()
  kin, kout = AGG_IN[i_in], AGG_OUT[i_out]
  op = {'kind': 'apply', 'inp': kin, 'out': kout}
  names, keys = pref.in_keys(op)
  def cls(spec):      # does the spec hold a falsy key?
    elems = (list(spec.values()) if isinstance(spec, dict) else
             spec if isinstance(spec, list) else [spec])
    return 'falsy' if not elems or any(
        pref.spec_falsy(e) for e in elems) else 'truthy'
  label = 'in-%s:out-%s' % (cls(kin), cls(kout))
  for driver in AGG_DRIVERS:
    if driver == 'call-record' and len(stream_ids) != 1:
      continue
    st.case(('aggregate', i_in, i_out, stream_ids, driver),
            nontrivial=bool(stream_ids))
    records = [make_record(i) for i in stream_ids]
    snaps = [ref.snapshot(r) for r in records]
    replay = {'aggregate': [i_in, i_out, list(stream_ids)]}
    try:
      state = []
      for r in snaps:
        vals = [ref.get(r, k) for k in keys]
        state.append(f1(**dict(zip(names, vals))) if names is not None
                     else f1(*vals))
      exp, exp_err = ref.multi_set(ref.MISSING, pref.out_elems(op), state), None
    except ref.RefError as e:
      exp, exp_err = None, str(e)
    got, err, passed = None, None, None
    try:
      runner = transform.TreeTransform().aggregate(
          ListAgg(), input_keys=lib_key(kin), output_keys=lib_key(kout)).make()
      if driver == 'iterate':
        it = runner.iterate(list(records))
        passed = list(it)
        got = it.agg_result
      elif driver == 'call-iterator':
        got = runner(input_iterator=list(records))
      else:
        got = runner(records[0])
      got = clean(got)
    except Exception as e:  # pylint: disable=broad-except
      err = f'{type(e).__name__}: {str(e)[:120]}'
    st.outcome(('aggregate', err is None, exp_err is None, repr(got)[:40]))
    det = {'input_keys': spec_name(kin), 'output_keys': spec_name(kout),
           'driver': driver, 'records': snaps, 'got': got, 'error': err,
           'expected': exp, 'reference_error': exp_err}
    if exp_err is None and err is not None:
      st.violation(f'C08:aggregate:{driver}:raises-{err.split(":")[0]}:{label}',
                   det, replay=replay)
    elif exp_err is not None and err is None:
      st.violation(f'C08:aggregate:{driver}:value-where-reference-says-error:'
                   f'{label}', det, replay=replay)
    elif exp_err is None and not ref.same(got, exp):
      st.violation(f'C08:aggregate:{driver}:wrong-result:{label}', det,
                   replay=replay)
    if err is None and passed is not None and not (
        len(passed) == len(records) and
        all(a is b for a, b in zip(passed, records))):
      st.violation(f'C08:aggregate:{driver}:records-not-passed-through:{label}',
                   dict(det, passed=passed), replay=replay)
    if not all(ref.same(r, s) for r, s in zip(records, snaps)):
      st.violation(f'C08:aggregate:{driver}:mutates-caller-input:{label}',
                   dict(det, records_after=records), replay=replay)


def _agg_unit(item):
  nrec, cases = item
  st = Stats()
  for i_in, i_out in cases:
    for s in ZSTREAMS[nrec]:
      if s:      # (an aggregate over nothing is not a matter of key routing)
        check_aggregate(st, i_in, i_out, s)
  return st


# ---- enumeration ---------------------------------------------------------------

def _valid_prefix(names):
  """Programs whose proper prefixes are all buildable in both worlds are the
  only ones worth extending: the verdict of a program with a rejected prefix
  is the verdict of that prefix."""
  ok, _, _ = pref.validate([BY_NAME[n] for n in names])
  return ok


def programs(menu, max_len):
  out = []
  frontier = [()]
  for _ in range(max_len):
    nxt = []
    for p in frontier:
      for n in menu:
        q = p + (n,)
        out.append(q)
        if _valid_prefix(q):
          nxt.append(q)
    frontier = nxt
  return out


def _unit(progs):
  st = Stats()
  for names in progs:
    check_program(st, names)
  if progs:
    st.sample({'program': list(progs[0]),
               'streams': 'all %d sequences of <= 3 records' % len(STREAMS)})
  return st


def _zunit(item):
  nrec, progs = item
  st = Stats()
  for names in progs:
    check_program(st, names, ZSTREAMS[nrec])
  if progs:
    st.sample({'program': list(progs[0]),
               'streams': 'all %d sequences of <= %d records of the falsy-key '
                          'world' % (len(ZSTREAMS[nrec]), nrec)})
  return st


def run(ctx):
  quick = ctx.quick
  full = [o['name'] for o in MENU]
  # one instance per key shape + the multi-entry representatives of REDUCED
  # (of the falsy-key instances of the main menu two go into the longer chains)
  longer = {o['name'] for o in FALSY_MAIN} - {'assign(0,f1,a)', 'sink(S,())'}
  shapes = [n for n in full
            if (n in _SINGLE or n in REDUCED) and n not in longer]
  plan = [(full, 2), (REDUCED, 3)] if quick else [
      (full, 2), (shapes, 3), (SMALL, 4)]
  seen, progs = set(), []
  for menu, n in plan:
    for p in programs(menu, n):
      if p not in seen:
        seen.add(p)
        progs.append(p)
  # (menu, chain length, records per stream)
  zplan = [(ZMENU, 2, 2), (ZREDUCED, 3, 2)] if quick else [
      (ZMENU, 2, 3), (ZREDUCED, 3, 3), (ZSMALL, 4, 2)]
  zseen, zprogs = set(), {2: [], 3: []}
  for menu, n, nrec in zplan:
    for p in programs(menu, n):
      if p not in zseen:
        zseen.add(p)
        zprogs[nrec].append(p)
  ctx.rule = (
      'operator chains: %s (a chain is extended only while the reference '
      'accepts it: a rejected prefix decides the verdict); each accepted chain '
      'x every stream of <= 3 records from {flat dict, dict with nested dict '
      '+ list + dict-in-dict, bare list} (%d streams) through '
      'make().iterate(stream), single-record streams also through '
      'make()(record). The menu holds, besides one instance per single key '
      'shape, every 2- and 3-entry dict-form assign key spec whose positions '
      'are each top-level / nested-into-an-existing-container / nested-fresh '
      '(9 + 27), the 2-entry tuple-form ones (9), the dict-form apply output '
      'keys over top-level / nested-fresh (4 + 8) and 3 dict-form specs into '
      'the bare list. After every run: outputs = reference, caller records '
      'deep-equal their snapshot, untouched sub-trees are shared, updated '
      'sub-trees are none of the caller\'s objects. Plus assign(fn_batch_size=f, '
      'batch_size=b) over n <= %d batches of b rows, b in 1..3, f in 1..3b '
      '(outputs aligned with the input batches). Falsy but valid keys: the '
      'main menu holds Index(0) / the mapping key 0 / the empty tuple of keys '
      'as output key of select and apply, assign key, input of filter and '
      'sink (7 instances); and a second world - records {int-keyed dict '
      '{0:..,1:..}, tuple, list of 3}, every stream of <= 2 (13) or <= 3 (40) '
      'of them - runs %s; that menu puts each of Index(0), '
      'the mapping key 0, the empty tuple of keys () and the empty path Key() '
      'into every key position of every operator: input key of select / '
      'apply / assign / filter / sink (alone; as keyword argument; first or '
      'second of a tuple of keys), output key of select and apply and assign '
      'key (alone; in a tuple with SKIP before / after or with a second key; '
      'in a dict-form spec), followed / preceded by batch(1|2); [1] and 1 are '
      'the truthy controls. Same oracle clauses. Aggregate with falsy keys: '
      'aggregate(fn, input_keys, output_keys) for %d input specs (Index(0), 0, '
      '(), Key(), keyword and tuple forms, control [1]) x %d output specs '
      '(SELF, Index(0), 0, Key(), (), x) x the same non-empty streams through iterate + '
      'agg_result, make()(input_iterator=stream) and make()(record): result = '
      'the list of per-record inputs under the output key, records passed '
      'through untouched. Falsy-key menu: %s. Menu: %s. Cases distinct by '
      'construction; non-trivial = non-empty stream.' % (
          ' and '.join('every chain of length <= %d over %s' % (n, what)
                       for (_, n), what in zip(plan, [
                           'the full menu of %d operator instances' % len(full)
                       ] + ([
                           'the reduced menu of %d instances' % len(REDUCED)
                       ] if quick else [
                           'the %d instances that are one per key shape plus '
                           'two multi-entry ones' % len(shapes),
                           'the small menu of %d instances' % len(SMALL)]))),
          len(STREAMS),
          4 if quick else 6,
          ' and '.join(
              'every chain of length <= %d over %d instances on the streams '
              'of <= %d records' % (n, len(m), nrec) for m, n, nrec in zplan),
          len(AGG_IN), len(AGG_OUT), ', '.join(ZMENU),
          ', '.join(full)))
  ctx.assumptions += [
      'callables are pure string-building functions of their arguments; the '
      'filter predicates depend on the selected value (no argument at all: '
      'keep)',
      'a key is what it addresses whatever its truth value in Python; only '
      'select(output_keys=None or ()) and assign(()) mean "not given"',
      're-batching sizes (batch_size/fn_batch_size > 0 on apply/assign/select) '
      'are covered by C19; here only their build-time validity',
      'error kinds are not compared; on a reference error the implementation '
      'must raise too and its output so far must be a prefix of the '
      "reference's",
      'current-output-key bookkeeping as in DESIGN.md appendix A: apply, '
      'select and batch replace the set, assign adds, filter and sink keep it',
  ]
  units = [u for u in enums.chunks(ctx.shuffled(progs), 256 if quick else 1024)]
  ctx.pmap(_unit, units)
  ctx.pmap(_zunit, [(nrec, u) for nrec in (2, 3) for u in enums.chunks(
      ctx.shuffled(zprogs[nrec]), 64 if quick else 256)])
  agg = [(i, o) for i in range(len(AGG_IN)) for o in range(len(AGG_OUT))]
  ctx.pmap(_agg_unit, [(2 if quick else 3, u)
                       for u in enums.chunks(ctx.shuffled(agg), 16)])
  ctx.notes['falsy_key_aggregates'] = len(agg)
  ctx.notes['falsy_key_programs'] = len(zprogs[2]) + len(zprogs[3])
  nmax = 4 if quick else 6
  rb = [(b, f, n) for b in (1, 2, 3) for f in range(1, 3 * b + 1)
        for n in range(0, nmax + 1)]
  ctx.pmap(_rebatch_unit, enums.chunks(ctx.shuffled(rb), 8))
  ctx.notes['assign_rebatched_cases'] = len(rb)
  ctx.notes['programs'] = len(progs)
  ctx.notes['streams'] = len(STREAMS)


def replay(ctx, data):
  r = data['replay']
  if 'assign_rebatched' in r:
    check_assign_rebatched(ctx, *r['assign_rebatched'])
    return
  if 'aggregate' in r:
    check_aggregate(ctx, r['aggregate'][0], r['aggregate'][1],
                    tuple(r['aggregate'][2]))
    return
  program = [BY_NAME[n] for n in r['program']]
  if 'stream' in r:
    check_run(ctx, program, tuple(r['stream']))
  else:
    check_build(ctx, program)
