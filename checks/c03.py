"""C03 - results do not depend on the execution strategy.

One program (<= 3 record-wise operators from apply / assign / select / filter,
optionally a re-batching operator last, optionally an aggregate with 0-1
slicer) over one dataset is executed in every way the library offers and
compared with the boring way (one fused stage, no threads, whole data source):

 1. sequential strategies (plain enumeration, E3): every grouping of
    [source, op.., aggregate(s)] into named stages (all cut sets; same name =>
    fused by `chain`), x shard counts 1..4 (shards of the SequenceDataSource,
    through `make(shard=ShardConfig(i, k))` for a single stage and through
    `data_source(ds.shard(i, k))` for the groupings; round-robin shards of a
    ShardedIterable in the thorough tier; states merged with `merge_states`,
    result by `get_result`), and the record-at-a-time driver `update_state` +
    `merge_states` + `get_result`;
 1b. source-level strategies over LONG data sources (plain enumeration, E3):
    the random-access reader refills a shard's range iterator 64 elements at a
    time (iter_utils._RANDOM_ACCESS_BATCH_SIZE), so sources of 1..4 windows
    -1/0/+1 element (and 100/130/200) are cut into 1..4 shards - leaf shards
    longer than a window, ending inside one, in first/middle/last position -
    through data_source(ds.shard()), make(shard=), the data sources a stage
    with num_threads=k hands to its workers (the runner's own sharding,
    iterated without threads), shards of shards (make(shard=) x num_threads),
    a SequenceDataSource over several sequences, a ShardedIterable, and the
    record-at-a-time driver (as many states to merge as records); every
    operator, every aggregate and the slicer meet every such cut;
 2. threaded strategies (E1, every schedule within a preemption bound):
    `num_threads` in 1..3 over a shardable source (k shard iterators, k
    enqueuing workers) and over a non-shardable one (k workers behind one
    locked iterator), fused and chained, with the threads in the first or in a
    later stage (whose workers then share the previous stage's iterator and
    its aggregate), with fewer and with MORE records than the stage's output
    queue holds (3 x num_threads; the workers then wait on a full queue);
 3. the interleaved stage runner `orchestrate.run_pipeline_interleaved` in
    process (every stage on its own thread, (Async)IteratorQueues between
    them), every schedule within preemption bound 0 and delay bound 1.

Oracle: same multiset of emitted batches (of rows when the program re-batches
and the strategy moves batch boundaries), same `agg_result`, same
AggregateResult through StopIteration.value; every helper thread finished.
"""
from vmc import charness, enums, explorer, sharness
from vmc.runner import Stats, h64

PROPERTY = 'C03'
LEVEL = 'model_checking'

S = sharness


# =============================================================================
# 1. sequential strategies
# =============================================================================

def _klass(ops, agg):
  parts = []
  if S.rebatches(ops):
    parts.append('rebatching')
  if 'fi' in ops:
    parts.append('filter')
  return '+'.join(parts) or 'plain'


def _compare(st, strategy, klass, ref, batches, agg, returned, rows, replay,
             check_returned=True):
  """Records the differences between one strategy's observation and the
  oracle's."""
  problems = []
  want, got = S.bag_of(ref.batches, rows), S.bag_of(batches, rows)
  if got != want:
    detail = {'how': S._symptom(got, want)}
    if len(want) <= 40:
      detail.update(got=sorted(got.items()), want=sorted(want.items()))
    else:     # long inputs: the differing entries only
      diff = sorted((k, got.get(k, 0), want.get(k, 0))
                    for k in set(got) | set(want)
                    if got.get(k, 0) != want.get(k, 0))
      detail.update(differing_entries=len(diff),
                    first_differences_key_got_want=diff[:8])
    problems.append((('row' if rows else 'batch') + '-multiset-differs', detail))
  if agg != ref.agg:
    d = {'got': agg, 'want': ref.agg}
    if len(repr(d)) > 4000:
      d = {'got_chars': len(repr(agg)), 'want_chars': len(repr(ref.agg)),
           'got_head': repr(agg)[:300], 'want_head': repr(ref.agg)[:300]}
    problems.append(('agg-result-differs', d))
  if check_returned and returned != ref.returned:
    problems.append(('returned-aggregate-differs',
                     {'got': returned, 'want': ref.returned}))
  for what, detail in problems:
    st.violation(f'C03:{strategy}:{what}', dict(detail, klass=klass, **replay),
                 replay=replay)
  return not problems


class _Reported(Exception):
  """A failure that has already been recorded as a violation."""


def _agg_stages(ops, agg, cuts):
  """Number of stages that carry an aggregate under this grouping."""
  first = 1 + len(ops)
  m = S.num_elements(ops, agg)
  return len({sum(1 for c in cuts if c <= j) for j in range(first, m)})


def _merge_and_result(st, strategy, t_full, states, ops, agg, cuts, klass,
                      replay):
  """merge_states + get_result of the whole pipeline's runner; a failure is
  recorded with the step that failed and the input class."""
  why = ('aggregates-in-several-stages' if _agg_stages(ops, agg, cuts) > 1
         else 'aggregates-in-one-stage')
  runner = t_full.make()
  import copy
  states = list(states)
  fresh = copy.deepcopy(states)     # merging may modify the first state
  try:
    merged = runner.merge_states(states)
  except Exception as e:  # pylint: disable=broad-except
    st.violation(f'C03:merge_states:raise:{type(e).__name__}:{why}',
                 dict(replay, error=repr(e)[:300]), replay=replay)
    raise _Reported() from e
  try:
    result = S.canon_agg(runner.get_result(merged))
  except Exception as e:  # pylint: disable=broad-except
    st.violation(f'C03:get_result:raise:{type(e).__name__}:{why}',
                 dict(replay, error=repr(e)[:300]), replay=replay)
    raise _Reported() from e
  # the shard states may also arrive as a one-shot stream (the orchestrators
  # pass a generator fed from a queue): same merged result
  try:
    runner2 = t_full.make()
    streamed = S.canon_agg(runner2.get_result(
        runner2.merge_states(s for s in fresh)))
  except Exception as e:  # pylint: disable=broad-except
    st.violation(f'C03:merge_states(streamed):raise:{type(e).__name__}:{why}',
                 dict(replay, error=repr(e)[:300]), replay=replay)
    raise _Reported() from e
  if streamed != result:
    st.violation(f'C03:merge_states(streamed):result-differs-from-list:{why}',
                 dict(replay, streamed=streamed, listed=result), replay=replay)
  return result


def check_program(st, ops, agg, n, shard_cuts, max_shards=4, iter_source=True):
  """Every sequential strategy of one program over one dataset.

  shard_cuts: 'ends' = shard counts are combined with the fused and the fully
  chained grouping only; 'single' = also with every two-stage grouping;
  'all' = with every grouping."""
  records = S.dataset(n)
  klass = _klass(ops, agg)
  rows = S.rebatches(ops)
  base = {'ops': list(ops), 'agg': agg, 'n': n}
  nontrivial = n > 0
  try:
    ref = S.reference(ops, agg, records)
  except Exception as e:  # pylint: disable=broad-except
    st.case(('reference', ops, agg, n), nontrivial=False)
    st.violation(f'C03:reference:raise:{type(e).__name__}',
                 dict(base, error=repr(e)[:300]), replay=dict(base, strategy='reference'))
    return
  # the oracle run must agree with itself
  st.case(('reference', ops, agg, n), nontrivial=nontrivial)
  want_ret = ('agg', ref.agg) if agg else ('none',)
  if ref.returned != want_ret:
    st.violation('C03:reference:returned-aggregate-differs-from-agg_result',
                 dict(base, returned=ref.returned, agg=ref.agg),
                 replay=dict(base, strategy='reference'))
  st.outcome((S.batch_key(ref.batches), repr(ref.agg)))
  m = S.num_elements(ops, agg)
  all_cuts = list(S.cut_sets(m))
  full_chain = tuple(range(1, m))
  for cuts in all_cuts:
    # -- grouping into stages, whole source ------------------------------------
    replay = dict(base, strategy='chain', cuts=list(cuts))
    st.case(('chain', ops, agg, n, cuts), nontrivial=nontrivial)
    try:
      ob = S.run_iterate(S.build_chained(ops, agg, S.make_source('seq', records),
                                         cuts))
      _compare(st, 'chain', klass, ref, ob.batches, ob.agg, ob.returned,
               False, replay)
    except Exception as e:  # pylint: disable=broad-except
      st.violation(f'C03:chain:raise:{type(e).__name__}',
                   dict(replay, error=repr(e)[:300]), replay=replay)
    # -- shards ---------------------------------------------------------------------
    if cuts not in ((), full_chain) and not (
        shard_cuts == 'all' or (shard_cuts == 'single' and len(cuts) == 1)):
      continue
    for k in range(1, max_shards + 1):
      vias = ['source'] + (['make'] if not cuts else [])
      if not cuts and iter_source:
        vias.append('iter-source')
      for via in vias:
        replay = dict(base, strategy='shard', via=via, cuts=list(cuts), k=k)
        st.case(('shard', via, ops, agg, n, cuts, k), nontrivial=nontrivial)
        try:
          _run_sharded(st, ops, agg, records, cuts, k, via, ref, klass, rows,
                       replay)
        except _Reported:
          pass
        except Exception as e:  # pylint: disable=broad-except
          st.violation(f'C03:shard[{via}]:raise:{type(e).__name__}',
                       dict(replay, error=repr(e)[:300]), replay=replay)
  # -- one record at a time through update_state ---------------------------------
  if agg:
    for cuts in ((), full_chain) if m > 1 else ((),):
      _check_update_state(st, ops, agg, records, cuts, ref, klass, base,
                          nontrivial)


def _check_update_state(st, ops, agg, records, cuts, ref, klass, base,
                        nontrivial):
  """The record-at-a-time driver: update_state per record into a fresh state,
  then merge_states over all of them and get_result."""
  n = len(records)
  replay = dict(base, strategy='update_state', cuts=list(cuts))
  st.case(('update_state', base.get('space'), ops, agg, n, cuts),
          nontrivial=nontrivial)
  t = S.build_chained(ops, agg, S.make_source('seq', []), cuts)
  try:
    runner = t.make()
    states = [runner.update_state(runner.create_state(), dict(r))
              for r in records] or [runner.create_state()]
  except BaseException as e:  # pylint: disable=broad-except
    if not isinstance(e, (Exception, StopIteration)):
      raise
    why = 'every-record-emits-a-batch'
    if isinstance(e, StopIteration) and 0 in _emitted_per_record(ops, records):
      why = 'record-emits-no-batch'
    st.violation(f'C03:update_state:raise:{type(e).__name__}:{why}',
                 dict(replay, error=repr(e)[:300]), replay=replay)
    return
  try:
    got = _merge_and_result(st, 'update_state', t, states, ops, agg, cuts,
                            klass, replay)
  except _Reported:
    return
  if got != ref.agg:
    why = 'no-record-emits-several-batches'
    if max(_emitted_per_record(ops, records), default=0) > 1:
      why = 'record-emits-several-batches'
    d = dict(replay, got=got, want=ref.agg)
    if len(repr(d)) > 4000:
      d = dict(replay, got_head=repr(got)[:600], want_head=repr(ref.agg)[:600])
    st.violation(f'C03:update_state:agg-result-differs:{why}', d, replay=replay)


def _emitted_per_record(ops, records):
  """How many batches the operators emit for each record alone (triage aid:
  names the input class of an update_state failure)."""
  return [len(S.run_iterate(S.build_fluent(ops, None, S.make_source(
      'seq', [r]))).batches) for r in records]


def _shard_runs(ops, agg, records, cuts, k, via, full):
  """One observation per leaf shard of the strategy (via, k).

  via: 'make' = make(shard=ShardConfig(i, k)) of the whole pipeline;
  'source' / 'mseq-source' / 'iter-source' = data_source(ds.shard(i, k)) of a
  SequenceDataSource over one sequence / over three sequences / of a
  ShardedIterable; 'workers' = the k data sources that a first stage with
  num_threads=k hands to its worker threads, each iterated by the same
  pipeline without threads; 'make+workers' (k = (shards, threads)) = the same
  inside every make(shard=) shard (shards of shards)."""
  from ml_metrics._src.chainables import io
  if via == 'make':
    for i in range(k):
      yield S.run_iterate(full, shard=io.ShardConfig(shard_index=i, num_shards=k))
  elif via in ('workers', 'make+workers'):
    shards, threads = k if via == 'make+workers' else (None, k)
    threaded = S.build_chained(ops, agg, S.make_source('seq', records), cuts,
                               threads={0: threads})
    outer = [None] if shards is None else [
        io.ShardConfig(shard_index=i, num_shards=shards) for i in range(shards)]
    for shard in outer:
      sources = S.worker_sources(threaded, shard=shard)
      if len(sources) != threads:
        raise AssertionError(
            f'{len(sources)} worker data sources for num_threads={threads}')
      for src in sources:
        yield S.run_iterate(full, data_source=src)
  else:
    kind = {'source': 'seq', 'iter-source': 'iter', 'mseq-source': 'mseq'}[via]
    for i in range(k):
      yield S.run_iterate(S.build_chained(
          ops, agg, S.make_source(kind, records, shard=(i, k)), cuts))


def _run_sharded(st, ops, agg, records, cuts, k, via, ref, klass, rows, replay):
  batches, states, returned_states = [], [], []
  full = S.build_chained(ops, agg, S.make_source('seq', records), cuts)
  for ob in _shard_runs(ops, agg, records, cuts, k, via, full):
    batches += ob.batches
    states.append(ob.it_agg_state)
    returned_states.append(ob.agg_state)
  merged = None
  if agg:
    if any(s is None for s in returned_states):
      st.violation(f'C03:shard[{via}]:shard-returned-no-aggregate-state',
                   replay, replay=replay)
    merged = _merge_and_result(st, f'shard[{via}]', full, states, ops, agg,
                               cuts, klass, replay)
  # with several shards the batch boundaries of a re-batching program move
  _compare(st, f'shard[{via}]', klass, ref, batches, merged, None,
           rows and len(states) > 1, replay, check_returned=False)


# -- long data sources --------------------------------------------------------------
#
# The library reads a random-access source ahead in windows
# (iter_utils._RANDOM_ACCESS_BATCH_SIZE = 64 elements per refill of a shard's
# range iterator), so a shard behaves differently once it is longer than one
# window, ends inside a window, or is followed by more data.  The sizes below
# put 1..4 windows -1/0/+1 element into the source, so that with 1..4 shards
# leaf shards of 63/64/65/127/128/129 and of lengths in no relation to the
# window (43, 50, 67, 86, 100 ..) occur in first, middle and last position.

WINDOW = 64
LONG_SIZES = {
    'quick': (63, 64, 65, 100, 129, 130, 200, 257),
    'thorough': tuple(sorted({WINDOW * w + d for w in (1, 2, 3, 4)
                              for d in (-1, 0, 1)} | {100, 130, 200, 300})),
}
LONG_AGG_SIZES = {'quick': (65, 130, 200), 'thorough': (65, 129, 130, 200, 257)}
LONG_OPS_AGG_SIZES = {'quick': (200,), 'thorough': (65, 129, 130, 200, 257)}
SMALL_SIZES = (0, 1, 2, 3, 5)
NESTED = ((2, 2), (2, 3), (3, 2), (3, 3))     # (make shards, worker threads)


def check_sources(st, ops, agg, n, max_shards=4, part=(0, 1)):
  """Every way of cutting the data source of one program, for one dataset size
  (the source-level strategies; no thread is started).  part = (i, k): the
  i-th of k work units that share the strategies of this (program, n)."""
  records = S.dataset(n)
  klass = _klass(ops, agg)
  rows = S.rebatches(ops)
  base = {'ops': list(ops), 'agg': agg, 'n': n, 'space': 'sources'}
  nontrivial = n > 0
  first = part[0] == 0
  if first:
    st.case(('sources/reference', ops, agg, n), nontrivial=nontrivial)
  try:
    ref = S.reference(ops, agg, records)
  except Exception as e:  # pylint: disable=broad-except
    st.violation(f'C03:reference:raise:{type(e).__name__}',
                 dict(base, error=repr(e)[:300]),
                 replay=dict(base, strategy='reference'))
    return
  st.outcome(('sources', n, len(ref.batches), h64(repr(ref.agg))))
  m = S.num_elements(ops, agg)
  full_chain = tuple(range(1, m))
  groupings = ((), full_chain) if m > 1 else ((),)
  # -- whole source, fully chained ---------------------------------------------------
  replay = dict(base, strategy='chain', cuts=list(full_chain))
  if first:
    st.case(('sources/chain', ops, agg, n, full_chain), nontrivial=nontrivial)
    try:
      ob = S.run_iterate(S.build_chained(
          ops, agg, S.make_source('seq', records), full_chain))
      _compare(st, 'chain', klass, ref, ob.batches, ob.agg, ob.returned, False,
               replay)
    except Exception as e:  # pylint: disable=broad-except
      st.violation(f'C03:chain:raise:{type(e).__name__}',
                   dict(replay, error=repr(e)[:300]), replay=replay)
  # -- leaf shards -------------------------------------------------------------------
  plans = []
  for cuts in groupings:
    for k in range(1, max_shards + 1):
      plans += [('source', cuts, k), ('workers', cuts, k)]
      if not cuts:
        plans += [('make', cuts, k), ('mseq-source', cuts, k),
                  ('iter-source', cuts, k)]
    if not cuts:
      plans += [('make+workers', cuts, kt) for kt in NESTED]
  for via, cuts, k in plans[part[0]::part[1]]:
    replay = dict(base, strategy='shard', via=via, cuts=list(cuts),
                  k=list(k) if isinstance(k, tuple) else k)
    st.case(('sources/shard', via, ops, agg, n, cuts, k), nontrivial=nontrivial)
    try:
      _run_sharded(st, ops, agg, records, cuts, k, via, ref, klass, rows, replay)
    except _Reported:
      pass
    except Exception as e:  # pylint: disable=broad-except
      st.violation(f'C03:shard[{via}]:raise:{type(e).__name__}',
                   dict(replay, error=repr(e)[:300]), replay=replay)
  # -- one record at a time (as many states to merge as records) ----------------------
  if agg and first:
    _check_update_state(st, ops, agg, records, (), ref, klass, base, nontrivial)


def source_programs(quick):
  """-> ([(ops, agg, sizes)], description) of the source-level part."""
  tier = 'quick' if quick else 'thorough'
  plain = QUICK_OPS if quick else S.PLAIN_OPS
  every = tuple(a for a in S.AGGS if a != 'racy')
  lists = S.op_lists(1, plain=plain)
  long_, long_agg = LONG_SIZES[tier], LONG_AGG_SIZES[tier]
  long_ops_agg = LONG_OPS_AGG_SIZES[tier]
  out = [(ops, None, SMALL_SIZES + long_) for ops in lists]
  out += [(ops, 'bag/a', SMALL_SIZES + (long_ops_agg if ops else long_agg))
          for ops in lists]
  out += [((), a, SMALL_SIZES + long_agg) for a in every if a != 'bag/a']
  if not quick:
    out += [(ops, a, SMALL_SIZES + long_ops_agg) for ops in lists if ops
            for a in every
            if a != 'bag/a']
  desc = ('every list of <= 1 operator (%s, r1, r2) without aggregate over n '
          'in %s; the empty list with every aggregate over n in %s; every '
          'list of 1 operator with %s over n in %s'
          % ('/'.join(plain), list(SMALL_SIZES + long_),
             list(SMALL_SIZES + long_agg),
             'aggregate bag/a' if quick else 'every aggregate',
             list(SMALL_SIZES + long_ops_agg)))
  return out, desc


SPLIT_LONG = 3      # work units per (program with aggregate, long size)


def _src_unit(args):
  ops, agg, sizes, part = args
  st = Stats()
  for n in sizes:
    check_sources(st, tuple(ops), agg, n, part=part)
  if sizes[0] == LONG_SIZES['quick'][-1] and not ops and agg is None:
    st.sample({'part': 'source-level strategies, long data source',
               'operators': list(ops), 'aggregate': agg, 'n': sizes[0],
               'read_ahead_window': WINDOW,
               'leaf_shard_lengths': {k: [len(range(sizes[0])[i::k])
                                          for i in range(k)]
                                      for k in range(1, 5)},
               'strategies': 'shards 1..4 via source/make/mseq-source/'
                             'iter-source/workers, make+workers %s'
                             % [list(x) for x in NESTED]})
  return st


def _e3_unit(item):
  kind, args = item
  return _src_unit(args) if kind == 'sources' else _seq_unit(args)


def _seq_unit(args):
  programs, sizes, shard_cuts = args
  st = Stats()
  for ops, agg in programs:
    for n in sizes:
      check_program(st, tuple(ops), agg, n, shard_cuts,
                    iter_source=shard_cuts != 'ends')
  if programs:
    ops, agg = programs[0]
    st.sample({'part': 'sequential strategies', 'operators': list(ops),
               'aggregate': agg, 'records': S.dataset(2),
               'strategies': 'every cut set x shard counts 1..4 x drivers'})
  return st


QUICK_OPS = ('ap', 'aw', 'au', 'sw', 'fi')    # one select form (renaming)


def programs(quick):
  """-> (programs, description).  quick: every operator list with the sliced
  immutable aggregate, the lists of <= 2 operators with every other aggregate
  (and without one); thorough: the full product."""
  every = (None,) + tuple(a for a in S.AGGS if a != 'racy')
  if not quick:
    return ([(ops, agg) for ops in S.op_lists(3) for agg in every],
            'every operator list x aggregate in %s' % [a or 'none' for a in every])
  out = []
  for ops in S.op_lists(3, plain=QUICK_OPS):
    out.append((ops, 'bag/a'))
    if len(ops) <= 2:
      out += [(ops, a) for a in every if a != 'bag/a']
  return out, ('operators %s only; every operator list x aggregate bag/a, '
               'every list of <= 2 operators x aggregate in %s'
               % (list(QUICK_OPS), [a or 'none' for a in every]))


# =============================================================================
# 2. threaded strategies (E1)
# =============================================================================

def thread_configs(tier):
  """[(label, preemption bound, [(harness, params)])]."""
  t = 'threaded'

  def c(**kw):
    return (t, kw)
  # one worker + consumer
  one_deep = [
      c(ops=['ap'], agg='bag', n=2, source='seq', threads=1),
      c(ops=['fi', 'r2'], agg=None, n=3, source='stream', threads=1),
      c(ops=[], agg='metric', n=0, source='seq', threads=1),
  ]
  one = [
      c(ops=['ap'], agg='bag', n=2, source='stream', threads=1),
      c(ops=['fi', 'r2'], agg=None, n=3, source='seq', threads=1),
      c(ops=['aw'], agg='inplace/a', n=2, source='iter', threads=1),
      c(ops=['ap'], agg='bag', n=2, source='seq', cuts=[1, 2], threads={1: 1}),
  ]
  # two workers + consumer
  # the smallest 2-worker configurations: more workers than records over a
  # sharded source (one shard is empty) and over one shared iterator
  two_deep = [
      c(ops=[], agg='bag', n=1, source='seq', threads=2),
  ]
  two_small = [
      c(ops=[], agg='bag', n=1, source='stream', threads=2),
  ]
  two_more = [      # thorough only
      c(ops=[], agg='bag', n=2, source='stream', threads=2),
      c(ops=['ap'], agg=None, n=3, source='seq', threads=2),
      c(ops=['ap'], agg=None, n=3, source='stream', threads=2),
      c(ops=['fi', 'aw'], agg='metric/a', n=4, source='seq', threads=2),
      c(ops=['ap'], agg='bag', n=3, source='stream', cuts=[1, 2], threads=2),
  ]
  two = [
      c(ops=['ap'], agg='bag', n=2, source='seq', threads=2),
      c(ops=['ap'], agg='bag', n=2, source='stream', threads=2),
      c(ops=['ap'], agg=None, n=2, source='stream', threads=2),
      c(ops=['ap', 'fi'], agg='bag/a', n=3, source='seq', threads=2),
      c(ops=['aw'], agg='inplace', n=2, source='iter', threads=2),
      c(ops=['r2'], agg='bag', n=3, source='stream', threads=2),
      # threads in a later stage: the workers share the previous stage's iterator
      c(ops=['ap'], agg='bag', n=2, source='seq', cuts=[1, 2], threads={1: 2}),
      # ... and that previous stage carries the aggregate
      c(ops=['aw'], agg=None, n=2, source='seq', cuts=[1], threads={1: 2},
        agg_first='racy'),
  ]
  # three workers + consumer
  three = [
      c(ops=['ap'], agg='bag', n=3, source='seq', threads=3),
      c(ops=['ap'], agg='bag', n=3, source='stream', threads=3),
      c(ops=['fi'], agg='bag/a', n=4, source='seq', threads=3),
      c(ops=['ap'], agg='bag', n=3, source='seq', cuts=[1, 2], threads={1: 3}),
  ]
  # more records than the stage's output queue holds (buffer_size = 3 x
  # num_threads): the workers meet a full queue and wait for the consumer
  full_one = [
      c(ops=[], agg='bag', n=4, source='seq', threads=1),
      c(ops=[], agg='bag', n=4, source='stream', threads=1),
      c(ops=['aw'], agg='inplace/a', n=4, source='iter', threads=1),
      c(ops=['r2'], agg=None, n=5, source='stream', threads=1),
      c(ops=['ap'], agg='bag', n=4, source='seq', cuts=[1, 2], threads={1: 1}),
  ]
  full_more = [
      c(ops=[], agg='bag', n=7, source='seq', threads=2),
      c(ops=[], agg='bag', n=7, source='stream', threads=2),
  ]
  full = [('1 worker + consumer, more records (4-5) than the output queue '
           'holds (3 x num_threads), preemption bound 1', 1, full_one),
          ('2 workers + consumer, more records (7) than the output queue '
           'holds, preemption bound 0 (free switches at blocking points)', 0,
           full_more)]
  if tier == 'quick':
    return full + [
            ('1 worker + consumer, preemption bound 2', 2, one_deep),
            ('1 worker + consumer, preemption bound 1', 1, one),
            ('2 workers + consumer, preemption bound 1', 1,
             two_deep + two_small + two),
            ('3 workers + consumer, preemption bound 0 (free switches at '
             'blocking points)', 0, three)]
  # thorough.  Measured (one process, happens-before cache): 1 worker at bound
  # 3 = 3*10^4 executions for 2 records; 2 workers at bound 2 = 3*10^4 (1
  # record) / 6-9*10^4 (2 records); 3 workers at bound 1 = 1-2*10^4.
  # (3 workers, 10 records: 2*10^2 executions on a correct tree, but a defect
  # that multiplies the records multiplies the schedules - thorough only,
  # where the runner's deadline applies)
  full[1] = ('2/3 workers + consumer, more records (7/10) than the output '
             'queue holds, preemption bound 0 (free switches at blocking '
             'points)', 0, full_more + [
                 c(ops=[], agg='bag', n=10, source='seq', threads=3),
                 c(ops=[], agg='bag', n=10, source='stream', threads=3)])
  return full + [
          ('1 worker + consumer, preemption bound 3', 3, one_deep[1:]),
          ('1 worker + consumer, preemption bound 2', 2, one_deep[:1] + one),
          ('2 workers + consumer (1 record, sharded source), preemption bound '
           '2 - the shared-iterator configuration costs 4*10^4 and those with '
           '2 or more records 6-9*10^4 executions at bound 2, they stay at '
           'bound 1', 2, two_deep),
          ('2 workers + consumer, preemption bound 1', 1,
           two_small + two + two_more),
          ('3 workers + consumer, preemption bound 1', 1, three[:3]),
          ('3 workers in a later stage + consumer, preemption bound 0 (bound 1 '
           'costs 2*10^4 executions)', 0, three[3:])]


# =============================================================================
# 3. the interleaved stage runner in process
# =============================================================================

def interleaved_configs(tier):
  h = 'interleaved'

  def grid(totals, **kw):
    return [(h, dict(total=total, batch=2, fuse=fuse, pool=False, buf=buf, **kw))
            for total in totals for fuse in (True, False) for buf in (0, 1, 2)]
  if tier == 'quick':
    return [('interleaved stage runner in process, totals 0/1/4 rows, '
             'preemption bound 0', 0, grid((0, 1, 4))),
            ('interleaved stage runner in process, total 4 rows, '
             'delay bound 1', 1, grid((4,), mode='delay'))]
  return [('interleaved stage runner in process, totals 0..5 rows, '
           'preemption bound 0', 0, grid(range(6))),
          ('interleaved stage runner in process, totals 0..5 rows, '
           'delay bound 1', 1, grid(range(6), mode='delay'))]


# =============================================================================

QUICK_E1_BUDGET_S = 1200

SPLIT = {'quick': 2, 'thorough': 1}    # subtrees per E1 configuration (each
                                       # has its own happens-before cache)


def _prepare_all():
  """The E1 work units of both harness families share worker processes; the
  scheduling points of an execution must not depend on which harness a process
  happened to run before, so every unit installs the union of the shims and
  field hooks first."""
  from vmc import cenv
  cenv.prepare()
  sharness.prepare()


def _dfs(item):
  """One E1 work unit: several subtrees (open prefixes) of one configuration,
  explored by one Explorer so that they share one happens-before cache (the
  cache is what keeps the number of executions down; a cache per subtree
  multiplies the work)."""
  _prepare_all()
  module, name, params, bounds, prefixes, limits = item
  ex = explorer.Explorer(explorer._mk(module, name, params),
                         pre_bound=bounds[0], dev_bound=bounds[1],
                         det_checks=1, **limits)
  for prefix in prefixes:
    ex.dfs(prefix)
  st = ex.stats
  st.count('execs:' + name, ex.execs)
  st.count('hb_pruned_nodes', ex.pruned)
  return st


def _seed(item):
  _prepare_all()
  return explorer._seed_unit(item)


def _pool_map(fn, items):
  import multiprocessing as mp
  import os
  from vmc.runner import NCPU, _Caller
  if not items:
    return
  if os.environ.get('VERIF_SERIAL') or len(items) == 1:
    for it in items:
      yield fn(it)
    return
  with mp.get_context('fork').Pool(min(NCPU, len(items))) as pool:
    yield from pool.imap_unordered(_Caller(fn), items)


def run(ctx):
  quick = ctx.quick
  only = getattr(ctx, 'only', None) or ('sequential', 'threads', 'interleaved')
  n_max = 5 if quick else 7
  shard_cuts = 'ends' if quick else 'single'
  progs, progs_desc = programs(quick)
  sprogs, sprogs_desc = source_programs(quick)
  tgroups = thread_configs(ctx.tier)
  igroups = interleaved_configs(ctx.tier)
  ctx.rule = (
      'programs: every list of <= 3 operators from %s (no assign key twice), '
      'plus every list of <= 2 of them followed by a re-batching apply '
      '(batch_size 1 or 2); aggregates: bag = immutable state, inplace = state '
      'mutated in place, metric = as_agg_fn(MergeableMetric), /a = sliced by '
      'feature a, bag+inplace = two aggregates as two groupable elements '
      '(%s); '
      'datasets: n = 0..%d records (batches of %s rows); sequential '
      'strategies: every cut set of [source, ops.., aggregate] into named '
      'stages x whole source, shard counts 1..4 (%s) through '
      'data_source(shard) and (single stage) make(shard=), merged with '
      'merge_states/get_result, and update_state per record (fused and fully '
      'chained); source-level strategies over LONG data sources (sizes that '
      'put 1..4 read-ahead windows of %d elements -1/0/+1 element, and sizes '
      'in no relation to the window, into the source, so that leaf shards of '
      '63/64/65/127/128/129 and 43..100 elements occur in first, middle and '
      'last position; record i is a batch of (2,1,2,1,1,2,1)[i mod 7] rows, '
      'no two rows equal): %s; for each (program, n): fully chained over the '
      'whole source; shard counts k = 1..4 through data_source(ds.shard(i,k)) '
      'and through the data sources a first stage with num_threads=k hands '
      'to its workers (the runner\'s own sharding, each iterated without '
      'threads; both fused and fully chained), through make(shard=), a '
      'SequenceDataSource over 3 sequences (lengths n//3, 0, rest) and a '
      'ShardedIterable (fused); shards of shards make(shard=(i,s)) x '
      'num_threads=t for (s,t) in %s; update_state per record with n states '
      'merged (fused); '
      'threaded strategies (stateless DFS with happens-before '
      'caching over all schedules): %s; interleaved runner: %s. '
      'A case = one (program, dataset, strategy) run resp. one complete '
      'execution (distinct choice sequence)'
      % (list(S.PLAIN_OPS), progs_desc, n_max,
         list(S.ROWS_PER_RECORD[:n_max]),
         'with the fused and the fully chained grouping' if quick
         else 'with the fused, every two-stage and the fully chained grouping',
         WINDOW, sprogs_desc, [list(x) for x in NESTED],
         '; '.join(f'{l} ({len(c)} configurations)' for l, _, c in tgroups),
         '; '.join(f'{l} ({len(c)} configurations)' for l, _, c in igroups)))
  ctx.assumptions += [
      'operator functions are row-wise and deterministic; a filter keeps or '
      'drops a whole record',
      'programs with a re-batching operator are compared on rows when the '
      'strategy moves batch boundaries (shards > 1, threads)',
      'sequential consistency at bytecode granularity (CPython GIL)',
      'a non-shardable data source is not thread-safe by itself: its iterator '
      'has a visible step between reading and advancing its position',
      'make(shard=) is only defined for single-stage transforms (every stage '
      'would receive the shard); chained groupings shard their data source',
  ]
  if 'sequential' in only:
    per = 6 if quick else 3
    units = [('programs', (u, tuple(range(n_max + 1)), shard_cuts))
             for u in enums.chunks(ctx.shuffled(progs),
                                   max(1, len(progs) // per))]
    # source-level part: one unit per (program, long size), the small sizes of
    # a program together; the long units go first (they are the longest)
    src_units = []
    for ops, agg, sizes in sprogs:
      small = tuple(n for n in sizes if n < WINDOW - 1)
      parts = SPLIT_LONG if agg else 1
      src_units += [('sources', (ops, agg, (n,), (i, parts))) for n in sizes
                    if n >= WINDOW - 1 for i in range(parts)]
      if small:
        src_units.append(('sources', (ops, agg, small, (0, 1))))
    src_units.sort(key=lambda u: -sum(u[1][2]))
    ctx.pmap(_e3_unit, src_units + units)
    ctx.notes['programs'] = len(progs)
    ctx.notes['source_level_programs'] = len(sprogs)
    ctx.notes['read_ahead_window'] = WINDOW
  # One work list for both E1 parts, so that every core stays busy: every
  # configuration is first expanded breadth-first into >= SPLIT subtrees.
  seeds = []
  limits = {'max_execs': None, 'time_limit': None, 'hb_cache': True}
  if getattr(ctx, 'deadline', None) is not None:
    # the runner's wall-clock safety net: open subtrees past the deadline are
    # abandoned and reported through ctx.cap (run marked not exhaustive)
    limits['deadline'] = ctx.deadline
  elif quick:
    # the quick tier has no runner deadline; on a correct tree its schedule
    # spaces take minutes even on a loaded machine, but a defect can inflate
    # them without bound (e.g. every worker reading the whole source): past
    # this wall-clock budget open subtrees are abandoned and reported through
    # ctx.cap (the violations found so far are reported as usual)
    import time
    limits['deadline'] = time.time() + QUICK_E1_BUDGET_S
  if 'threads' in only:
    seeds += [('vmc.sharness', n, p, (bound, 0), 2, limits)
              for _, bound, cfgs in tgroups for n, p in cfgs]
  if 'interleaved' in only:
    seeds += [('vmc.charness', n, p, (bound, 0), 2, limits)
              for _, bound, cfgs in igroups for n, p in cfgs]
  work = []
  for st in _pool_map(_seed, seeds):
    # the open prefixes of one configuration, dealt round-robin into <= SPLIT
    # work units
    by_cfg = st.aux
    if by_cfg:
      module, name, params, bounds, _, lim = by_cfg[0]
      prefixes = [x[4] for x in by_cfg]
      k = SPLIT[ctx.tier]
      work += [(module, name, params, bounds, prefixes[i::k], lim)
               for i in range(k) if prefixes[i::k]]
    ctx.merge(st)
  work = ctx.shuffled(work)
  if not quick:
    # under the thorough tier's wall-clock budget the groups are explored in
    # order of increasing bound, so that what the budget cuts is the deepest
    # group and not a cheap one that happened to be dealt last
    work.sort(key=lambda w: w[3][0])
  ctx.pmap(_dfs, work)
  ctx.notes['bounds'] = [[l, len(c)] for l, _, c in tgroups + igroups]
  ctx.notes['hb_cache'] = True
  ctx.sample({'part': 'threaded strategies', 'harness': 'threaded',
              'params': tgroups[1][2][0][1],
              'schedule': 'every choice sequence within the bound'})


def replay(ctx, data):
  r = data['replay']
  if 'harness' in r:
    _prepare_all()
    mod = sharness if r['harness'] == 'threaded' else charness
    h = mod.HARNESSES[r['harness']](**r['params'])
    res, problems = explorer.replay_once(h, r['choices'])
    for e in res.events or []:
      print(e)
    for sig, detail in problems:
      ctx.violation(sig, detail)
    return
  if r.get('space') == 'sources':
    check_sources(ctx, tuple(r['ops']), r['agg'], r['n'])
    return
  check_program(ctx, tuple(r['ops']), r['agg'], r['n'], 'all')
