"""C13 - parallel iteration yields the sequential multiset and releases its threads.

Model checking (E1): piter_multiplex / piter_fn / piter / pmap /
MultiplexIterator run on the virtual thread pool (max_workers honoured, so a
task can start late); the main thread consumes.  Every schedule within the
bound is executed; oracle = multiset of values equals the sequential
evaluation, generator return values collected, and on exhaustion, failure and
early stop every helper thread finishes and the pool shuts down (no deadlock).
"""
from vmc import explorer, pharness

PROPERTY = 'C13'
LEVEL = 'model_checking'
MODULE = 'vmc.pharness'


def configs(tier):
  p = 'par'
  small, mid, big = [], [], []
  # one helper thread + consumer
  for buf in (0, 1):
    small.append((p, dict(driver='multiplex', srcs=[2], buf=buf, workers=1)))
    small.append((p, dict(driver='piter_fn', srcs=[2], buf=buf, workers=1, par=1)))
    small.append((p, dict(driver='pmap', srcs=[2], buf=buf, workers=None, par=1)))
    small.append((p, dict(driver='multiplex', srcs=[2], buf=buf, workers=1, stop=1)))
    small.append((p, dict(driver='multiplex', srcs=[2], buf=buf, workers=1, stop=0)))
    for pos in (0, 1, 2):
      small.append((p, dict(driver='multiplex', srcs=[2], buf=buf, workers=1,
                            fail=[0, pos])))
  small.append((p, dict(driver='MultiplexIterator', srcs=[2], par=1)))
  small.append((p, dict(driver='MultiplexIterator', srcs=[2], par=1, fn=True)))
  small.append((p, dict(driver='MultiplexIterator', srcs=[2], par=1, stop=1)))
  small.append((p, dict(driver='MultiplexIterator', srcs=[2], par=1, fail=[0, 1])))
  small.append((p, dict(driver='MultiplexIterator', srcs=[2], par=0)))
  small.append((p, dict(driver='MultiplexIterator', srcs=[1, 1], par=0, fn=True)))
  small.append((p, dict(driver='multiplex', srcs=[0], buf=1, workers=1)))
  # two helpers + consumer
  for buf in (0, 1):
    for w in (1, 2):
      mid.append((p, dict(driver='multiplex', srcs=[1, 1], buf=buf, workers=w)))
      mid.append((p, dict(driver='multiplex', srcs=[2, 2], buf=buf, workers=w,
                          stop=1)))
      mid.append((p, dict(driver='multiplex', srcs=[1, 2], buf=buf, workers=w,
                          fail=[0, 0])))
    mid.append((p, dict(driver='piter_fn', srcs=[2], buf=buf, workers=2, par=2)))
    mid.append((p, dict(driver='pmap', srcs=[2], buf=buf, workers=None, par=2)))
    mid.append((p, dict(driver='piter', srcs=[1, 1], buf=buf, workers=2, par=1)))
  mid.append((p, dict(driver='MultiplexIterator', srcs=[1, 1], par=1)))
  mid.append((p, dict(driver='MultiplexIterator', srcs=[1, 1], par=2)))
  mid.append((p, dict(driver='MultiplexIterator', srcs=[2], par=2, fn=True)))
  mid.append((p, dict(driver='MultiplexIterator', srcs=[1, 4], par=1, stop=1)))
  mid.append((p, dict(driver='MultiplexIterator', srcs=[2, 2], par=2, stop=1)))
  mid.append((p, dict(driver='MultiplexIterator', srcs=[1, 2], par=2, fail=[0, 0])))
  mid.append((p, dict(driver='MultiplexIterator', srcs=[2, 1], par=1, fail=[0, 1])))
  # a shared input whose __next__ is not atomic (read-modify-write cursor):
  # the workers of one input must exclude each other
  for buf in (0, 1):
    mid.append((p, dict(driver='piter_fn', srcs=[3], buf=buf, workers=2, par=2,
                        src='cursor')))
    mid.append((p, dict(driver='pmap', srcs=[3], buf=buf, workers=None, par=2,
                        src='cursor')))
  mid.append((p, dict(driver='MultiplexIterator', srcs=[3], par=2, fn=True,
                      src='cursor')))
  # more helpers: free switches at blocking points only (bound 0) / bound 1
  big.append((p, dict(driver='piter', srcs=[1, 1], buf=1, workers=3, par=1, fn=True)))
  big.append((p, dict(driver='piter', srcs=[1, 1], buf=0, workers=4, par=2, fn=True)))
  big.append((p, dict(driver='multiplex', srcs=[1, 1, 1], buf=1, workers=2)))
  big.append((p, dict(driver='multiplex', srcs=[1, 1, 1], buf=1, workers=3, stop=1)))
  big.append((p, dict(driver='multiplex', srcs=[1, 2, 2], buf=1, workers=3,
                      fail=[0, 0])))
  big.append((p, dict(driver='MultiplexIterator', srcs=[1, 1, 1], par=3)))
  big.append((p, dict(driver='MultiplexIterator', srcs=[1, 1, 1], par=2, fail=[1, 0])))
  quick = [('1 helper + consumer, preemption bound 2', 2, small),
           ('2 helpers + consumer, preemption bound 1', 1, mid),
           ('3-4 helpers + consumer, preemption bound 0 (free switches at blocking points)', 0, big)]
  if tier == 'quick':
    return quick
  # thorough: the quick groups first, then one more preemption, cheapest group
  # first (the wall-clock budget of the check cuts what does not fit; the cut
  # is reported as a cap)
  core = [c for c in mid if c[1]['driver'] in ('multiplex', 'MultiplexIterator')
          and c[1].get('src', 'gen') == 'gen'][:12]
  return quick + [
      ('3-4 helpers + consumer, preemption bound 1', 1, big),
      ('1 helper + consumer, preemption bound 3', 3, small),
      ('2 helpers + consumer (multiplex / MultiplexIterator), preemption bound 2', 2, core)]


def run(ctx):
  groups = configs(ctx.tier)
  ctx.rule = (
      'stateless DFS (with happens-before caching) over all schedules of the '
      'real piter*/MultiplexIterator drivers on a virtual thread pool within: '
      + '; '.join(f'{label} ({len(cfgs)} configurations)'
                  for label, _, cfgs in groups)
      + '. A case = one complete execution; distinct = distinct choice sequence.')
  ctx.assumptions += [
      'sequential consistency at bytecode granularity (CPython GIL)',
      'thread pool model: a task starts on a new worker while fewer than '
      'max_workers run, otherwise when a worker frees (FIFO)',
  ]
  for label, bound, cfgs in groups:
    explorer.explore_all(ctx, MODULE, cfgs, pre_bound=bound, split=24,
                         hb_cache=True)
  ctx.notes['bounds'] = [[label, len(cfgs)] for label, _, cfgs in groups]
  ctx.notes['hb_cache'] = True
  ctx.sample({'harness': 'par', 'params': groups[1][2][0][1],
              'schedule': 'every choice sequence within the bound'})


def replay(ctx, data):
  r = data['replay']
  h = pharness.ParHarness(**r['params'])
  res, problems = explorer.replay_once(h, r['choices'])
  for e in res.events or []:
    print(e)
  for sig, detail in problems:
    ctx.violation(sig, detail)
