"""C01 - aggregates are invariant to how data is batched and sharded.

Exhaustive small-scope enumeration (E3) on the real accumulators.  For every
entry of the accumulator catalogue (`vmc/oracles/accumulators.py`: every shipped
mergeable accumulator x a configuration set), every dataset of n <= N rows over
the entry's colliding row alphabet, every two-level composition of the dataset
into <= 3 contiguous shards (empty shards allowed anywhere) and of every shard
into >= 1 non-empty batches (plus one empty batch at either end of a shard
where the accumulator accepts empty batches), every order in which the shard
states are merged (order-insensitive accumulators), through both public APIs
(metric.add/merge/result and AggregateFn.create_state/update_state/
merge_states/get_result).

Oracle (differential): one fresh accumulator fed the whole dataset in one
batch; canonicalised results compared with rtol=1e-9, atol=1e-12, NaN==NaN.
"Up to floating-point rounding": every accumulator with a numeric statistic as
result is enumerated a second time over a large-offset alphabet (|value| >>
spread: 1e8 + {0,1,3}, 1.7e9 + {0.1,2.7,5.3}, 2-D mixing large-offset, small,
negative-offset and NaN columns), where algebraically equivalent formulas are
no longer numerically equivalent; tolerances there are per component and
measured (see accumulators.TOL_*).
Non-canonical list-valued configurations (accumulators.py, _build_noncanon):
every accumulator with a list- or mapping-valued configuration is enumerated
again with that configuration not in canonical form - k_list (2,1,3), (2,2,1),
(3,1), (2,1,5) / (2,1) / (3,1,2,1), thresholds (0.5,0) and (0.65,0.25,0,0.25),
vocabulary {'c':0,'a':2,'b':1}, metric-name lists reordered, patterns
('b','ab') - over the ragged alphabets, so that the longest
prediction differs between the batches and shards of a history.
Order-carrying accumulators: equality with the concatenation in shard order.
Reservoir sampler: size, membership (multiset inclusion), reviewed-count.

Second sentence of the property: for metrics whose add() returns per-example
values, every example x every batch of <= 3 examples containing it yields the
value it yields alone.
"""
import itertools as itt

from vmc import enums
from vmc.oracles import accumulators as acc
from vmc.runner import Stats

PROPERTY = 'C01'
LEVEL = 'exploration'

MAX_SHARDS = 3


# ---------------------------------------------------------------------------
# one history
# ---------------------------------------------------------------------------

class _Fail(Exception):

  def __init__(self, stage, exc):
    super().__init__(stage)
    self.stage = stage
    self.exc = exc


def _run_history(d, rows, shard_sizes, batches, perm):
  """Feeds rows per (shard_sizes, batches), merges shards in perm order."""
  states, pos = [], 0
  for bs in batches:
    try:
      s = d.fresh()
    except Exception as e:  # pylint: disable=broad-except
      raise _Fail('create', e) from e
    for b in bs:
      try:
        s = d.add(s, rows[pos:pos + b])
      except Exception as e:  # pylint: disable=broad-except
        raise _Fail('add', e) from e
      pos += b
    states.append(s)
  assert pos == len(rows), (pos, shard_sizes, batches)
  states = [states[i] for i in perm]
  try:
    merged = d.merge_all(states)
  except Exception as e:  # pylint: disable=broad-except
    raise _Fail('merge', e) from e
  try:
    return d.observe(merged)
  except Exception as e:  # pylint: disable=broad-except
    raise _Fail('result', e) from e


def _oracle(d, rows):
  return d.observe(d.add(d.fresh(), rows))


def _drop_empty(shard_sizes, batches, perm):
  """The same history without its empty shards (None if nothing to drop)."""
  keep = [i for i in perm if shard_sizes[i] > 0]
  if len(keep) == len(perm) or not keep:
    return None
  order = sorted(keep)
  return (tuple(shard_sizes[i] for i in order),
          tuple(batches[i] for i in order),
          tuple(order.index(i) for i in keep))


def _drop_empty_batches(shard_sizes, batches, perm):
  if not any(b == 0 for bs in batches for b in bs):
    return None
  return (shard_sizes, tuple(tuple(b for b in bs if b) for bs in batches), perm)


def _raise_class(d, rows, shard_sizes, batches, perm):
  """Smallest ingredient the failure needs: empty batch, empty shard, none."""
  def fails(h):
    try:
      _run_history(d, rows, *h)
      return False
    except _Fail:
      return True
  h = (shard_sizes, batches, perm)
  nb = _drop_empty_batches(*h)
  if nb is not None:
    if not fails(nb):
      return 'needs-empty-batch'
    h = nb
  ns = _drop_empty(*h)
  if ns is not None and not fails(ns):
    return 'needs-empty-shard'
  return 'nonempty-shards'


def check_history(st, e, d, idx, shard_sizes, batches, perm, expected=None):
  """Runs one history and judges it.  idx: alphabet indices of the dataset."""
  rows = e.rows(idx)
  n_batches = sum(len(b) for b in batches)
  case = (e.key, d.api, idx, shard_sizes, batches, perm)
  st.case(case, nontrivial=n_batches > 1 or len(shard_sizes) > 1)
  rp = {'kind': 'history', 'entry': e.key, 'api': d.api, 'rows': idx,
        'shards': shard_sizes, 'batches': batches, 'perm': perm}
  cls = e.input_class(rows)
  tail = f':{cls}' if cls else ''
  if expected is None:
    try:
      expected = _oracle(d, rows)
    except Exception as ex:  # pylint: disable=broad-except
      st.violation(
          f'C01:{e.signame}:{d.api}:one-batch-reference-raises:'
          f'{type(ex).__name__}{tail}',
          {'case': case, 'rows': rows, 'error': repr(ex)[:300]}, replay=rp)
      return
  try:
    got = _run_history(d, rows, shard_sizes, batches, perm)
  except _Fail as f:
    shard_cls = _raise_class(d, rows, shard_sizes, batches, perm)
    st.violation(
        f'C01:{e.signame}:{d.api}:{f.stage}:raise:{type(f.exc).__name__}:'
        f'{shard_cls}{tail}',
        {'case': case, 'rows': rows, 'error': repr(f.exc)[:300],
         'one_batch_result': expected}, replay=rp)
    return
  if e.randomized:
    problems = e.randomized_oracle(got, rows)
  else:
    problems = e.diff_components(got, expected)
  for comp in problems:
    shard_cls = ''
    if 0 in shard_sizes and not e.randomized:
      # attribute the mismatch: does it need the empty (fresh) shard state?
      alt = _drop_empty(shard_sizes, batches, perm)
      if alt is not None:
        try:
          alt_got = _run_history(d, rows, *alt)
          if comp not in e.diff_components(alt_got, expected):
            shard_cls = ':needs-empty-shard'
        except _Fail:
          pass
    st.violation(
        f'C01:{e.signame}:{d.api}:value:{comp}{shard_cls}{tail}',
        {'case': case, 'rows': rows, 'got': got, 'one_batch_result': expected,
         'first_difference': e.diff(got, expected)}, replay=rp)


def _histories(e, n):
  """All (shard_sizes, batches, perm) for a dataset of n rows."""
  for shard_sizes, batches in enums.two_level_compositions(n, MAX_SHARDS):
    s = len(shard_sizes)
    ident = tuple(range(s))
    perms = [ident] if e.order_carrying else list(itt.permutations(range(s)))
    for perm in perms:
      yield shard_sizes, batches, perm
    if e.empty_batch_ok:
      # one empty batch after / before the batches of one shard (identity
      # merge order: the empty batch is absorbed inside its shard)
      for j in range(s):
        yield (shard_sizes,
               batches[:j] + (batches[j] + (0,),) + batches[j + 1:], ident)
        if batches[j]:
          yield (shard_sizes,
                 batches[:j] + ((0,) + batches[j],) + batches[j + 1:], ident)


def _unit(item):
  key, api, datasets = item
  e = acc.entry(key)
  d = e.driver(api)
  st = Stats()
  hist_cache = {}
  for idx in datasets:
    rows = e.rows(idx)
    try:
      expected = _oracle(d, rows)
    except Exception:  # pylint: disable=broad-except
      expected = None   # reported by check_history
    if expected is not None:
      st.outcome((key, acc.digest(expected)))
    n = len(idx)
    if n not in hist_cache:
      hist_cache[n] = list(_histories(e, n))
    for shard_sizes, batches, perm in hist_cache[n]:
      check_history(st, e, d, idx, shard_sizes, batches, perm, expected)
      if expected is None:
        break
  if datasets:
    idx = datasets[-1]
    st.sample({'entry': key, 'api': api, 'dataset': e.rows(idx),
               'histories_per_dataset_of_this_size': len(hist_cache[len(idx)]),
               'example_history': hist_cache[len(idx)][-1]})
  return st


# ---------------------------------------------------------------------------
# second sentence: per-example values do not depend on batch mates
# ---------------------------------------------------------------------------

def check_per_example(st, e, batch_idx, pos, alone_cache=None):
  d = e.driver('metric')
  i = batch_idx[pos]
  case = (e.key, 'per-example', batch_idx, pos)
  st.case(case, nontrivial=len(batch_idx) > 1)
  rp = {'kind': 'per-example', 'entry': e.key, 'batch': batch_idx, 'pos': pos}
  try:
    if alone_cache is not None and i in alone_cache:
      alone = alone_cache[i]
    else:
      alone = e.per_example(d.add_raw(d.fresh(), e.rows((i,))), 0)
      if alone_cache is not None:
        alone_cache[i] = alone
    together = e.per_example(d.add_raw(d.fresh(), e.rows(batch_idx)), pos)
  except Exception as ex:  # pylint: disable=broad-except
    st.violation(f'C01:{e.signame}:per-example:raise:{type(ex).__name__}',
                 {'case': case, 'error': repr(ex)[:300]}, replay=rp)
    return
  st.outcome((e.key, 'pe', acc.digest(together)))
  for comp in acc.diff_components(together, alone):
    st.violation(
        f'C01:{e.signame}:per-example:value-depends-on-batch-mates:{comp}',
        {'case': case, 'example': e.rows((i,)), 'batch': e.rows(batch_idx),
         'position': pos, 'alone': {comp: alone[comp]},
         'in_batch': {comp: together[comp]}}, replay=rp)


def _per_example_unit(key):
  e = acc.entry(key)
  st = Stats()
  cache = {}
  a = range(len(e.alphabet))
  for batch_idx in enums.sequences(a, 3, min_len=1):
    for pos in range(len(batch_idx)):
      check_per_example(st, e, tuple(batch_idx), pos, cache)
  st.sample({'entry': key, 'per_example': True,
             'batches': 'every sequence of <= 3 alphabet rows x every position'})
  return st


# ---------------------------------------------------------------------------

def _bound(e, quick):
  if quick:
    return 3
  return 5 if e.cheap else 4


def run(ctx):
  cat = acc.catalogue(offset=True)
  only = set(getattr(ctx, 'only', None) or ())
  units, n_datasets = [], 0
  for key, e in cat.items():
    if only and e.name not in only and key not in only:
      continue
    nmax = _bound(e, ctx.quick)
    a = range(len(e.alphabet))
    datasets = [tuple(s) for s in enums.sequences(a, nmax, min_len=1)]
    n_datasets += len(datasets)
    for d in e.drivers():
      # N = 5 through the metric API only; the AggregateFn API stops at 4
      top = 4 if (nmax == 5 and d.api == 'aggfn') else nmax
      big = [x for x in datasets if len(x) == top]
      small = [x for x in datasets if len(x) < top]
      chunks = [small] + enums.chunks(big, max(1, len(big) // 9))
      for c in chunks:
        if c:
          units.append((key, d.api, c))
  ctx.rule = (
      'every catalogue entry (accumulator x configuration) x every dataset of '
      '1..N rows over its 3-4 row alphabet (small exact values; plus, for '
      'Mean/MeanAndVariance/Var/MinMaxAndCount/Histogram/'
      'SymmetricPredictionDifference/RRegression(center=False)/MeanState/'
      'TupleMeanState, large-offset alphabets 1e8+{0,1,3}, 1.7e9+{0.1,2.7,5.3}'
      ', 2-D rows mixing a 1e8-offset column, a small column with NaN and a '
      '-3e8-offset column with NaN, as separate catalogue entries; plus, for '
      'every accumulator with a list- or mapping-valued configuration, that '
      'configuration in non-canonical form as separate catalogue entries: '
      f'TopKRetrieval k_list in {acc.NONCANON_K_LISTS} (unsorted, inversion '
      'below the maximum, duplicates, k beyond the longest prediction) over '
      'the ragged alphabet (predictions of length 1..3: the longest row '
      'differs between batches and shards) and (2,1,3) over the equal-length '
      'alphabet (all 17 metrics for (2,1,3) x ragged, otherwise 6 metrics - '
      'one per formula family - named in non-default order); ThresholdedRetrieval thresholds (0.5,0), (0.65,0.25,0,0.25); '
      'ConfusionMatrixAggFn / TopKConfusionMatrixAggFn / '
      'SamplewiseClassification / ClassificationAggFn with vocabulary '
      "{'c':0,'a':2,'b':1} (insertion order != index order != alphabetical), "
      'top-k k_list (2,1), (3,1,2,1), metric lists reordered; '
      'PatternFrequency patterns (b,ab)) (N=3 quick; thorough 4, and 5 for '
      'the cheap scalar families through the metric API) x every two-level composition into <= '
      f'{MAX_SHARDS} contiguous shards (empty shards allowed) and >= 1 non-empty '
      'batches per shard (+ one empty batch before/after a shard where accepted) '
      'x every shard merge order (identity only for order-carrying) x both APIs '
      '(metric add/merge/result; AggregateFn create/update/merge_states/'
      'get_result); plus, for add() with per-example output, every batch of '
      '<= 3 rows x every position; non-trivial = more than one batch or shard; '
      'distinct = distinct (entry, api, dataset, shards, batches, merge order)')
  ctx.assumptions += [
      'small-scope hypothesis: <= N rows, <= 3 shards, alphabets of 3-4 rows',
      'domain: macro average with explicit vocabulary; Histogram with explicit '
      'range or edges; MinMaxAndCount on non-negative data with element-wise '
      'batch_score_fn; non-empty rankings and label sets; Mean family never '
      'receives an empty batch (documented "non-vacant")',
      'alphabet values are small integers / dyadic fractions so that sums are '
      'exact in every order; tolerance rtol=1e-9 atol=1e-12 otherwise',
      'large-offset entries: mean within 1e-13 relative, var within 1e-5 '
      'relative + 1e-9 absolute of the one-batch value (worst deviation of '
      'the unchanged tree over the whole space: mean 2.0e-16, var 9.9e-8), '
      'counts/min/max/histograms exact; RRegression(center=True) is not '
      'enumerated at a large offset (its one-batch result is E[xy]-E[x]E[y] '
      'by construction)',
      'ValueAccumulator without concat_fn stores one value per add(): rows are '
      'fed one per call, only the sharding varies',
      'non-canonical configurations inside the constructors\' domain only: '
      'Histogram edges must increase (numpy raises), PatternFrequency patterns '
      'must be unique (constructor raises), vocabularies are bijections onto '
      '0..n-1, metric names are not repeated',
  ]
  ctx.pmap(_unit, ctx.shuffled(units))
  pe = [k for k, e in cat.items() if e.per_example is not None
        and (not only or e.name in only or k in only)]
  ctx.pmap(_per_example_unit, ctx.shuffled(pe))
  ctx.notes['catalogue_entries'] = len(cat)
  ctx.notes['large_offset_entries'] = sum(e.offset for e in cat.values())
  ctx.notes['noncanonical_config_entries'] = sum(
      e.noncanon for e in cat.values())
  ctx.notes['accumulator_classes'] = len({e.name for e in cat.values()})
  ctx.notes['datasets'] = n_datasets
  ctx.notes['per_example_entries'] = len(pe)


def replay(ctx, data):
  r = data['replay']
  e = acc.entry(r['entry'])
  if r['kind'] == 'per-example':
    check_per_example(ctx, e, tuple(r['batch']), r['pos'])
    return
  d = e.driver(r['api'])
  check_history(ctx, e, d, tuple(r['rows']), tuple(r['shards']),
                tuple(tuple(b) for b in r['batches']), tuple(r['perm']))
