"""C15 - the prefetching generator protocol delivers the generator faithfully.

Model checking (E1+E2): a real PrefetchedCourierServer (prefetch thread, request
handlers, generator lock, IteratorQueue) is driven through the protocol
init_generator / next_batch_from_generator / stop_prefetch / shutdown, both by
calling the bound handlers directly (narrowest seam: prefetch thread vs handler
threads, preemption bounded) and through CourierClient over the fake transport
(delay bounded).  Oracle: the generator as a list + exactly one end marker.
"""
from vmc import charness, explorer

PROPERTY = 'C15'
LEVEL = 'model_checking'
MODULE = 'vmc.charness'


def configs(tier):
  pf = 'prefetch'
  plain, scripted, rpc = [], [], []
  for n in (0, 1, 2):
    for ps in (1, 2):
      for k in (1, 2, 3):
        if n == 0 and k > 1:
          continue
        plain.append((pf, dict(n=n, ps=ps, k=k, direct=True)))
  for fail_at in (0, 1, 2):
    for k in (1, 2):
      plain.append((pf, dict(n=2, ps=1, k=k, fail_at=fail_at, direct=True)))
  plain.append((pf, dict(n=3, ps=2, k=2, direct=True)))
  for at in (0, 1, 2):
    for script in (['reinit', 2], ['async-next-then-reinit', 2], ['stop'],
                   ['shutdown']):
      scripted.append((pf, dict(n=3, ps=1, k=1, script=script, at=at,
                                direct=True)))
  scripted.append((pf, dict(n=3, ps=2, k=2, script=['reinit', 1], at=1,
                            direct=True)))
  scripted.append((pf, dict(n=3, ps=2, k=2, script=['async-next-then-reinit', 2],
                            at=1, direct=True)))
  scripted.append((pf, dict(n=2, ps=1, k=1, fail_at=1, script=['reinit', 1],
                            at=1, direct=True)))
  for kw in (dict(n=2, ps=1, k=1), dict(n=2, ps=2, k=3), dict(n=0, ps=1, k=1),
             dict(n=2, ps=1, k=1, fail_at=1),
             dict(n=3, ps=1, k=1, script=['reinit', 2], at=1),
             dict(n=3, ps=1, k=1, script=['async-next-then-reinit', 2], at=1),
             dict(n=3, ps=1, k=1, script=['stop'], at=1),
             dict(n=3, ps=1, k=1, script=['shutdown'], at=1)):
    rpc.append((pf, dict(mode='delay', **kw)))
  # a request is pending on a slow endless generator when the server is told
  # to shut down (by this client: its pending call is cancelled; by a signal /
  # someone else: the call must be answered with elements + a retriable error);
  # the prefetch thread must end either way
  for how in ('client', 'signal'):
    for ps, k, at in ((1, 2, 0), (1, 2, 1), (2, 3, 1)):
      rpc.append((pf, dict(mode='delay', n=99, ps=ps, k=k, at=at,
                           script=['shutdown-pending', how])))
  quick = [('direct handlers, plain protocol, preemption bound 2', 2, plain),
           ('direct handlers, re-init/stop/shutdown scripts, preemption bound 1', 1, scripted),
           ('CourierClient over fake transport, delay bound 1', 1, rpc)]
  if tier == 'quick':
    return quick
  return quick + [
      ('direct handlers, re-init/stop/shutdown scripts, preemption bound 2', 2, scripted),
      ('direct handlers, plain protocol, preemption bound 3', 3, plain)]


def run(ctx):
  groups = configs(ctx.tier)
  ctx.rule = (
      'stateless DFS (happens-before caching) over all schedules of the real '
      'PrefetchedCourierServer protocol within: '
      + '; '.join(f'{label} ({len(cfgs)} configurations)'
                  for label, _, cfgs in groups)
      + '. Generator length 0-3, prefetch size 1-2, requested batch 1-3, failure '
        'at each position, re-init / stop / shutdown after 0-2 elements; '
        'shutdown (own request / signal) while a request is pending on a slow '
        'endless generator. '
        'A case = one complete execution.')
  ctx.assumptions += [
      'sequential consistency at bytecode granularity (CPython GIL)',
      'fake transport: one handler thread per request; no faults in this check',
  ]
  for label, bound, cfgs in groups:
    explorer.explore_all(ctx, MODULE, cfgs, pre_bound=bound, split=24,
                         hb_cache=True)
  ctx.notes['bounds'] = [[label, len(cfgs)] for label, _, cfgs in groups]
  ctx.notes['hb_cache'] = True
  ctx.sample({'harness': 'prefetch', 'params': groups[1][2][0][1],
              'schedule': 'every choice sequence within the bound'})


def replay(ctx, data):
  r = data['replay']
  h = charness.HARNESSES[r['harness']](**r['params'])
  res, problems = explorer.replay_once(h, r['choices'])
  for e in res.events or []:
    print(e)
  for sig, detail in problems:
    ctx.violation(sig, detail)
