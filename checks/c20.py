"""C20 - worker liveness and ownership bookkeeping stays consistent.

(a) explicit-state BFS over the real WorkerRegistry (register / refresh /
    unregister / get over 2 addresses x 3 time stamps) against a dict model,
    plus every history of liveness events up to a depth (poll, time passing,
    pushed heartbeat, pushed death notice, completed call, server death, client
    shutdown) on a real CourierClient + CourierServer over the fake transport
    with virtual time;
(b) model checking (E1) of acquire/release programs of 2-3 WorkerPools that
    share Worker objects: every schedule within the preemption bound, with the
    ownership invariants evaluated after every operation.
"""
import itertools

from vmc import charness, explorer
from vmc.runner import Stats

PROPERTY = 'C20'
LEVEL = 'model_checking'
MODULE = 'vmc.charness'

ADDRS = ('x', 'y')
TIMES = (1.0, 5.0, 9.0)
REG_OPS = ([('register', a, t) for a in ADDRS for t in TIMES]
           + [('refresh', a, t) for a in ADDRS for t in TIMES]
           + [('unregister', a) for a in ADDRS] + [('get', a) for a in ADDRS])


def _registry_bfs(depth):
  """BFS over registry states; every state is rebuilt by replaying its history
  on a fresh registry; the reference model is a dict (None = declared dead)."""
  from vmc import cenv
  m = cenv.prepare()
  st = Stats()

  def build(hist):
    reg = m.courier_utils.WorkerRegistry()
    ref = {}
    for op in hist:
      _apply(reg, ref, op, st, check=False)
    return reg, ref

  def canon(reg):
    return tuple(sorted((k, v) for k, v in reg.data.items()))

  seen = {canon(build(())[0]): ()}
  frontier = [()]
  for d in range(depth):
    nxt = []
    for hist in frontier:
      for op in REG_OPS:
        reg, ref = build(hist)
        before = {a: reg.get(a) for a in ADDRS}
        problems = _apply(reg, ref, op, st, check=True, before=before)
        st.transitions += 1
        st.case(('registry', hist + (op,)))
        for sig, detail in problems:
          st.violation(sig, {'history': hist + (op,), **detail},
                       replay={'kind': 'registry', 'history': hist + (op,)})
        key = canon(reg)
        st.outcome(key)
        if key not in seen:
          seen[key] = hist + (op,)
          nxt.append(hist + (op,))
    frontier = nxt
  for k in seen:
    st.state(('registry', k))
  st.traces += len(seen)
  st.sample({'driver': 'WorkerRegistry BFS', 'a history': list(seen.values())[-1]})
  return st


def _apply(reg, ref, op, st, check, before=None):
  kind, a = op[0], op[1]
  problems = []
  got = None
  if kind == 'register':
    reg.register(a, op[2]); ref[a] = op[2]
  elif kind == 'refresh':
    reg.refresh(a, op[2])
    if ref.get(a, 0) is not None:
      ref[a] = max(ref.get(a, 0), op[2])
  elif kind == 'unregister':
    reg.unregister(a); ref[a] = None
  else:
    got = reg.get(a)
  if not check:
    return problems
  for b in ADDRS:
    want = ref.get(b, 0) or 0
    have = reg.get(b)
    if have != want:
      problems.append((f'C20:registry:{kind}:value-differs-from-model',
                       {'addr': b, 'have': have, 'want': want}))
    if kind == 'refresh' and before is not None:
      if before[b] == 0 and b in reg.data and reg.data[b] is None and have != 0:
        problems.append(('C20:registry:refresh-revives-dead-worker', {'addr': b}))
      if have < before[b]:
        problems.append(('C20:registry:refresh-moves-heartbeat-backwards',
                         {'addr': b, 'before': before[b], 'after': have}))
    if kind in ('get', 'refresh') and b != a and before is not None \
        and have != before[b]:
      problems.append((f'C20:registry:{kind}:touches-other-address', {'addr': b}))
  try:
    reg['z'] = 1.0
    problems.append(('C20:registry:direct-assignment-allowed', {}))
  except TypeError:
    pass
  return problems


def _liveness_unit(histories):
  st = Stats()
  for ops in histories:
    h = charness.Liveness(ops=ops)
    res = h.run_once([])
    st.traces += 1
    st.transitions += res.steps
    st.states |= res.states
    st.case(('liveness', tuple(ops)))
    st.outcome(tuple((o[1], o[4]) for o in h.obs))
    for sig, detail in h.check(res):
      st.violation(sig, detail, replay={'kind': 'liveness', 'ops': list(ops)})
  if histories:
    st.sample({'driver': 'liveness history', 'ops': list(histories[-1])})
  return st


PROGS = (('acq',), ('acq', 'rel_all'), ('rel_all',), ('acq_all', 'rel_all'),
         ('acq', 'rel_one'), ('acq_all',), ('rel_list',), ('acq', 'rel_list'))


def ownership_configs(tier):
  two = [('ownership', dict(progs=[list(a), list(b)]))
         for a, b in itertools.product(PROGS, PROGS) if a <= b]
  two_w2 = [('ownership', dict(progs=[list(a), list(b)], nworkers=2))
            for a, b in (((('acq_all', 'rel_all')), ('acq_all', 'rel_all')),
                         (('acq', 'acq'), ('rel_all',)),
                         (('acq_all',), ('acq', 'rel_all')))]
  three = [('ownership', dict(progs=[list(a), list(b), list(c)]))
           for a, b, c in ((('acq',), ('acq',), ('rel_all',)),
                           (('acq', 'rel_all'), ('acq', 'rel_all'), ('rel_all',)),
                           (('acq_all', 'rel_all'), ('acq',), ('rel_all',)),
                           (('acq', 'rel_one'), ('acq', 'rel_all'), ('acq_all', 'rel_all')))]
  if tier == 'quick':
    return [('2 pools x 1 worker, preemption bound 2', 2, two),
            ('2 pools x 2 workers, preemption bound 1', 1, two_w2),
            ('3 pools x 1 worker, preemption bound 1', 1, three)]
  return [('2 pools x 1 worker, preemption bound 3', 3, two),
          ('2 pools x 2 workers, preemption bound 2', 2, two_w2),
          ('3 pools x 1 worker, preemption bound 2', 2, three)]


def race_configs(tier):
  a = 'x'
  ops = [('register', a, 5.0), ('refresh', a, 5.0), ('refresh', a, 9.0),
         ('unregister', a), ('get', a)]
  inits = [[], [('register', a, 1.0)], [('unregister', a)]]
  out = []
  for init in inits:
    for o1, o2 in itertools.combinations_with_replacement(ops, 2):
      out.append(('registry_race', dict(init=init, progs=[[o1], [o2]])))
    for o1 in ops[:4]:
      for o2 in ops[:4]:
        out.append(('registry_race',
                    dict(init=init, progs=[[o1, ('get', a)], [o2]])))
  three = [('registry_race', dict(init=[('register', a, 1.0)],
                                  progs=[[('refresh', a, 5.0)], [('unregister', a)],
                                         [('refresh', a, 9.0)]])),
           ('registry_race', dict(init=[('register', a, 1.0)],
                                  progs=[[('refresh', a, 9.0)], [('refresh', a, 5.0)],
                                         [('get', a)]]))]
  return out, three


def run(ctx):
  depth_reg = 4 if ctx.quick else 6
  depth_live = 4 if ctx.quick else 5
  groups = ownership_configs(ctx.tier)
  ctx.rule = (
      f'(a1) explicit-state BFS of WorkerRegistry to depth {depth_reg} over '
      f'{len(REG_OPS)} operations (2 addresses x 3 time stamps), each state '
      'rebuilt by replay and compared with a dict model; '
      f'(a2) every history of <= {depth_live} liveness events from '
      f'{list(charness.LIVENESS_OPS)} on a real client/server pair with virtual '
      f'time; (a3) {len(race_configs(ctx.tier)[0])} two-thread and 2 three-thread '
      'programs of concurrent registry operations (register / refresh / '
      'unregister / get on one address, 3 initial states), every schedule with '
      f'<= {2 if ctx.quick else 3} preemptions, outcome must be linearizable '
      'w.r.t. the dict model; (c) 12 pool-operation configurations '
      '(as_completed / run / call_and_wait x task ok / raising / unsendable) with '
      'every placement of <= 1 transport fault or one orchestrator pause: no worker '
      'stays acquired afterwards; (b) stateless DFS (happens-before caching) of '
      'pool programs: '
      + '; '.join(f'{label} ({len(cfgs)} program tuples)'
                  for label, _, cfgs in groups) + '.')
  ctx.assumptions += [
      'sequential consistency at bytecode granularity (CPython GIL)',
      'workers are kept alive through the registry (no RPC) in the ownership harness',
      'timed events only fire at quiescence (virtual clock)',
  ]
  ctx.merge(_registry_bfs(depth_reg))
  hists = [ops for L in range(0, depth_live + 1)
           for ops in itertools.product(charness.LIVENESS_OPS, repeat=L)]
  chunks = [hists[i::64] for i in range(64) if hists[i::64]]
  ctx.pmap(_liveness_unit, ctx.shuffled(chunks))
  for label, bound, cfgs in groups:
    explorer.explore_all(ctx, MODULE, cfgs, pre_bound=bound, split=8,
                         hb_cache=True)
  # (c) when a pool-level operation returns or raises none of its workers stays
  # acquired: as_completed / run / call_and_wait x {all tasks fine, a task
  # raises, a task cannot be submitted} x <= 1 transport fault, plus a slow
  # orchestrator (one pause at any executed line)
  menu = ['deadline-before', 'deadline-after', 'kill']
  pool_ops = []
  for drv in ('as_completed', 'run', 'call_and_wait'):
    T = 1 if drv == 'call_and_wait' else 2
    pool_ops.append(('as_completed', dict(W=2, T=T, driver=drv, menu=menu)))
    pool_ops.append(('as_completed', dict(W=2, T=T, bad=0, driver=drv, menu=menu)))
    pool_ops.append(('as_completed', dict(W=2, T=T, bad=0, bad_kind='unpicklable',
                                          driver=drv, menu=menu)))
    pool_ops.append(('as_completed', dict(W=2, T=T, bad=T - 1, driver=drv,
                                          pause=True)))
  explorer.explore_all(ctx, MODULE, pool_ops, pre_bound=-1, dev_bound=1, split=8)
  ctx.notes['pool_operation_configurations'] = len(pool_ops)
  races, races3 = race_configs(ctx.tier)
  explorer.explore_all(ctx, MODULE, races, pre_bound=2 if ctx.quick else 3,
                       hb_cache=True)
  explorer.explore_all(ctx, MODULE, races3, pre_bound=1 if ctx.quick else 2,
                       hb_cache=True)
  ctx.notes['registry_race_programs'] = len(races) + len(races3)
  ctx.notes['liveness_histories'] = len(hists)
  ctx.notes['bounds'] = [[label, len(cfgs)] for label, _, cfgs in groups]
  ctx.notes['hb_cache'] = True


def replay(ctx, data):
  r = data['replay']
  if r.get('kind') == 'liveness':
    ctx.merge(_liveness_unit([r['ops']]))
    return
  if r.get('kind') == 'registry':
    from vmc import cenv
    m = cenv.prepare()
    reg, ref = m.courier_utils.WorkerRegistry(), {}
    for op in r['history']:
      before = {a: reg.get(a) for a in ADDRS}
      for sig, detail in _apply(reg, ref, tuple(op), ctx, True, before):
        ctx.violation(sig, detail)
    return
  h = charness.HARNESSES[r['harness']](**r['params'])
  res, problems = explorer.replay_once(h, r['choices'])
  for e in res.events or []:
    print(e)
  for sig, detail in problems:
    ctx.violation(sig, detail)
