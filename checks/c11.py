"""C11 - merge algebra: associative, order-insensitive, fresh state neutral,
operands never damaged; result() repeatable and non-disturbing.

Two exhaustive explorations per entry of the accumulator catalogue
(`vmc/oracles/accumulators.py`), on the real objects:

(A) algebra.  States S(d) for every dataset d of <= 2 alphabet rows (one batch;
    d = () is the fresh state).  Every multiset of k <= K states x every
    bracketing x every permutation (`enums.merge_trees`) must give the same
    canonical result (order-carrying accumulators: every bracketing of the same
    leaf order; reservoir sampler: size / membership / reviewed-count).
    fresh (+) S(d) == S(d) == S(d) (+) fresh for every d.  For every ordered
    pair (d1, d2): after x.merge(y) y still reports its own result; a later
    y.add(b) leaves x's result unchanged and a later x.add(b) leaves y's.

(B) explicit-state BFS over histories of the operations
      x.add(b1) x.add(b2) y.add(b1) y.add(b2) x.merge(y) y.merge(x)
      x.result() y.result()
    on two live accumulators.  A state is the history that reaches it; it is
    rebuilt by replaying the history on fresh objects; states are deduplicated
    by a canonical structural fingerprint of both objects (values rounded to 10
    digits + sharing pattern + caches, `vmc/statefp.py`).  Checked in every
    state: the last operation changed nothing observable on the accumulator
    that was not its receiver (frame condition: merge leaves its operand,
    add leaves the other accumulator - aliasing -, result leaves both);
    result() twice gives equal values; the observable results equal those of
    the same history with all result() calls removed.

Null states.  Besides the states above, every entry contributes the states that
are empty in one component of the accumulator but not in another
(`_null_states`): E = a fresh state that received one add() of an *empty batch*
(entries whose domain includes empty batches), N1 / N2 = states built from one /
two of the entry's *null rows* only (`Entry.null_rows`: rows that advance a
counter / denominator without contributing to the main table - texts shorter
than n words, all-NaN rows, rankings without a hit, out-of-range values, zeros).
Their result() often equals that of a fresh state, so they are only visible as
merge operands next to ordinary states.  They meet every law of (A): identity
on both sides, operand snapshot / aliasing in both positions against every
state, every k = 2 multiset with every state, k = 3 (and 4) multisets with the
states of few rows; and (B) is run a second / third time with b2 replaced by
the null batch resp. the empty batch.
"""
import itertools as itt

from vmc import enums
from vmc import statefp
from vmc.oracles import accumulators as acc
from vmc.runner import Stats

PROPERTY = 'C11'
LEVEL = 'model_checking'


def _obs(d, s):
  """Canonical observable result of a state, or a plain 'raised' record."""
  try:
    return d.observe(s)
  except Exception as ex:  # pylint: disable=broad-except
    return acc.Raised('result', ex).plain()


# Dataset of the state "fresh, then add() of one empty batch".  (The dataset ()
# is the fresh state itself: no add() call at all.)
EMPTY_BATCH = ('<one empty batch>',)


def _rows(e, ds):
  """The rows of a dataset (alphabet / null-row indices, or EMPTY_BATCH)."""
  return () if ds == EMPTY_BATCH else e.rows(ds)


def _build(d, e, idx):
  s = d.fresh()
  if idx:
    s = d.add(s, _rows(e, idx))
  return s


def _datasets(e, max_rows=2):
  return [tuple(s) for s in enums.sequences(range(len(e.alphabet)), max_rows)]


def _null_batch(e):
  """One batch of the null class: first null row, else the empty batch."""
  if e.null_rows:
    return (len(e.alphabet),)
  return () if e.empty_batch_ok else None


def _null_states(e):
  """States that are empty in one component but not in another: E, N1, N2."""
  out = []
  if e.empty_batch_ok:
    out.append(EMPTY_BATCH)
  if e.null_rows:
    n = len(e.alphabet)
    out.append((n,))
    out.append((n, n + len(e.null_rows) - 1))
  return out


def _states(e):
  """Ordinary states first (indices unchanged), then the null states."""
  dsets = _datasets(e)
  return dsets, dsets + _null_states(e)


def _with_null(pool, k, first_null):
  """Multisets of k indices from pool with at least one index >= first_null."""
  return [c for c in itt.combinations_with_replacement(sorted(pool), k)
          if c[-1] >= first_null]


def _leaves(tree):
  if isinstance(tree, tuple):
    return _leaves(tree[0]) + _leaves(tree[1])
  return (tree,)


def _eval_tree(d, e, tree, dsets):
  if isinstance(tree, tuple):
    left = _eval_tree(d, e, tree[0], dsets)
    right = _eval_tree(d, e, tree[1], dsets)
    return d.merge(left, right)
  return _build(d, e, dsets[tree])


def _same(e, a, b, rows):
  """Components in which two canonical results differ (sampler: oracle)."""
  if e.randomized and 'raised' not in a and 'raised' not in b:
    return sorted(set(e.randomized_oracle(a, rows)) |
                  set(e.randomized_oracle(b, rows)))
  return acc.diff_components(a, b)


# ---------------------------------------------------------------------------
# (A) algebra
# ---------------------------------------------------------------------------

def check_trees(st, e, d, dsets):
  """All bracketings x permutations of the merge of the given datasets."""
  k = len(dsets)
  rows = tuple(r for ds in dsets for r in _rows(e, ds))
  cls = e.input_class(rows)
  tail = f':{cls}' if cls else ''
  groups = {}
  for tree in enums.merge_trees(k):
    case = (e.key, d.api, 'tree', dsets, tree)
    st.case(case, nontrivial=sum(1 for ds in dsets if ds) >= 2)
    try:
      got = d.observe(_eval_tree(d, e, tree, dsets))
    except Exception as ex:  # pylint: disable=broad-except
      got = {'raised': type(ex).__name__}
    gkey = _leaves(tree) if e.order_carrying else ()
    if e.order_carrying:
      # equal leaf *datasets* in the same order are the same sequence
      gkey = tuple(dsets[i] for i in gkey)
    if gkey not in groups:
      groups[gkey] = (tree, got)
      continue
    ref_tree, ref = groups[gkey]
    rp = {'kind': 'tree', 'entry': e.key, 'api': d.api, 'datasets': dsets}
    if ('raised' in got) != ('raised' in ref):
      which = got.get('raised') or ref.get('raised')
      st.violation(
          f'C11:{e.signame}:{d.api}:merge-trees:some-groupings-raise:{which}'
          f'{tail}',
          {'case': case, 'tree': tree, 'result': got, 'other_tree': ref_tree,
           'other_result': ref}, replay=rp)
      continue
    if 'raised' in got:
      st.count('merge_trees_all_raising')
      continue
    for comp in _same(e, got, ref, rows):
      st.violation(
          f'C11:{e.signame}:{d.api}:merge-trees:grouping-or-order-changes-result:'
          f'{comp}{tail}',
          {'case': case, 'datasets': [_rows(e, x) for x in dsets], 'tree': tree,
           'result': got, 'other_tree': ref_tree, 'other_result': ref},
          replay=rp)
  for _, got in groups.values():
    st.outcome((e.key, acc.digest(got)))


def check_identity(st, e, d, ds):
  rows = _rows(e, ds)
  cls = e.input_class(rows)
  tail = f':{cls}' if cls else ''
  want = _obs(d, _build(d, e, ds))
  for side in ('fresh-left', 'fresh-right'):
    case = (e.key, d.api, 'identity', side, ds)
    st.case(case, nontrivial=bool(ds))
    rp = {'kind': 'identity', 'entry': e.key, 'api': d.api, 'dataset': ds}
    try:
      if side == 'fresh-left':
        m = d.merge(d.fresh(), _build(d, e, ds))
      else:
        m = d.merge(_build(d, e, ds), d.fresh())
    except Exception as ex:  # pylint: disable=broad-except
      st.violation(
          f'C11:{e.signame}:{d.api}:identity:{side}:merge-raises:'
          f'{type(ex).__name__}{tail}',
          {'case': case, 'rows': rows, 'error': repr(ex)[:300]}, replay=rp)
      continue
    got = _obs(d, m)
    for comp in _same(e, got, want, rows):
      st.violation(
          f'C11:{e.signame}:{d.api}:identity:{side}:result-differs:{comp}{tail}',
          {'case': case, 'rows': rows, 'merged_with_fresh': got, 'alone': want},
          replay=rp)


def _followups(e, d1, d2):
  """Batches of the later add(): b1, b2; + the null batch next to null states."""
  out = list(_bfs_batches(e))
  nulls = _null_states(e)
  if (d1 in nulls or d2 in nulls) and _null_batch(e) is not None:
    out.append(_null_batch(e))
  return out


def check_pair(st, e, d, d1, d2):
  """x = S(d1), y = S(d2): merge must not damage or alias its operand."""
  batches = _followups(e, d1, d2)
  rp = {'kind': 'pair', 'entry': e.key, 'api': d.api, 'd1': d1, 'd2': d2}
  case = (e.key, d.api, 'pair', d1, d2)
  st.case(case, nontrivial=bool(d1) and bool(d2))
  want_y = _obs(d, _build(d, e, d2))
  try:
    x, y = _build(d, e, d1), _build(d, e, d2)
    x = d.merge(x, y)
  except Exception:  # pylint: disable=broad-except
    st.count('pair_merge_raises')
    return
  got_y = _obs(d, y)
  for comp in acc.diff_components(got_y, want_y):
    st.violation(
        f'C11:{e.signame}:{d.api}:merge-damages-operand:{comp}',
        {'case': case, 'x_rows': _rows(e, d1), 'y_rows': _rows(e, d2),
         'y_before': want_y, 'y_after_x.merge(y)': got_y}, replay=rp)
  if e.randomized:
    return   # later results of a reservoir are not comparable value by value
  want_x = _obs(d, d.merge(_build(d, e, d1), _build(d, e, d2)))
  for bi, b in enumerate(batches):
    st.case((e.key, d.api, 'alias', d1, d2, bi))
    # later update of the operand must not reach the receiver
    try:
      x, y = _build(d, e, d1), _build(d, e, d2)
      x = d.merge(x, y)
      y = d.add(y, e.rows(b))
      got = _obs(d, x)
      for comp in acc.diff_components(got, want_x):
        st.violation(
            f'C11:{e.signame}:{d.api}:aliasing:operand-update-leaks-into-'
            f'receiver:{comp}',
            {'case': case, 'x_rows': _rows(e, d1), 'y_rows': _rows(e, d2),
             'then_y_add': e.rows(b), 'x_result_before': want_x,
             'x_result_after': got}, replay=rp)
      # later update of the receiver must not reach the operand
      x, y = _build(d, e, d1), _build(d, e, d2)
      x = d.merge(x, y)
      x = d.add(x, e.rows(b))
      got = _obs(d, y)
      for comp in acc.diff_components(got, want_y):
        st.violation(
            f'C11:{e.signame}:{d.api}:aliasing:receiver-update-leaks-into-'
            f'operand:{comp}',
            {'case': case, 'x_rows': _rows(e, d1), 'y_rows': _rows(e, d2),
             'then_x_add': e.rows(b), 'y_result_before': want_y,
             'y_result_after': got}, replay=rp)
    except Exception:  # pylint: disable=broad-except
      st.count('pair_followup_raises')


def _bfs_batches(e):
  if e.bfs_batches:
    return e.bfs_batches
  n = len(e.alphabet)
  return ((1 % n,), (0, (n - 1)))


def _algebra_unit(item):
  key, api, k, chunk = item
  e = acc.entry(key)
  d = e.driver(api)
  st = Stats()
  dsets, states = _states(e)
  if k == 1:
    nulls = states[len(dsets):]
    for ds in states:
      check_identity(st, e, d, ds)
    for d1 in states:
      for d2 in states:
        check_pair(st, e, d, d1, d2)
    st.sample({'entry': key, 'api': api, 'part': 'identity+operand pairs',
               'states': len(dsets),
               'null_states': [('add(empty batch)' if n == EMPTY_BATCH
                                else _rows(e, n)) for n in nulls]})
    return st
  for combo in chunk:
    check_trees(st, e, d, tuple(states[i] for i in combo))
  if chunk:
    st.sample({'entry': key, 'api': api, 'part': f'merge trees k={k}',
               'example_multiset': [_rows(e, states[i]) for i in chunk[-1]],
               'trees_per_multiset': sum(1 for _ in enums.merge_trees(k))})
  return st


# ---------------------------------------------------------------------------
# (B) explicit-state BFS over add / merge / result histories
# ---------------------------------------------------------------------------

OPS = (('add', 'x', 0), ('add', 'x', 1), ('add', 'y', 0), ('add', 'y', 1),
       ('merge', 'x', 'y'), ('merge', 'y', 'x'), ('result', 'x'),
       ('result', 'y'))


def _replay(d, e, history, batches):
  """Replays a history on two fresh accumulators -> dict(x=, y=).

  Raises whatever the implementation raises.
  """
  s = {'x': d.fresh(), 'y': d.fresh()}
  for op in history:
    if op[0] == 'add':
      s[op[1]] = d.add(s[op[1]], e.rows(batches[op[2]]))
    elif op[0] == 'merge':
      s[op[1]] = d.merge(s[op[1]], s[op[2]])
    else:
      try:
        d.observe(s[op[1]])
      except Exception:  # pylint: disable=broad-except
        pass   # a raising result() is an observation like any other
  return s


def _strip(history):
  return tuple(op for op in history if op[0] != 'result')


def _opname(op):
  if op[0] == 'add':
    return f'{op[1]}.add(b{op[2] + 1})'
  if op[0] == 'merge':
    return f'{op[1]}.merge({op[2]})'
  return f'{op[1]}.result()'


def _bfs_variants(e):
  """(variant, batches): b2 replaced by the null batch / the empty batch."""
  b1 = _bfs_batches(e)[0]
  out = [('base', tuple(_bfs_batches(e)))]
  if e.null_rows:
    out.append(('null', (b1, (len(e.alphabet),))))
  if e.empty_batch_ok:
    out.append(('empty', (b1, ())))
  return out


def bfs(st, e, d, depth, only_history=None, variant='base'):
  batches = dict(_bfs_variants(e))[variant]
  vkey = () if variant == 'base' else (variant,)
  stripped_obs = {}

  def observe_both(s):
    return {'x': _obs(d, s['x']), 'y': _obs(d, s['y'])}

  def obs_of_stripped(h):
    if h not in stripped_obs:
      try:
        stripped_obs[h] = observe_both(_replay(d, e, h, batches))
      except Exception:  # pylint: disable=broad-except
        stripped_obs[h] = None
      st.traces += 1
    return stripped_obs[h]

  def visit(h, parent_obs):
    """Replays h, checks the invariants of the state; -> (fp, obs) or None."""
    st.traces += 1
    try:
      s = _replay(d, e, h, batches)
    except Exception:  # pylint: disable=broad-except
      st.count('bfs_raising_transitions')
      return None
    fp = statefp.fingerprint(s['x'], s['y'])
    obs = observe_both(s)
    obs2 = observe_both(s)
    hist = [_opname(o) for o in h]
    rp = {'kind': 'bfs', 'entry': e.key, 'api': d.api, 'history': h,
          'variant': variant}
    base = f'C11:{e.signame}:{d.api}:bfs'
    for v in ('x', 'y'):
      for comp in acc.diff_components(obs2[v], obs[v]):
        st.violation(f'{base}:result-not-repeatable:{comp}',
                     {'history': hist, 'accumulator': v, 'first': obs[v],
                      'second': obs2[v]}, replay=rp)
    if h and parent_obs is not None:
      op = h[-1]
      receiver = op[1]
      other = 'y' if receiver == 'x' else 'x'
      for comp in acc.diff_components(obs[other], parent_obs[other]):
        what = {'add': 'add-changes-other-accumulator',
                'merge': 'merge-changes-its-operand',
                'result': 'result-changes-other-accumulator'}[op[0]]
        st.violation(f'{base}:{what}:{comp}',
                     {'history': hist, 'changed': other,
                      'before': parent_obs[other], 'after': obs[other]},
                     replay=rp)
      if op[0] == 'result':
        for comp in acc.diff_components(obs[receiver], parent_obs[receiver]):
          st.violation(f'{base}:result-changes-own-result:{comp}',
                       {'history': hist, 'before': parent_obs[receiver],
                        'after': obs[receiver]}, replay=rp)
    if any(op[0] == 'result' for op in h):
      ref = obs_of_stripped(_strip(h))
      if ref is not None:
        for v in ('x', 'y'):
          for comp in acc.diff_components(obs[v], ref[v]):
            st.violation(
                f'{base}:interposed-result-changes-later-result:{comp}',
                {'history': hist, 'accumulator': v, 'with_result_calls': obs[v],
                 'without_result_calls': ref[v]}, replay=rp)
    return fp, obs

  if only_history is not None:     # replay mode: check one history + prefix
    h = tuple(tuple(o) for o in only_history)
    parent = visit(h[:-1], None) if h else None
    visit(h, parent[1] if parent else None)
    return
  root = visit((), None)
  seen = {root[0]}
  st.state((e.key, d.api, root[0]))
  frontier = [((), root[1])]
  max_depth = 0
  for level in range(1, depth + 1):
    nxt = []
    for h, obs_h in frontier:
      for op in OPS:
        st.transitions += 1
        h2 = h + (op,)
        st.case((e.key, d.api, 'bfs') + vkey + (h2,))
        r = visit(h2, obs_h)
        if r is None:
          continue
        fp, obs = r
        if fp in seen:
          continue
        seen.add(fp)
        st.state((e.key, d.api, fp))
        st.outcome((e.key, acc.digest(obs)))
        nxt.append((h2, obs))
        max_depth = level
    frontier = nxt
    if not frontier:
      break
  st.sample({'entry': e.key, 'api': d.api, 'part': 'bfs', 'variant': variant,
             'depth_bound': depth,
             'distinct_states': len(seen), 'batches': [e.rows(b) for b in batches],
             'a_deepest_history': [_opname(o) for o in (frontier[-1][0] if frontier
                                                       else ())]})


def _bfs_unit(item):
  key, api, depth, variant = item
  e = acc.entry(key)
  st = Stats()
  bfs(st, e, e.driver(api), depth, variant=variant)
  return st


def _unit(item):
  if item[0] == 'bfs':
    return _bfs_unit(item[1:])
  return _algebra_unit(item[1:])


# ---------------------------------------------------------------------------

def _primary_api(e):
  return 'metric' if e.factory is not None else 'aggfn'


def run(ctx):
  cat = acc.catalogue()
  only = set(getattr(ctx, 'only', None) or ())
  kmax = 3 if ctx.quick else 4
  depth = 4 if ctx.quick else 5
  alg_units, bfs_units = [], []
  for key, e in cat.items():
    if only and e.name not in only and key not in only:
      continue
    dsets, states = _states(e)
    nd = len(dsets)
    nulls = list(range(nd, len(states)))
    small = [i for i, ds in enumerate(dsets) if all(r < 2 for r in ds)]
    one_row = [i for i, ds in enumerate(dsets) if len(ds) <= 1]
    for d in e.drivers():
      alg_units.append((key, d.api, 1, None))
      for k in range(2, kmax + 1):
        if k <= 3:
          combos = list(itt.combinations_with_replacement(range(nd), k))
          # null states: k = 2 with every state; k = 3 with the states of
          # <= 1 row (quick) / of <= 2 rows over two alphabet rows (thorough)
          partners = (range(nd) if k == 2 else
                      one_row if ctx.quick else sorted(set(one_row + small)))
          combos += _with_null(list(partners) + nulls, k, nd)
        elif d.api != _primary_api(e):
          continue
        else:   # k = 4: states over the first two alphabet rows only
          combos = list(itt.combinations_with_replacement(small, k))
          # null states E, N1 with the states of <= 1 row over those rows
          combos += _with_null([i for i in small if i in one_row] + [
              i for i in nulls if len(states[i]) == 1], k, nd)
        for chunk in enums.chunks(combos, max(1, len(combos) // 150)):
          alg_units.append((key, d.api, k, chunk))
    for variant, _ in _bfs_variants(e):
      bfs_units.append((key, _primary_api(e), depth, variant))
  ctx.rule = (
      'every catalogue entry (accumulator x configuration): (A) states from '
      'every dataset of 0..2 alphabet rows; every multiset of k<=K states x '
      'every bracketing x every permutation (K=3 quick, 4 thorough), identity '
      'laws for every state on both sides, operand snapshot + later add on '
      'either side for every ordered pair of states x 2 batches, through both '
      'APIs; plus the null states of the entry (empty in one component, not in '
      'another: E = add of one empty batch where the domain has empty batches, '
      'N1/N2 = 1/2 null rows only - rows that advance a counter/denominator '
      'but not the main table: too-short / letterless texts, all-NaN rows, '
      'rankings without hit, out-of-range or zero-weight values, zeros, '
      'key-less items): identity laws on both sides; operand snapshot + later '
      'add (b1, b2, null batch) for every ordered pair (null state, any state) '
      'and (any state, null state); every k=2 multiset {null state, any '
      'state}; every k=3 multiset with >=1 null state over null states + '
      'states of <=1 row (thorough: + states of <=2 rows over the first two '
      'alphabet rows); thorough k=4: >=1 of E, N1 + states of <=1 row over the '
      'first two alphabet rows; (B) BFS to depth D (4 quick, 5 thorough) over '
      '{x.add(b1), x.add(b2), y.add(b1), y.add(b2), x.merge(y), y.merge(x), '
      'x.result(), y.result()} on two live accumulators (primary API), states '
      'rebuilt by replay and deduplicated by structural fingerprint; repeated '
      'with b2 := one null row (entries with null rows) and with b2 := the '
      'empty batch (entries with empty batches); non-trivial = at least two '
      'non-fresh states; distinct = distinct (entry, api, law, datasets, '
      'tree) resp. (entry, batch variant, history)')
  ctx.assumptions += [
      'small-scope hypothesis: states of <= 2 rows, <= K operands, histories '
      'of <= D operations, two fixed batches b1 (1 row) and b2 (2 rows; or '
      'one null row; or no row); <= 2 null rows per entry, chosen by reading '
      'each add()/merge() (catalogue: Entry.null_rows); entries whose every '
      'row lands in the one table (Counter, samplers, value accumulators, '
      'MinMaxAndCount, confusion-matrix families) have no null rows',
      'same domain preconditions as C01 (explicit vocabulary for macro, '
      'explicit histogram range/edges, non-negative MinMaxAndCount data, '
      'non-empty rankings)',
      'a merge that raises for every grouping/order of the same states is not '
      'a C11 violation (reported by C01); groupings that disagree about '
      'raising are',
      'BFS states are deduplicated by full structural state (values rounded to '
      '10 digits, sharing pattern, caches), which refines the observable '
      'result; determinism of the accumulators (seeded sampler) is assumed',
  ]
  # BFS units are the longest: start them first, algebra units fill the cores
  ctx.pmap(_unit, [('bfs',) + u for u in ctx.shuffled(bfs_units)] +
           [('alg',) + u for u in ctx.shuffled(alg_units)])
  ctx.notes['catalogue_entries'] = len(cat)
  ctx.notes['bfs_depth'] = depth
  ctx.notes['max_operands'] = kmax
  ctx.notes['entries_with_null_rows'] = sum(
      1 for e in cat.values() if e.null_rows)
  ctx.notes['entries_with_empty_batch_state'] = sum(
      1 for e in cat.values() if e.empty_batch_ok)


def replay(ctx, data):
  r = data['replay']
  e = acc.entry(r['entry'])
  d = e.driver(r['api'])
  tup = lambda x: tuple(tup(i) for i in x) if isinstance(x, (list, tuple)) else x
  if r['kind'] == 'tree':
    check_trees(ctx, e, d, tup(r['datasets']))
  elif r['kind'] == 'identity':
    check_identity(ctx, e, d, tup(r['dataset']))
  elif r['kind'] == 'pair':
    check_pair(ctx, e, d, tup(r['d1']), tup(r['d2']))
  else:
    bfs(ctx, e, d, 0, only_history=tup(r['history']),
        variant=r.get('variant', 'base'))
