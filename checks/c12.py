"""C12 - error skipping drops only failing work; otherwise the first error surfaces.

Fault enumeration (E3): every set F of failing positions of a stream of n
elements x failure location (data source, or one operator of a pipeline of up
to three operators: apply / assign / filter / sink) x exception type x
re-batching options of the failing operator x ignore_error on/off, on the real
`TreeTransform(...).make().iterate(..., ignore_error=)`.

Oracle: vmc/oracles/skip_ref.py, a list interpreter that drops exactly the work
of the failing calls.
  skipping on   output = reference (same order, each once, each output paired
                with its own input), nothing raised, sinks hold exactly the
                surviving writes and are closed;
  skipping off  the call raises, the __cause__/__context__ chain contains the
                injected exception object, the outputs before it are the
                reference outputs of the elements before the failing one,
                nothing is yielded afterwards, sinks are closed.
  resume        (failing data source) state taken after k outputs + from_state
                delivers the remaining outputs exactly once.

Long sources: the reader behind SequenceDataSource reads ahead WINDOW = 64
elements per slice read and falls back to reads of 16, 4, 1 after a failing
read.  `long_source_cases` / `long_operator_cases` add sources of 63..130
(thorough: ..200) elements, whole or as shard i of k <= 3, stored in one or two
members, with the failing positions, shard ends, member boundaries and resume
cuts at and next to the multiples of those windows.

The enumerated programs above run with num_threads = 0.  num_threads 1-2 run
under the deterministic scheduler (E1): `vmc/ckharness.py::SkipThreaded`, driven
from `run()` (failing apply at every failure set |F| <= 2 over 4 records, three
source kinds, skipping on / off).
"""
import itertools as itt

from vmc import enums
from vmc.oracles import skip_ref
from vmc.runner import Stats

PROPERTY = 'C12'
LEVEL = 'fault_enumeration'

KINDS = ('apply', 'assign', 'filter', 'sink')
EXCS = {'ValueError': ValueError, 'TypeError': TypeError, 'KeyError': KeyError}
SOURCE_SKIPPABLE = ('ValueError', 'TypeError')  # iter_utils._IGNORE_ERROR_TYPES
NUM_THREADS = (0,)
REBATCH = ((0, 0), (2, 0), (2, 2))  # (batch_size, fn_batch_size)
# Internal windows of the range reader behind SequenceDataSource, as plain
# numbers (run() reports a cap when the library's constant is another one):
WINDOW = 64       # elements read ahead per slice read
LADDER = (16, 4)  # read sizes after a failing read (a quarter each time), then 1
LONG_N = {True: (63, 64, 65, 100, 129, 130),
          False: (63, 64, 65, 100, 128, 129, 130, 193, 200)}
# quick: (exception, source flag, iterate flag) so that every exception type
# and every expectation mode occurs: skip (both flags; source flag only),
# either, raise
LONG_FLAGS = (('ValueError', True, True), ('ValueError', False, True),
              ('TypeError', True, False), ('KeyError', True, True))


# ---- fixtures (test doubles, not the code under test) ----------------------

class Injector:
  """Raises a fresh exception for work that touches a failing element."""

  def __init__(self, failing, exc):
    self.failing, self.exc, self.raised = frozenset(failing), EXCS[exc], []

  def check(self, x, active):
    rows = skip_ref.rows_of(x)
    if active and any(skip_ref.element_of(r) in self.failing for r in rows):
      # The object is tagged instead of stored: a stored exception keeps its
      # traceback, hence the frames of the whole pipeline, alive.
      e = self.exc(f'injected failure for {x!r}')
      e.verif_injected = len(self.raised)
      self.raised.append(e.verif_injected)
      try:
        raise e
      finally:
        del e  # no frame <-> exception cycle

  def fn(self, k, active):
    def f(x):
      x = _plain(x)
      self.check(x, active)
      return skip_ref.add(x, k)
    return f

  def pred(self, active):
    def p(x):
      x = _plain(x)
      self.check(x, active)
      return skip_ref.keep(x)
    return p


class Sink:

  def __init__(self, injector, active):
    self.injector, self.active, self.data, self.closed = injector, active, [], 0

  def write(self, x):
    x = _plain(x)
    self.injector.check(x, self.active)
    self.data.append(x)

  def close(self):
    self.closed += 1


class FailingSequence:
  """Random-access sequence whose item access raises at the failing positions.

  slices=False: an index-only source (`__getitem__(int)` only; a slice read
  raises TypeError), the documented fall-back mode of the range reader.
  """

  def __init__(self, elements, injector, slices=True):
    self.elements, self.injector, self.slices = elements, injector, slices

  def __len__(self):
    return len(self.elements)

  def __getitem__(self, i):
    if isinstance(i, slice):
      if not self.slices:
        raise TypeError('this source reads one element at a time')
      return [self[j] for j in range(*i.indices(len(self)))]
    if i < 0 or i >= len(self):
      raise IndexError(i)
    self.injector.check(self.elements[i], True)
    return self.elements[i]


def _plain(x):
  if hasattr(x, 'tolist'):
    return x.tolist()
  if isinstance(x, (list, tuple)):
    return [_plain(y) for y in x]
  if isinstance(x, dict):
    return {k: _plain(v) for k, v in x.items()}
  return x


def make_elements(n, w):
  """w = 0: scalars; w >= 1: batches of w rows.  Row = 10 * element + j."""
  return [10 * e if not w else [10 * e + j for j in range(w)] for e in range(n)]


# ---- programs ---------------------------------------------------------------

def programs(max_ops):
  """Plain-data programs; ops[0] is the apply that makes the record."""
  for nops in range(max_ops + 1):
    for kinds in itt.product(KINDS, repeat=nops):
      kinds = ('apply',) + kinds
      if any(a == 'sink' and 'assign' in kinds[i + 1:]
             for i, a in enumerate(kinds)):
        continue  # assign after sink is rejected at build time (SELF + key)
      for nt in NUM_THREADS:
        plain_ops = [dict(kind=kd, k=i, bs=0, fbs=0) for i, kd in enumerate(kinds)]
        for exc in EXCS:
          for srcflag, ignore in itt.product((True, False), repeat=2):
            yield dict(ops=plain_ops, loc='source', fail_at=None, exc=exc,
                       ignore=ignore, srcflag=srcflag, w=0, nt=nt)
        for i, kd in enumerate(kinds):
          modes = [(0, 0, 0)]
          if kd == 'apply':
            modes += [(w, bs, fbs) for w in (1, 2) for bs, fbs in REBATCH]
          if kd == 'assign':  # re-batched outputs must align with the inputs
            modes += [(2, bs, fbs) for bs, fbs in REBATCH]
          for (w, bs, fbs), exc, ignore in itt.product(
              modes, EXCS, (True, False)):
            ops = [dict(op, bs=bs, fbs=fbs) if j == i else op
                   for j, op in enumerate(plain_ops)]
            yield dict(ops=ops, loc=kd, fail_at=i, exc=exc, ignore=ignore,
                       srcflag=None, w=w, nt=nt)


def reads_source(prog):
  """The pipeline starts at a SequenceDataSource (else: iterate(list))."""
  return prog['loc'] == 'source' or bool(prog.get('src'))


def build(prog, injector, sinks):
  from ml_metrics._src.chainables import transform
  t = transform.TreeTransform.new(num_threads=prog['nt'])
  if reads_source(prog):
    from ml_metrics._src.chainables import io
    src = prog.get('src') or {}
    elements, slices = make_elements(prog['n'], prog['w']), src.get('slices', True)
    # the sequence fails only when the source is the failure location; an
    # operator failure over a (long) source reads plain lists
    seq = ((lambda part: FailingSequence(part, injector, slices))
           if prog['loc'] == 'source' else list)
    if src.get('members') is None:
      ds = io.SequenceDataSource(seq(elements),
                                 ignore_error=bool(prog['srcflag']))
    else:
      cuts = [0] + list(itt.accumulate(src['members']))
      assert cuts[-1] == prog['n']
      ds = io.SequenceDataSource.from_sequences(
          [seq(elements[a:b]) for a, b in zip(cuts, cuts[1:])],
          ignore_error=bool(prog['srcflag']))
    if src.get('shard'):
      ds = ds.shard(*src['shard'])
    t = t.data_source(ds)
  for i, op in enumerate(prog['ops']):
    active = i == prog['fail_at']
    rb = dict(batch_size=op['bs'], fn_batch_size=op['fbs'])
    if op['kind'] == 'apply':
      keys = dict(output_keys='x') if i == 0 else dict(
          input_keys='x', output_keys='x')
      t = t.apply(injector.fn(op['k'], active), **keys, **rb)
    elif op['kind'] == 'assign':
      t = t.assign('y%d' % op['k'], fn=injector.fn(op['k'], active),
                   input_keys='x', **rb)
    elif op['kind'] == 'filter':
      t = t.filter(injector.pred(active), input_keys='x')
    else:
      sinks[i] = Sink(injector, active)
      t = t.sink(sinks[i], input_keys='x')
  return t


def chain_of(e):
  """The exceptions a traceback would display: __cause__, else __context__
  unless suppressed (`raise ... from None`)."""
  seen = []
  while e is not None and not any(e is y for y in seen):
    seen.append(e)
    e = e.__cause__ if e.__cause__ is not None else (
        None if e.__suppress_context__ else e.__context__)
  return seen


def observe(prog, failing):
  """Runs the implementation once; returns the observation as plain data."""
  injector = Injector(failing, prog['exc'])
  sinks = {}
  t = build(prog, injector, sinks)
  runner = t.make()
  if reads_source(prog):
    it = runner.iterate(ignore_error=prog['ignore'])
  else:
    it = runner.iterate(make_elements(prog['n'], prog['w']),
                        ignore_error=prog['ignore'])
  outs, after, raised, error, has_cause, open_in_handler = [], [], None, None, False, 0
  try:
    for o in it:
      outs.append(_plain(o))
  except Exception as e:  # pylint: disable=broad-except
    raised, error = type(e).__name__, repr(e)[:300]
    has_cause = any(getattr(x, 'verif_injected', None) in injector.raised
                    for x in chain_of(e))
    open_in_handler = sum(1 for s in sinks.values() if not s.closed)
    for _ in range(2):
      try:
        after.append(_plain(next(it)))
      except StopIteration:
        break
      except Exception:  # pylint: disable=broad-except
        pass
  # The exception object is released here (its traceback keeps the suspended
  # upstream generators alive); the iterator `it` is still referenced.
  obs = dict(
      outs=outs, raised=raised, after=after, has_cause=has_cause,
      written={i: s.data for i, s in sinks.items()},
      closed={i: s.closed for i, s in sinks.items()},
      open_in_handler=open_in_handler, error=error)
  return obs


def source_range(prog):
  """[lo, hi) of the stream elements the pipeline reads."""
  shard = (prog.get('src') or {}).get('shard')
  return skip_ref.shard_range(prog['n'], *shard) if shard else (0, prog['n'])


def expectation(prog, failing):
  """-> (mode, outputs, writes) with mode in clean / skip / raise / either."""
  n, ops = prog['n'], prog['ops']
  lo, hi = source_range(prog)
  # (a row value still names its stream element)
  elements = make_elements(n, prog['w'])[lo:hi]
  if prog['loc'] == 'source':
    failing = [f - lo for f in failing if lo <= f < hi]
    if not failing:
      return ('clean',) + skip_ref.run(elements, ops, None, ())[:2]
    kept = [e for i, e in enumerate(elements) if i not in failing]
    skipped = skip_ref.run(kept, ops, None, ())[:2]
    outs, writes, _ = skip_ref.run(elements[:min(failing)], ops, None, ())
    stopped = (outs, {i: (w, w) for i, w in writes.items()})
    if prog['exc'] in SOURCE_SKIPPABLE and prog['srcflag']:
      return ('skip',) + skipped
    if prog['exc'] in SOURCE_SKIPPABLE and prog['ignore']:
      # skipping requested on the pipeline only: either behaviour is accepted
      return ('either', (skipped, stopped), None)
    return ('raise',) + stopped
  m = skip_ref.first_failure(elements, ops, prog['fail_at'], failing)
  if m is None:
    return ('clean',) + skip_ref.run(elements, ops, prog['fail_at'], failing)[:2]
  if prog['ignore']:
    return ('skip',) + skip_ref.run(elements, ops, prog['fail_at'], failing)[:2]
  outs = skip_ref.run(elements[:m - 1], ops, prog['fail_at'], failing)[0]
  writes = skip_ref.run(elements[:m], ops, prog['fail_at'], failing)[1]
  full = skip_ref.run(elements, ops, prog['fail_at'], failing)[1]
  return 'raise', outs, {i: (w, full[i]) for i, w in writes.items()}


def _diff_class(got, exp):
  if got == exp[:len(got)]:
    return 'later-elements-lost'
  if exp == got[:len(exp)]:
    return 'extra-elements'
  it = iter(got)
  if all(any(g == e for g in it) for e in exp):
    return 'extra-elements'
  it = iter(exp)
  if all(any(g == e for e in it) for g in got):
    return 'elements-lost'
  return 'wrong-elements'


def judge(prog, obs, exp):
  """-> list of (what, info) problems."""
  mode, outs, writes = exp
  rebatched = any(op['bs'] or op['fbs'] for op in prog['ops'])
  problems = []
  if mode == 'either':
    (skipped, stopped) = outs
    a = judge(prog, obs, ('skip',) + skipped)
    b = judge(prog, obs, ('raise',) + stopped)
    return [] if not a or not b else a
  if mode in ('clean', 'skip'):
    if obs['raised']:
      problems.append((f'raises-{obs["raised"]}'
                       + ('' if obs['has_cause'] else '-cause-lost'),
                       obs['error']))
      if obs['outs'] != outs[:len(obs['outs'])]:
        problems.append(('outputs-before-error-wrong', None))
    elif obs['outs'] != outs:
      problems.append((_diff_class(obs['outs'], outs), None))
    if not problems and obs['written'] != writes:
      problems.append(('sink-data', None))
  else:
    if not obs['raised']:
      problems.append(('no-error-surfaces', None))
    else:
      if not obs['has_cause']:
        problems.append((f'cause-lost-{obs["raised"]}', obs['error']))
      if obs['after']:
        problems.append(('yields-after-error', obs['after']))
      ok = (obs['outs'] == outs[:len(obs['outs'])] if rebatched
            else obs['outs'] == outs)
      if not ok:
        problems.append(('outputs-before-error-wrong', None))
      for i, (w, full) in writes.items():
        g = obs['written'].get(i)
        # a re-batching stage may have pulled later elements through a sink
        # upstream of it before the failing call is made
        if not (g == full[:len(g)] if rebatched else g == w):
          problems.append(('sink-data-before-error', None))
  if any(c < 1 for c in obs['closed'].values()):
    problems.append(('sink-not-closed', obs['closed']))
  return problems


def sig_of(prog, what):
  mode = 'skip' if (prog['ignore'] or prog['srcflag']) else 'raise'
  rb = next(('bs=%d,fbs=%d' % (op['bs'], op['fbs']) for op in prog['ops']
             if op['bs'] or op['fbs']), '')
  if not (prog.get('src') or {}).get('slices', True):
    rb = 'index-only-source'
  return f'C12:{mode}:{prog["loc"]}:{what}' + (f':{rb}' if rb else '')


def key_of(prog, failing):
  return (tuple((o['kind'], o['bs'], o['fbs']) for o in prog['ops']),
          prog['loc'], prog['fail_at'], prog['exc'], prog['ignore'],
          prog['srcflag'], prog['w'], prog['nt'], prog['n'], tuple(failing),
          _src_key(prog.get('src')))


def _src_key(src):
  if not src:
    return None
  return (src.get('slices', True),
          None if src.get('members') is None else tuple(src['members']),
          None if not src.get('shard') else tuple(src['shard']))


def run_case(st, prog, failing):
  exp = expectation(prog, failing)
  st.case(('run',) + key_of(prog, failing), nontrivial=exp[0] != 'clean')
  replay = {'prog': prog, 'failing': list(failing)}
  try:
    obs = observe(prog, failing)
  except Exception as e:  # pylint: disable=broad-except
    st.violation(sig_of(prog, f'harness-or-build-error-{type(e).__name__}'),
                 {'error': repr(e)[:300], **replay}, replay=replay)
    return
  st.outcome((exp[0], obs['outs'], obs['raised'], sorted(obs['closed'].items())))
  if obs['open_in_handler']:
    st.count('runs_with_a_sink_still_open_while_the_exception_is_held')
  for what, info in judge(prog, obs, exp):
    st.violation(sig_of(prog, what),
                 {'expected': exp, 'observed': obs, 'info': info, **replay},
                 replay=replay)
  resumable = prog['loc'] == 'source' and not any(
      op['kind'] == 'sink' for op in prog['ops'])
  if prog.get('long'):  # ValueError, both flags on; also when nothing fails
    resumable = (resumable and exp[0] in ('skip', 'clean') and prog['ignore']
                 and prog['srcflag'] and prog['exc'] == 'ValueError')
  elif exp[0] != 'skip':
    resumable = False
  if resumable:
    resume_case(st, prog, failing, exp[1], replay)


def resume_case(st, prog, failing, outs, replay):
  """Checkpoint after `cut` outputs, resume, compare the concatenation."""
  cuts = range(len(outs) + 1)
  if prog.get('long'):
    cuts = long_cuts(len(outs), prog['long'] == 'quick')
  for cut in cuts:
    st.case(('resume', cut) + key_of(prog, failing))
    try:
      injector = Injector(failing, prog['exc'])
      t = build(prog, injector, {})
      it = t.make().iterate(ignore_error=prog['ignore'])
      before = [_plain(next(it)) for _ in range(cut)]
      rest = [_plain(o) for o in t.make().iterate(
          ignore_error=prog['ignore']).from_state(it.state)]
    except Exception as e:  # pylint: disable=broad-except
      st.violation(sig_of(prog, f'resume:raises-{type(e).__name__}'),
                   {'cut': cut, 'error': repr(e)[:300], **replay}, replay=replay)
      continue
    st.outcome(('resume', cut, before, rest))
    if before + rest != outs:
      got = before + rest
      what = ('element-repeated' if len(got) > len(outs) else
              'element-lost' if len(got) < len(outs) else 'wrong-elements')
      st.violation(sig_of(prog, f'resume:{what}'),
                   {'cut': cut, 'before': before, 'rest': rest,
                    'expected': outs, **replay}, replay=replay)


def failure_sets(max_n, max_failures):
  for n in range(max_n + 1):
    for f in enums.subsets(range(n), max_failures):
      yield n, f


def compositions(n, parts):
  """Every way to write n as an ordered sum of `parts` lengths >= 0."""
  if parts == 1:
    return [(n,)]
  return [(a,) + rest for a in range(n + 1)
          for rest in compositions(n - a, parts - 1)]


def source_structures(n, max_members):
  """How the n elements are stored and which part of them is read: sliceable
  or index-only sequences x one plain sequence or `from_sequences` over members
  of every length (0 and 1 included) x the whole source or shard i of k for
  every k <= n + 1 (so that one-element and empty shards occur)."""
  layouts = [None] + [c for m in range(2, max_members + 1)
                      for c in compositions(n, m)]
  for slices, members in itt.product((True, False), layouts):
    for k in range(1, n + 2):
      for i in range(k):
        if slices and members is None and k == 1:
          continue  # the plain source of the main enumeration
        yield dict(slices=slices, members=members,
                   shard=None if k == 1 else (i, k))


# ---- long sources -----------------------------------------------------------

def window_offsets(length, quick):
  """Offsets into a range of `length` elements that is read from its start:
  both ends and their neighbours, and the last / first elements on either
  side of every multiple of the read-ahead window and of its first fall-back
  size (thorough: also of the second fall-back size, and of the first
  fall-back size after one whole window)."""
  marks = [m * WINDOW for m in (1, 2, 3)] + [LADDER[0]]
  if not quick:
    marks += [LADDER[1], WINDOW + LADDER[0]]
  offsets = {0, 1, length - 2, length - 1}
  for b in marks:
    offsets |= {b - 1, b, b + 1}
  return sorted(o for o in offsets if 0 <= o < length)


def long_cuts(m, quick):
  """Numbers of outputs taken before the checkpoint, of m outputs."""
  cuts = {1, WINDOW - 1, WINDOW, WINDOW + 1, m - 1}
  if not quick:
    cuts |= {LADDER[0], 2 * WINDOW, m}
  return sorted(c for c in cuts if 0 <= c <= m)


def long_structures(n, quick):
  """Storage (one sliceable sequence; two members, the first one element
  longer than the window if n allows, else one element; one index-only
  sequence; thorough: more member layouts) x the whole source or shard i of
  k for k <= 3 (quick: k = 3 only for n >= 100; below, the shards of k = 2 are
  already shorter than half a window)."""
  first = WINDOW + 1 if n > WINDOW + 1 else 1
  layouts = [(True, None), (True, (first, n - first)), (False, None)]
  if not quick:
    layouts += [(False, (first, n - first))]
    if n > WINDOW:
      layouts.append((True, (WINDOW, n - WINDOW)))
    if n > WINDOW + 2:
      layouts.append((True, (1, WINDOW + 1, n - WINDOW - 2)))
  for slices, members in layouts:
    for k in (1, 2, 3):
      for i in range(0 if quick and k == 3 and n < 100 else k):
        yield dict(slices=slices, members=members,
                   shard=None if k == 1 else (i, k))


def long_failure_sets(n, src, quick, offsets=None):
  """F = {} / one position / two neighbouring positions of the range read."""
  lo, hi = skip_ref.shard_range(n, *src['shard']) if src['shard'] else (0, n)
  pos = {lo + o for o in (window_offsets(hi - lo, quick) if offsets is None
                          else offsets(hi - lo))}
  for b in list(itt.accumulate(src['members'] or ()))[:-1]:
    pos |= {b - 1, b}  # last / first element of a member
  pos = sorted(p for p in pos if lo <= p < hi)
  yield ()
  for p in pos:
    yield (p,)
  if offsets is None:
    for p in pos:
      # quick: only the pairs across a multiple of the window, and the last two
      if p + 1 in pos and (not quick or (p + 1 - lo) % WINDOW == 0
                           or p + 1 == hi - 1):
        yield (p, p + 1)


def long_source_cases(quick):
  """A failing long source under the first apply."""
  tier = 'quick' if quick else 'thorough'
  base = [p for p in programs(0) if p['loc'] == 'source']
  for n in LONG_N[quick]:
    for src in long_structures(n, quick):
      for failing in long_failure_sets(n, src, quick):
        for p in base:
          flags = (p['exc'], p['srcflag'], p['ignore'])
          if not failing and p['exc'] != 'ValueError':
            continue  # nothing fails: the exception type is never seen
          if failing and quick and flags not in LONG_FLAGS:
            continue
          yield dict(p, n=n, src=src, long=tier), failing


def long_operator_cases(quick):
  """A failing operator (every program of the main enumeration with <= 1
  (thorough: 2) operators after the first apply, ValueError) over a long
  source that does not fail."""
  tier = 'quick' if quick else 'thorough'
  sources = [(2 * WINDOW + 2, None), (2 * WINDOW + 2, (0, 2))]
  if not quick:
    sources += [(WINDOW + 1, None), (2 * WINDOW + 1, (0, 2)), (200, (1, 3))]
  ends = lambda length: [o for o in ((0,) if not quick else ()) + (
      WINDOW - 1, WINDOW, length - 1) if 0 <= o < length]
  for p in programs(1 if quick else 2):
    if p['loc'] == 'source' or p['exc'] != 'ValueError':
      continue
    for n, shard in sources:
      src = dict(slices=True, members=None, shard=shard)
      for failing in long_failure_sets(n, src, quick, offsets=ends):
        yield dict(p, n=n, src=src, long=tier), failing


def _case_unit(cases):
  st = Stats()
  for prog, failing in cases:
    run_case(st, prog, failing)
  if cases:
    prog, failing = cases[-1]
    st.sample({'long source': {k: prog[k] for k in (
        'ops', 'loc', 'exc', 'ignore', 'srcflag', 'w', 'n', 'src')},
               'failing': failing})
  return st


def _unit(args):
  if args[0] == 'cases':
    return _case_unit(args[1])
  progs, cases, max_members = args
  st = Stats()
  for prog in progs:
    for n, failing in cases:
      if not max_members:
        run_case(st, dict(prog, n=n), failing)
        continue
      for src in source_structures(n, max_members):
        run_case(st, dict(prog, n=n, src=src), failing)
  if progs:
    st.sample({'program': progs[0], 'n': cases[-1][0], 'failing': cases[-1][1],
               **({'last source structure': src} if max_members else {})})
  return st


def run(ctx):
  max_ops, max_n, max_f = (2, 5, 2) if ctx.quick else (3, 6, None)
  src_ops, src_members, src_n = (0, 2, 5) if ctx.quick else (1, 3, 5)
  progs = ctx.shuffled(programs(max_ops))
  cases = list(failure_sets(max_n, max_f))
  ctx.rule = (
      f'failure sets F of size {"<= 2" if max_f else "any"} over streams of '
      f'n <= {max_n} elements x pipelines [apply -> record] + <= {max_ops} '
      'operators from {apply, assign, filter, sink} (assign after sink is '
      'rejected at build time) x failure location (the data source: '
      'SequenceDataSource(ignore_error=True/False) over a sequence whose item '
      'access raises; or any one operator) x exception ValueError / TypeError '
      '/ KeyError x iterate(ignore_error=True/False) x for a failing apply: '
      'scalar elements, or batches of 1 or 2 rows with (batch_size, '
      'fn_batch_size) in {(0,0),(2,0),(2,2)}; for a failing assign: scalars, '
      'or batches of 2 rows with the same options; num_threads = 0; plus '
      'checkpoint/resume at every cut for a skipping source; plus the '
      f'source-structure family for a failing source and <= {src_ops} '
      f'operators after the first apply: the n <= {src_n} elements stored '
      'in sliceable or index-only (slice read raises TypeError) sequences x one sequence or '
      f'from_sequences over 2..{src_members} members of every length >= 0 '
      'summing to n x the whole source or shard i of k for every i < k <= '
      'n + 1 (one-element and empty shards occur) x the same F, exception, '
      'ignore_error flags and resume cuts; plus LONG SOURCES (longer than the '
      f'{WINDOW}-element read-ahead of the range reader behind '
      f'SequenceDataSource, which falls back to reads of {LADDER[0]}, '
      f'{LADDER[1]}, 1 after a failing read): n in {list(LONG_N[ctx.quick])} '
      'x storage (one sliceable sequence; two members, the first of '
      f'{WINDOW + 1} elements if n > {WINDOW + 1}, else of 1; one index-only '
      'sequence' + ('' if ctx.quick else
                    '; the two members index-only; members '
                    f'({WINDOW}, n-{WINDOW}); members (1, {WINDOW + 1}, rest)')
      + ') x the whole source or shard i of k for i < k <= 3'
      + (' (k = 3 for n >= 100)' if ctx.quick else '') + ' x F = {} or one '
      'position or two neighbouring positions'
      + (f' (pairs: across a multiple of {WINDOW} from the range start, and '
         'the last two elements)' if ctx.quick else '')
      + ' out of: first two and last two elements of the range read, last / '
      'first element of a member, and b-1, b, b+1 for b in '
      f'{{{WINDOW}, {2 * WINDOW}, {3 * WINDOW}, {LADDER[0]}'
      + ('' if ctx.quick else f', {LADDER[1]}, {WINDOW + LADDER[0]}')
      + '} counted from the range start x '
      + ('(exception, source flag, iterate flag) in ' + ', '.join(
          '%s/%d/%d' % f for f in LONG_FLAGS) if ctx.quick
         else 'every exception and flag combination')
      + ' under the first apply, with resume (ValueError, both flags on, '
      'also for F = {}) '
      f'at the cuts {[c for c in long_cuts(10 ** 6, ctx.quick) if c < 10 ** 5]} and m-1'
      + ('' if ctx.quick else ', m') + ' of m outputs; and a failing '
      f'operator over a long source that does not fail: every program with '
      f'<= {1 if ctx.quick else 2} operators after the first apply, every '
      'failing operator and re-batching option, ValueError, skipping on/off '
      f'x source of {2 * WINDOW + 2} elements or shard 0 of 2 of it'
      + ('' if ctx.quick else f', source of {WINDOW + 1}, shard 0 of 2 of '
         f'{2 * WINDOW + 1}, shard 1 of 3 of 200') + ' x F = {} or one of the '
      'offsets ' + ('' if ctx.quick else '0, ') + f'{WINDOW - 1}, '
      f'{WINDOW}, last of the range read; non-trivial = a '
      'failure is actually reached; distinct = distinct (driver, program, n, F)')
  ctx.assumptions += [
      'any exception raised by an operator function is skippable '
      '(TreeFn.ignore_error: "ignore the error when calling the function"); '
      'in the data source only ValueError and TypeError are',
      'a failing call with fn_batch_size drops the whole call (all its rows)',
      'with re-batching and skipping off only "outputs are a prefix of the '
      'reference" is required, since rows may still sit in a buffer',
      'source failing + SequenceDataSource(ignore_error=False) + '
      'iterate(ignore_error=True): skipping and surfacing are both accepted',
      'assign(batch_size=k) only over input batches of k rows (Appendix A)',
      'sink closure is observed after the caller has released the exception '
      'object (its traceback keeps suspended upstream generators alive) while '
      'still holding the iterator',
      'threads: the enumeration above uses num_threads = 0 (the shards '
      'num_threads would make are read one by one through '
      'SequenceDataSource.shard(i, k)); num_threads 1-2 are explored separately '
      'under the deterministic scheduler for a failing apply over 4 records',
      'a shard delivers the contiguous range of the documented split (first '
      'n mod k shards one element more)',
      'a slice read that raises is not an element failure: it must never '
      'surface nor cost an element (documented fall-back to single reads)',
      'long sources: the window sizes 64 / 16 / 4 are stated in the check '
      '(a cap is reported if the library constant differs); the threaded '
      'variant under the scheduler keeps its 4-record inputs',
  ]
  ctx.notes['programs'] = len(progs)
  ctx.notes['failure_sets'] = len(cases)
  units = [(u, cases, 0) for u in enums.chunks(progs, 64)]
  # the source-structure family: pipelines of <= src_ops extra operators
  src_progs = [p for p in ctx.shuffled(programs(src_ops))
               if p['loc'] == 'source']
  by_n = {}
  for n, f in cases:
    if n <= src_n:
      by_n.setdefault(n, []).append((n, f))
  for p in src_progs:
    for n, cs in sorted(by_n.items()):
      for c in (enums.chunks(cs, 4) if n >= 4 else [cs]):
        units.append(([p], list(c), src_members))
  ctx.notes['source_structure_programs'] = len(src_progs)
  ctx.notes['source_structures_per_n'] = {
      n: sum(1 for _ in source_structures(n, src_members)) for n in by_n}
  # long sources (see the rule); the positions are derived from WINDOW
  from ml_metrics._src.utils import iter_utils
  if getattr(iter_utils, '_RANDOM_ACCESS_BATCH_SIZE', None) != WINDOW:
    ctx.cap(f'the read-ahead of the range reader is no longer {WINDOW}: the '
            'positions of the long-source family do not meet its windows')
  long_src = list(long_source_cases(ctx.quick))
  long_ops = list(long_operator_cases(ctx.quick))
  ctx.notes['long_source_cases'] = len(long_src)
  ctx.notes['long_source_operator_failure_cases'] = len(long_ops)
  units += [('cases', c) for c in enums.chunks(
      long_src + long_ops, max(1, (len(long_src) + len(long_ops)) // 48))]
  ctx.pmap(_unit, ctx.shuffled(units))
  # num_threads in {1, 2} under the deterministic scheduler (E1): a failing
  # operator call at every failure set |F| <= 2 over 4 records, skipping on/off
  from vmc import explorer
  import itertools as itt
  tcfg = []
  for threads in (1, 2):
    for source in ('seq', 'iter', 'stream'):
      for k in (0, 1, 2):
        for fail in itt.combinations(range(4), k):
          for ignore in (True, False):
            if threads == 2 and ctx.quick and (source == 'iter' or k == 2):
              continue
            tcfg.append(('skip_threaded', dict(n=4, threads=threads,
                                               source=source, fail=list(fail),
                                               ignore=ignore)))
  ctx.notes['threaded_configurations'] = len(tcfg)
  one = [c for c in tcfg if c[1]['threads'] == 1]
  two = [c for c in tcfg if c[1]['threads'] == 2]
  explorer.explore_all(ctx, 'vmc.ckharness', one,
                       pre_bound=1 if ctx.quick else 2, hb_cache=True)
  explorer.explore_all(ctx, 'vmc.ckharness', two,
                       pre_bound=0 if ctx.quick else 1, hb_cache=True)


def replay(ctx, data):
  r = data['replay']
  if 'harness' in r:
    from vmc import ckharness, explorer
    h = ckharness.HARNESSES[r['harness']](**r['params'])
    res, problems = explorer.replay_once(h, r['choices'])
    for sig, detail in problems:
      ctx.violation(sig, detail)
    return
  run_case(ctx, r['prog'], tuple(r['failing']))
