"""C12 - error skipping drops only failing work; otherwise the first error surfaces.

Fault enumeration (E3): every set F of failing positions of a stream of n
elements x failure location (data source, or one operator of a pipeline of up
to three operators: apply / assign / filter / sink) x exception type x
re-batching options of the failing operator x ignore_error on/off, on the real
`TreeTransform(...).make().iterate(..., ignore_error=)`.

Oracle: vmc/oracles/skip_ref.py, a list interpreter that drops exactly the work
of the failing calls.
  skipping on   output = reference (same order, each once, each output paired
                with its own input), nothing raised, sinks hold exactly the
                surviving writes and are closed;
  skipping off  the call raises, the __cause__/__context__ chain contains the
                injected exception object, the outputs before it are the
                reference outputs of the elements before the failing one,
                nothing is yielded afterwards, sinks are closed.
  resume        (failing data source) state taken after k outputs + from_state
                delivers the remaining outputs exactly once.

Only num_threads = 0 is enumerated here; `nt` is carried through every program
so that a scheduler-driven variant can add values to NUM_THREADS.
"""
import itertools as itt

from vmc import enums
from vmc.oracles import skip_ref
from vmc.runner import Stats

PROPERTY = 'C12'
LEVEL = 'fault_enumeration'

KINDS = ('apply', 'assign', 'filter', 'sink')
EXCS = {'ValueError': ValueError, 'TypeError': TypeError, 'KeyError': KeyError}
SOURCE_SKIPPABLE = ('ValueError', 'TypeError')  # iter_utils._IGNORE_ERROR_TYPES
NUM_THREADS = (0,)
REBATCH = ((0, 0), (2, 0), (2, 2))  # (batch_size, fn_batch_size)


# ---- fixtures (test doubles, not the code under test) ----------------------

class Injector:
  """Raises a fresh exception for work that touches a failing element."""

  def __init__(self, failing, exc):
    self.failing, self.exc, self.raised = frozenset(failing), EXCS[exc], []

  def check(self, x, active):
    rows = skip_ref.rows_of(x)
    if active and any(skip_ref.element_of(r) in self.failing for r in rows):
      # The object is tagged instead of stored: a stored exception keeps its
      # traceback, hence the frames of the whole pipeline, alive.
      e = self.exc(f'injected failure for {x!r}')
      e.verif_injected = len(self.raised)
      self.raised.append(e.verif_injected)
      try:
        raise e
      finally:
        del e  # no frame <-> exception cycle

  def fn(self, k, active):
    def f(x):
      x = _plain(x)
      self.check(x, active)
      return skip_ref.add(x, k)
    return f

  def pred(self, active):
    def p(x):
      x = _plain(x)
      self.check(x, active)
      return skip_ref.keep(x)
    return p


class Sink:

  def __init__(self, injector, active):
    self.injector, self.active, self.data, self.closed = injector, active, [], 0

  def write(self, x):
    x = _plain(x)
    self.injector.check(x, self.active)
    self.data.append(x)

  def close(self):
    self.closed += 1


class FailingSequence:
  """Random-access sequence whose item access raises at the failing positions.

  slices=False: an index-only source (`__getitem__(int)` only; a slice read
  raises TypeError), the documented fall-back mode of the range reader.
  """

  def __init__(self, elements, injector, slices=True):
    self.elements, self.injector, self.slices = elements, injector, slices

  def __len__(self):
    return len(self.elements)

  def __getitem__(self, i):
    if isinstance(i, slice):
      if not self.slices:
        raise TypeError('this source reads one element at a time')
      return [self[j] for j in range(*i.indices(len(self)))]
    if i < 0 or i >= len(self):
      raise IndexError(i)
    self.injector.check(self.elements[i], True)
    return self.elements[i]


def _plain(x):
  if hasattr(x, 'tolist'):
    return x.tolist()
  if isinstance(x, (list, tuple)):
    return [_plain(y) for y in x]
  if isinstance(x, dict):
    return {k: _plain(v) for k, v in x.items()}
  return x


def make_elements(n, w):
  """w = 0: scalars; w >= 1: batches of w rows.  Row = 10 * element + j."""
  return [10 * e if not w else [10 * e + j for j in range(w)] for e in range(n)]


# ---- programs ---------------------------------------------------------------

def programs(max_ops):
  """Plain-data programs; ops[0] is the apply that makes the record."""
  for nops in range(max_ops + 1):
    for kinds in itt.product(KINDS, repeat=nops):
      kinds = ('apply',) + kinds
      if any(a == 'sink' and 'assign' in kinds[i + 1:]
             for i, a in enumerate(kinds)):
        continue  # assign after sink is rejected at build time (SELF + key)
      for nt in NUM_THREADS:
        plain_ops = [dict(kind=kd, k=i, bs=0, fbs=0) for i, kd in enumerate(kinds)]
        for exc in EXCS:
          for srcflag, ignore in itt.product((True, False), repeat=2):
            yield dict(ops=plain_ops, loc='source', fail_at=None, exc=exc,
                       ignore=ignore, srcflag=srcflag, w=0, nt=nt)
        for i, kd in enumerate(kinds):
          modes = [(0, 0, 0)]
          if kd == 'apply':
            modes += [(w, bs, fbs) for w in (1, 2) for bs, fbs in REBATCH]
          if kd == 'assign':  # re-batched outputs must align with the inputs
            modes += [(2, bs, fbs) for bs, fbs in REBATCH]
          for (w, bs, fbs), exc, ignore in itt.product(
              modes, EXCS, (True, False)):
            ops = [dict(op, bs=bs, fbs=fbs) if j == i else op
                   for j, op in enumerate(plain_ops)]
            yield dict(ops=ops, loc=kd, fail_at=i, exc=exc, ignore=ignore,
                       srcflag=None, w=w, nt=nt)


def build(prog, injector, sinks):
  from ml_metrics._src.chainables import transform
  t = transform.TreeTransform.new(num_threads=prog['nt'])
  if prog['loc'] == 'source':
    from ml_metrics._src.chainables import io
    src = prog.get('src') or {}
    elements, slices = make_elements(prog['n'], prog['w']), src.get('slices', True)
    if src.get('members') is None:
      ds = io.SequenceDataSource(FailingSequence(elements, injector, slices),
                                 ignore_error=prog['srcflag'])
    else:
      cuts = [0] + list(itt.accumulate(src['members']))
      assert cuts[-1] == prog['n']
      ds = io.SequenceDataSource.from_sequences(
          [FailingSequence(elements[a:b], injector, slices)
           for a, b in zip(cuts, cuts[1:])], ignore_error=prog['srcflag'])
    if src.get('shard'):
      ds = ds.shard(*src['shard'])
    t = t.data_source(ds)
  for i, op in enumerate(prog['ops']):
    active = i == prog['fail_at']
    rb = dict(batch_size=op['bs'], fn_batch_size=op['fbs'])
    if op['kind'] == 'apply':
      keys = dict(output_keys='x') if i == 0 else dict(
          input_keys='x', output_keys='x')
      t = t.apply(injector.fn(op['k'], active), **keys, **rb)
    elif op['kind'] == 'assign':
      t = t.assign('y%d' % op['k'], fn=injector.fn(op['k'], active),
                   input_keys='x', **rb)
    elif op['kind'] == 'filter':
      t = t.filter(injector.pred(active), input_keys='x')
    else:
      sinks[i] = Sink(injector, active)
      t = t.sink(sinks[i], input_keys='x')
  return t


def chain_of(e):
  """The exceptions a traceback would display: __cause__, else __context__
  unless suppressed (`raise ... from None`)."""
  seen = []
  while e is not None and not any(e is y for y in seen):
    seen.append(e)
    e = e.__cause__ if e.__cause__ is not None else (
        None if e.__suppress_context__ else e.__context__)
  return seen


def observe(prog, failing):
  """Runs the implementation once; returns the observation as plain data."""
  injector = Injector(failing, prog['exc'])
  sinks = {}
  t = build(prog, injector, sinks)
  runner = t.make()
  if prog['loc'] == 'source':
    it = runner.iterate(ignore_error=prog['ignore'])
  else:
    it = runner.iterate(make_elements(prog['n'], prog['w']),
                        ignore_error=prog['ignore'])
  outs, after, raised, error, has_cause, open_in_handler = [], [], None, None, False, 0
  try:
    for o in it:
      outs.append(_plain(o))
  except Exception as e:  # pylint: disable=broad-except
    raised, error = type(e).__name__, repr(e)[:300]
    has_cause = any(getattr(x, 'verif_injected', None) in injector.raised
                    for x in chain_of(e))
    open_in_handler = sum(1 for s in sinks.values() if not s.closed)
    for _ in range(2):
      try:
        after.append(_plain(next(it)))
      except StopIteration:
        break
      except Exception:  # pylint: disable=broad-except
        pass
  # The exception object is released here (its traceback keeps the suspended
  # upstream generators alive); the iterator `it` is still referenced.
  obs = dict(
      outs=outs, raised=raised, after=after, has_cause=has_cause,
      written={i: s.data for i, s in sinks.items()},
      closed={i: s.closed for i, s in sinks.items()},
      open_in_handler=open_in_handler, error=error)
  return obs


def expectation(prog, failing):
  """-> (mode, outputs, writes) with mode in clean / skip / raise / either."""
  n, ops = prog['n'], prog['ops']
  elements = make_elements(n, prog['w'])
  if prog['loc'] == 'source':
    lo, hi = 0, n
    if (prog.get('src') or {}).get('shard'):
      lo, hi = skip_ref.shard_range(n, *prog['src']['shard'])
    elements = elements[lo:hi]   # (a row value still names its stream element)
    failing = [f - lo for f in failing if lo <= f < hi]
    if not failing:
      return ('clean',) + skip_ref.run(elements, ops, None, ())[:2]
    kept = [e for i, e in enumerate(elements) if i not in failing]
    skipped = skip_ref.run(kept, ops, None, ())[:2]
    outs, writes, _ = skip_ref.run(elements[:min(failing)], ops, None, ())
    stopped = (outs, {i: (w, w) for i, w in writes.items()})
    if prog['exc'] in SOURCE_SKIPPABLE and prog['srcflag']:
      return ('skip',) + skipped
    if prog['exc'] in SOURCE_SKIPPABLE and prog['ignore']:
      # skipping requested on the pipeline only: either behaviour is accepted
      return ('either', (skipped, stopped), None)
    return ('raise',) + stopped
  m = skip_ref.first_failure(elements, ops, prog['fail_at'], failing)
  if m is None:
    return ('clean',) + skip_ref.run(elements, ops, prog['fail_at'], failing)[:2]
  if prog['ignore']:
    return ('skip',) + skip_ref.run(elements, ops, prog['fail_at'], failing)[:2]
  outs = skip_ref.run(elements[:m - 1], ops, prog['fail_at'], failing)[0]
  writes = skip_ref.run(elements[:m], ops, prog['fail_at'], failing)[1]
  full = skip_ref.run(elements, ops, prog['fail_at'], failing)[1]
  return 'raise', outs, {i: (w, full[i]) for i, w in writes.items()}


def _diff_class(got, exp):
  if got == exp[:len(got)]:
    return 'later-elements-lost'
  if exp == got[:len(exp)]:
    return 'extra-elements'
  it = iter(got)
  if all(any(g == e for g in it) for e in exp):
    return 'extra-elements'
  it = iter(exp)
  if all(any(g == e for e in it) for g in got):
    return 'elements-lost'
  return 'wrong-elements'


def judge(prog, obs, exp):
  """-> list of (what, info) problems."""
  mode, outs, writes = exp
  rebatched = any(op['bs'] or op['fbs'] for op in prog['ops'])
  problems = []
  if mode == 'either':
    (skipped, stopped) = outs
    a = judge(prog, obs, ('skip',) + skipped)
    b = judge(prog, obs, ('raise',) + stopped)
    return [] if not a or not b else a
  if mode in ('clean', 'skip'):
    if obs['raised']:
      problems.append((f'raises-{obs["raised"]}'
                       + ('' if obs['has_cause'] else '-cause-lost'),
                       obs['error']))
      if obs['outs'] != outs[:len(obs['outs'])]:
        problems.append(('outputs-before-error-wrong', None))
    elif obs['outs'] != outs:
      problems.append((_diff_class(obs['outs'], outs), None))
    if not problems and obs['written'] != writes:
      problems.append(('sink-data', None))
  else:
    if not obs['raised']:
      problems.append(('no-error-surfaces', None))
    else:
      if not obs['has_cause']:
        problems.append((f'cause-lost-{obs["raised"]}', obs['error']))
      if obs['after']:
        problems.append(('yields-after-error', obs['after']))
      ok = (obs['outs'] == outs[:len(obs['outs'])] if rebatched
            else obs['outs'] == outs)
      if not ok:
        problems.append(('outputs-before-error-wrong', None))
      for i, (w, full) in writes.items():
        g = obs['written'].get(i)
        # a re-batching stage may have pulled later elements through a sink
        # upstream of it before the failing call is made
        if not (g == full[:len(g)] if rebatched else g == w):
          problems.append(('sink-data-before-error', None))
  if any(c < 1 for c in obs['closed'].values()):
    problems.append(('sink-not-closed', obs['closed']))
  return problems


def sig_of(prog, what):
  mode = 'skip' if (prog['ignore'] or prog['srcflag']) else 'raise'
  rb = next(('bs=%d,fbs=%d' % (op['bs'], op['fbs']) for op in prog['ops']
             if op['bs'] or op['fbs']), '')
  if not (prog.get('src') or {}).get('slices', True):
    rb = 'index-only-source'
  return f'C12:{mode}:{prog["loc"]}:{what}' + (f':{rb}' if rb else '')


def key_of(prog, failing):
  return (tuple((o['kind'], o['bs'], o['fbs']) for o in prog['ops']),
          prog['loc'], prog['fail_at'], prog['exc'], prog['ignore'],
          prog['srcflag'], prog['w'], prog['nt'], prog['n'], tuple(failing),
          _src_key(prog.get('src')))


def _src_key(src):
  if not src:
    return None
  return (src.get('slices', True),
          None if src.get('members') is None else tuple(src['members']),
          None if not src.get('shard') else tuple(src['shard']))


def run_case(st, prog, failing):
  exp = expectation(prog, failing)
  st.case(('run',) + key_of(prog, failing), nontrivial=exp[0] != 'clean')
  replay = {'prog': prog, 'failing': list(failing)}
  try:
    obs = observe(prog, failing)
  except Exception as e:  # pylint: disable=broad-except
    st.violation(sig_of(prog, f'harness-or-build-error-{type(e).__name__}'),
                 {'error': repr(e)[:300], **replay}, replay=replay)
    return
  st.outcome((exp[0], obs['outs'], obs['raised'], sorted(obs['closed'].items())))
  if obs['open_in_handler']:
    st.count('runs_with_a_sink_still_open_while_the_exception_is_held')
  for what, info in judge(prog, obs, exp):
    st.violation(sig_of(prog, what),
                 {'expected': exp, 'observed': obs, 'info': info, **replay},
                 replay=replay)
  if exp[0] == 'skip' and prog['loc'] == 'source' and not any(
      op['kind'] == 'sink' for op in prog['ops']):
    resume_case(st, prog, failing, exp[1], replay)


def resume_case(st, prog, failing, outs, replay):
  """Checkpoint after `cut` outputs, resume, compare the concatenation."""
  for cut in range(len(outs) + 1):
    st.case(('resume', cut) + key_of(prog, failing))
    try:
      injector = Injector(failing, prog['exc'])
      t = build(prog, injector, {})
      it = t.make().iterate(ignore_error=prog['ignore'])
      before = [_plain(next(it)) for _ in range(cut)]
      rest = [_plain(o) for o in t.make().iterate(
          ignore_error=prog['ignore']).from_state(it.state)]
    except Exception as e:  # pylint: disable=broad-except
      st.violation(sig_of(prog, f'resume:raises-{type(e).__name__}'),
                   {'cut': cut, 'error': repr(e)[:300], **replay}, replay=replay)
      continue
    st.outcome(('resume', cut, before, rest))
    if before + rest != outs:
      got = before + rest
      what = ('element-repeated' if len(got) > len(outs) else
              'element-lost' if len(got) < len(outs) else 'wrong-elements')
      st.violation(sig_of(prog, f'resume:{what}'),
                   {'cut': cut, 'before': before, 'rest': rest,
                    'expected': outs, **replay}, replay=replay)


def failure_sets(max_n, max_failures):
  for n in range(max_n + 1):
    for f in enums.subsets(range(n), max_failures):
      yield n, f


def compositions(n, parts):
  """Every way to write n as an ordered sum of `parts` lengths >= 0."""
  if parts == 1:
    return [(n,)]
  return [(a,) + rest for a in range(n + 1)
          for rest in compositions(n - a, parts - 1)]


def source_structures(n, max_members):
  """How the n elements are stored and which part of them is read: sliceable
  or index-only sequences x one plain sequence or `from_sequences` over members
  of every length (0 and 1 included) x the whole source or shard i of k for
  every k <= n + 1 (so that one-element and empty shards occur)."""
  layouts = [None] + [c for m in range(2, max_members + 1)
                      for c in compositions(n, m)]
  for slices, members in itt.product((True, False), layouts):
    for k in range(1, n + 2):
      for i in range(k):
        if slices and members is None and k == 1:
          continue  # the plain source of the main enumeration
        yield dict(slices=slices, members=members,
                   shard=None if k == 1 else (i, k))


def _unit(args):
  progs, cases, max_members = args
  st = Stats()
  for prog in progs:
    for n, failing in cases:
      if not max_members:
        run_case(st, dict(prog, n=n), failing)
        continue
      for src in source_structures(n, max_members):
        run_case(st, dict(prog, n=n, src=src), failing)
  if progs:
    st.sample({'program': progs[0], 'n': cases[-1][0], 'failing': cases[-1][1],
               **({'last source structure': src} if max_members else {})})
  return st


def run(ctx):
  max_ops, max_n, max_f = (2, 5, 2) if ctx.quick else (3, 6, None)
  src_ops, src_members, src_n = (0, 2, 5) if ctx.quick else (1, 3, 5)
  progs = ctx.shuffled(programs(max_ops))
  cases = list(failure_sets(max_n, max_f))
  ctx.rule = (
      f'failure sets F of size {"<= 2" if max_f else "any"} over streams of '
      f'n <= {max_n} elements x pipelines [apply -> record] + <= {max_ops} '
      'operators from {apply, assign, filter, sink} (assign after sink is '
      'rejected at build time) x failure location (the data source: '
      'SequenceDataSource(ignore_error=True/False) over a sequence whose item '
      'access raises; or any one operator) x exception ValueError / TypeError '
      '/ KeyError x iterate(ignore_error=True/False) x for a failing apply: '
      'scalar elements, or batches of 1 or 2 rows with (batch_size, '
      'fn_batch_size) in {(0,0),(2,0),(2,2)}; for a failing assign: scalars, '
      'or batches of 2 rows with the same options; num_threads = 0; plus '
      'checkpoint/resume at every cut for a skipping source; plus the '
      f'source-structure family for a failing source and <= {src_ops} '
      f'operators after the first apply: the n <= {src_n} elements stored '
      'in sliceable or index-only (slice read raises TypeError) sequences x one sequence or '
      f'from_sequences over 2..{src_members} members of every length >= 0 '
      'summing to n x the whole source or shard i of k for every i < k <= '
      'n + 1 (one-element and empty shards occur) x the same F, exception, '
      'ignore_error flags and resume cuts; non-trivial = a '
      'failure is actually reached; distinct = distinct (driver, program, n, F)')
  ctx.assumptions += [
      'any exception raised by an operator function is skippable '
      '(TreeFn.ignore_error: "ignore the error when calling the function"); '
      'in the data source only ValueError and TypeError are',
      'a failing call with fn_batch_size drops the whole call (all its rows)',
      'with re-batching and skipping off only "outputs are a prefix of the '
      'reference" is required, since rows may still sit in a buffer',
      'source failing + SequenceDataSource(ignore_error=False) + '
      'iterate(ignore_error=True): skipping and surfacing are both accepted',
      'assign(batch_size=k) only over input batches of k rows (Appendix A)',
      'sink closure is observed after the caller has released the exception '
      'object (its traceback keeps suspended upstream generators alive) while '
      'still holding the iterator',
      'threads: the enumeration above uses num_threads = 0 (the shards '
      'num_threads would make are read one by one through '
      'SequenceDataSource.shard(i, k)); num_threads 1-2 are explored separately '
      'under the deterministic scheduler for a failing apply over 4 records',
      'a shard delivers the contiguous range of the documented split (first '
      'n mod k shards one element more)',
      'a slice read that raises is not an element failure: it must never '
      'surface nor cost an element (documented fall-back to single reads)',
  ]
  ctx.notes['programs'] = len(progs)
  ctx.notes['failure_sets'] = len(cases)
  units = [(u, cases, 0) for u in enums.chunks(progs, 64)]
  # the source-structure family: pipelines of <= src_ops extra operators
  src_progs = [p for p in ctx.shuffled(programs(src_ops))
               if p['loc'] == 'source']
  by_n = {}
  for n, f in cases:
    if n <= src_n:
      by_n.setdefault(n, []).append((n, f))
  for p in src_progs:
    for n, cs in sorted(by_n.items()):
      for c in (enums.chunks(cs, 4) if n >= 4 else [cs]):
        units.append(([p], list(c), src_members))
  ctx.notes['source_structure_programs'] = len(src_progs)
  ctx.notes['source_structures_per_n'] = {
      n: sum(1 for _ in source_structures(n, src_members)) for n in by_n}
  ctx.pmap(_unit, ctx.shuffled(units))
  # num_threads in {1, 2} under the deterministic scheduler (E1): a failing
  # operator call at every failure set |F| <= 2 over 4 records, skipping on/off
  from vmc import explorer
  import itertools as itt
  tcfg = []
  for threads in (1, 2):
    for source in ('seq', 'iter', 'stream'):
      for k in (0, 1, 2):
        for fail in itt.combinations(range(4), k):
          for ignore in (True, False):
            if threads == 2 and ctx.quick and (source == 'iter' or k == 2):
              continue
            tcfg.append(('skip_threaded', dict(n=4, threads=threads,
                                               source=source, fail=list(fail),
                                               ignore=ignore)))
  ctx.notes['threaded_configurations'] = len(tcfg)
  one = [c for c in tcfg if c[1]['threads'] == 1]
  two = [c for c in tcfg if c[1]['threads'] == 2]
  explorer.explore_all(ctx, 'vmc.ckharness', one,
                       pre_bound=1 if ctx.quick else 2, hb_cache=True)
  explorer.explore_all(ctx, 'vmc.ckharness', two,
                       pre_bound=0 if ctx.quick else 1, hb_cache=True)


def replay(ctx, data):
  r = data['replay']
  if 'harness' in r:
    from vmc import ckharness, explorer
    h = ckharness.HARNESSES[r['harness']](**r['params'])
    res, problems = explorer.replay_once(h, r['choices'])
    for sig, detail in problems:
      ctx.violation(sig, detail)
    return
  run_case(ctx, r['prog'], tuple(r['failing']))
