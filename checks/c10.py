"""C10 - checkpoint / resume continues exactly where iteration stopped.

Fault enumeration over crash points and checkpoint histories (E3) on the real
`io.SequenceDataSource`, `io.ShardedIterable` and `TreeTransform` pipelines:

    history = cut vector (c1..cg), g <= 3:  consume c1, take `.state`,
              `from_state`, consume c2, ... then drain

for every source configuration (unsharded, shard i of k with an offset, nested
shards, several sub-sequences, an unreadable element with ignore_error, a
round-robin ShardedIterable shard), every way the state travels (the object,
pickle, the library's pickler), every way it is restored (on the checkpointed
iterator, on a fresh iterator, on the data source) and with the checkpointed
iterator abandoned or continued after the checkpoint (the state must be a
snapshot).  After every restore the restored iterator is additionally probed
(a second restore of the same state is drained) so that the *first* wrong
generation is known.

Oracle: delivered-before ++ delivered-after == the uninterrupted run, final
`agg_result` (and the aggregate returned with StopIteration) == the
uninterrupted run's; the uninterrupted run itself == a model of the source
written with list slices (`model_rows`: which rows a shard path / round-robin
shard / unreadable element leaves).

Two classes of source length.  *Short* sources (n <= 5..7) with every cut
vector, and *long* sources: the random-access iterator behind
SequenceDataSource reads ahead W = `iter_utils._RANDOM_ACCESS_BATCH_SIZE` (64)
elements at a time and falls back to windows of W/4, W/16, 1 after an
unreadable element, so sources of W-1, W, W+1, W+36, 2W+1, 2W+2 rows (shards
of 2W+2 and 3W+3: non-last shards longer than W and not a multiple of W) are
cut at 0, 1, jW-1, jW, jW+1, len-1, len and next to sub-sequence boundaries /
the unreadable element, *relative to the last restore* (a restored iterator
starts its windows at the restore offset).  The other window constants of
iter_utils (_MAX_BATCH_SIZE = 4096 of IteratorQueue, buffer_size = 3 *
num_threads) only exist with worker threads (harness 'threads').

Sliced aggregates (`add_slice`): the per-slice entries MetricKey(metric, slice)
of the aggregation state are created lazily, by the first batch that has an
example of the slice, so a checkpoint holds entries that no fresh state has.
SLICED_SHAPES puts single-feature, cross, fan-out (slice_fn) and slice_mask_fn
slicers, stacked slicers over several aggregates (one with slicing disabled),
batch(2) and the stages of a chain under every history above; `to_batch` makes
slices that are seen only before a cut, only after it, or on both sides.  The
uninterrupted sliced aggregate is compared with a brute-force group-by
(`model_sliced_agg`), restored runs with the uninterrupted one (exact key set).

The enumerated histories above run with `num_threads == 0`.  The threaded
configurations (num_threads 1-2) run the same checkpoint / restore step under
the deterministic scheduler (E1): `vmc/ckharness.py::CheckpointThreaded`, driven
from `run()` (group 'threads'); results are compared as multisets.
"""
import collections
import copy
import functools
import itertools as itt
import pickle
import signal

from vmc import enums
from vmc.runner import Stats

PROPERTY = 'C10'
LEVEL = 'fault_enumeration'

HARNESSES = ('source', 'pipeline', 'threads')
NUM_THREADS = (0,)     # the E3 histories; threads: vmc/ckharness.py under E1

TRANSPORTS = ('object', 'pickle', 'pickler')
SOURCE_VIAS = ('iterator', 'fresh-iterator', 'data-source')
PIPE_VIAS = ('iterator', 'fresh-iterator')
SLICED_TRANSPORTS = ('object', 'pickler')   # sliced shapes, both tiers


def val(i):
  return 100 + i


class _Deadline:
  """Turns a hang inside a work unit into an exception (worker main thread)."""

  def __init__(self, seconds):
    self.seconds = seconds

  def _fire(self, *_):
    raise TimeoutError(f'work unit exceeded {self.seconds}s')

  def __enter__(self):
    try:
      self.old = signal.signal(signal.SIGALRM, self._fire)
      signal.setitimer(signal.ITIMER_REAL, self.seconds)
    except ValueError:
      self.old = None

  def __exit__(self, *exc):
    if self.old is not None:
      signal.setitimer(signal.ITIMER_REAL, 0)
      signal.signal(signal.SIGALRM, self.old)


class _Executor:
  """Runs one history.  num_threads == 0: plain call in this thread.

  The threaded configurations plug in here: an executor that runs `fn` under
  the cooperative scheduler and enumerates its schedules.
  """

  def __init__(self, num_threads):
    if num_threads:
      raise NotImplementedError(
          'num_threads > 0 must run under the deterministic scheduler (E1)')
    self.num_threads = num_threads
    self.ordered = num_threads == 0

  def run(self, fn):
    return fn()


# --------------------------------------------------------------------------
# fixtures (module level: they travel through pickle by reference)
# --------------------------------------------------------------------------

class FailingSeq:
  """A list whose element `bad` cannot be read (ValueError)."""

  def __init__(self, rows, bad):
    self._rows, self.bad = list(rows), bad

  def __len__(self):
    return len(self._rows)

  def __getitem__(self, i):
    if isinstance(i, slice):
      idx = range(*i.indices(len(self._rows)))
      if self.bad in idx:
        raise ValueError(f'cannot read element {self.bad}')
      return [self._rows[j] for j in idx]
    i = i.__index__()
    if i == self.bad:
      raise ValueError(f'cannot read element {self.bad}')
    return self._rows[i]


class ReIterable:

  def __init__(self, rows):
    self._rows = list(rows)

  def __iter__(self):
    return (r for r in self._rows)


class History:
  """Aggregate whose state is everything it has seen, in order (in place)."""

  def create_state(self):
    return []

  def update_state(self, state, x):
    state.append(x)
    return state

  def merge_states(self, states):
    return list(itt.chain.from_iterable(states))

  def get_result(self, state):
    return list(state)


class SumCountState:

  def __init__(self):
    self.total, self.count = 0, 0

  def __eq__(self, other):
    return (self.total, self.count) == (other.total, other.count)

  def __repr__(self):
    return f'SumCountState({self.total}, {self.count})'


class SumCount:
  """Aggregate with a mutable object as state, updated in place."""

  def create_state(self):
    return SumCountState()

  def update_state(self, state, x):
    state.total += sum(x) if isinstance(x, list) else x
    state.count += 1
    return state

  def merge_states(self, states):
    out = SumCountState()
    for s in states:
      out.total += s.total
      out.count += s.count
    return out

  def get_result(self, state):
    return (state.total, state.count)


def inc(x):
  return x + 1


def dbl(x):
  return x * 2


# ---- sliced aggregates (add_slice): the rows become batches of columns ------

def to_batch(r):
  """Source row(s) -> a batch of two examples per row.

  Row number i = r - 100 gives the examples (a=i//2, b=i%2, v=r) and
  (a=-1, b=0, v=2r): slice a=-1 is in every batch, a=i//2 only in two
  consecutive batches (so, for a cut, only before it, only after it or on both
  sides), every (a, b) cross with a >= 0 in exactly one batch.
  """
  a, b, v = [], [], []
  for x in (r if isinstance(r, list) else [r]):
    i = x - 100
    a += [i // 2, -1]
    b += [i % 2, 0]
    v += [x, 2 * x]
  return {'a': a, 'b': b, 'v': v}


def batch_total(batch):
  return sum(batch['v'])


def fan(a):
  """Fan-out slice_fn: an example is in the slices a and a + 1."""
  return (a, a + 1)


def mask_slices(a):
  """slice_mask_fn (masks given by the slicer): 'neg' and 'even' examples."""
  for name, mask in (('neg', [x < 0 for x in a]),
                     ('even', [x >= 0 and x % 2 == 0 for x in a])):
    if any(mask):
      yield name, (mask,)


# id -> (add_slice arguments, slice name, model: (a, b) -> slice values)
SLICERS = {
    'one': (dict(keys='a'), ('a',), lambda a, b: [(a,)]),
    'cross': (dict(keys=('a', 'b')), ('a', 'b'), lambda a, b: [(a, b)]),
    'fan': (dict(keys='a', slice_name='fan', slice_fn=fan), ('fan',),
            lambda a, b: [(a,), (a + 1,)]),
    'mask': (dict(keys='a', slice_name='m', slice_mask_fn=mask_slices), ('m',),
             lambda a, b: [('neg',)] if a < 0 else [('even',)] if a % 2 == 0
             else []),
}


def _add_slices(t, ids):
  for s in ids:
    kw = dict(SLICERS[s][0])
    t = t.add_slice(kw.pop('keys'), **kw)
  return t


class SlicedHistory:
  """State: the (masked) values of every batch seen, in order (in place)."""

  def create_state(self):
    return []

  def update_state(self, state, x):
    state.append(tuple(int(v) for v in x))
    return state

  def merge_states(self, states):
    return list(itt.chain.from_iterable(states))

  def get_result(self, state):
    return list(state)


class SlicedSum:
  """State: a mutable (sum, number of examples) object, updated in place."""

  def create_state(self):
    return SumCountState()

  def update_state(self, state, x):
    state.total += sum(int(v) for v in x)
    state.count += len(x)
    return state

  def merge_states(self, states):
    return SumCount().merge_states(states)

  def get_result(self, state):
    return (state.total, state.count)


def _plain_key(k):
  """A key of agg_result without library types: (metric, slice name, value)."""
  if hasattr(k, 'slice') and hasattr(k, 'metrics'):
    return (k.metrics, tuple(k.slice.features), tuple(k.slice.values))
  return (k, (), ())


def _listify(x):
  """Tuples as lists (agg_result does not keep the difference)."""
  if isinstance(x, dict):
    return {k: _listify(v) for k, v in x.items()}
  if isinstance(x, (list, tuple)):
    return [_listify(v) for v in x]
  return x


def model_sliced_agg(batches, aggs):
  """Brute-force group-by.  aggs: ((output key, 'history' | 'sum', slicer ids)).

  -> {(metric, slice name, slice value): result}; a slice exists from the
  first batch on that has an example in it.
  """
  out = {}
  for key, kind, slicers in aggs:
    groups = {(key, (), ()): [tuple(b['v']) for b in batches]}
    for s in slicers:
      _, name, values_of = SLICERS[s]
      for b in batches:
        per = {}
        for a, bb, v in zip(b['a'], b['b'], b['v']):
          for value in values_of(a, bb):
            per.setdefault(value, []).append(v)
        for value, vs in per.items():
          groups.setdefault((key, name, value), []).append(tuple(vs))
    for k, seen in groups.items():
      out[k] = list(seen) if kind == 'history' else (
          sum(map(sum, seen)), sum(map(len, seen)))
  return out


def _transport(name, state):
  """The checkpoint as it travels.  -> function giving the state to restore.

  A checkpoint is restored twice per generation (probe + continuation).  The
  bytes are loaded twice; the in-memory object is handed to from_state twice
  *as it is*: a captured state is a value, the first restore must not use it up
  (it did for pipeline aggregates until fix 55747be - found through a seeding
  agent's side remark, the probe used to get a deep copy).
  """
  if name == 'object':
    return lambda probe=False: state
  if name == 'pickle':
    data = pickle.dumps(state)
    return lambda probe=False: pickle.loads(data)
  from ml_metrics._src.chainables import lazy_fns
  data = lazy_fns.pickler.dumps(state)
  return lambda probe=False: lazy_fns.pickler.loads(data)


# --------------------------------------------------------------------------
# sources
# --------------------------------------------------------------------------
# spec: ('seq', split, path) | ('seq-ignore', n, bad, path) |
#       ('iter', n, container, shard | None)
#   split: sizes of the sub-sequences; path: ((index, num_shards, offset), ...)

def build_source(spec):
  """-> (root data source, the configured (sharded) data source)."""
  from ml_metrics._src.chainables import io
  kind = spec[0]
  if kind == 'seq':
    _, split, path = spec
    rows = [val(i) for i in range(sum(split))]
    pieces = enums.cut(rows, split)
    if len(split) == 1:
      root = io.SequenceDataSource(pieces[0])
    else:
      root = io.SequenceDataSource.from_sequences(pieces)
  elif kind == 'seq-ignore':
    _, n, bad, path = spec
    rows = [val(i) for i in range(n)]
    root = io.SequenceDataSource(FailingSeq(rows, bad), ignore_error=True)
  elif kind == 'iter':
    _, n, container, shard = spec
    rows = [val(i) for i in range(n)]
    data = {'list': list, 'tuple': tuple, 're-iterable': ReIterable}[
        container](rows)
    root = io.ShardedIterable(data)
    node = root.shard(*shard) if shard else root
    return root, node
  else:
    raise ValueError(spec)
  node = root
  for i, k, off in path:
    node = node.shard(i, k, offset=off)
  return root, node


def _starts_at_offset(spec):
  if spec[0] == 'iter':
    return False
  path = spec[-1]
  return bool(path) and path[-1][2] > 0


def _source_driver(spec):
  return 'ShardedIterable' if spec[0] == 'iter' else 'SequenceDataSource'


def _input_class(at_offset, consumed, skipped_unreadable):
  """Narrow class of the checkpointed iterator (part of the signature)."""
  cls = 'checkpoint-of-iterator-started-at-' + (
      'offset' if at_offset else 'zero')
  if not consumed:
    cls += '+not-advanced'
  if skipped_unreadable:
    cls += '+unreadable-element-skipped'
  return cls


def _key(x):
  return repr(x)


def _symptom(got, exp, ordered=True):
  """How a delivered list differs from the expected one."""
  cg = collections.Counter(map(_key, got))
  ce = collections.Counter(map(_key, exp))
  rep = any(cg[k] > ce[k] for k in cg)
  mis = any(ce[k] > cg[k] for k in ce)
  if rep and mis:
    return 'repeated-and-skipped-elements'
  if rep:
    return 'repeated-elements'
  if mis:
    return 'skipped-elements'
  if ordered and list(got) != list(exp):
    return 'reordered-elements'
  return None


def _cut_vectors(length, max_gen, min_gen=1):
  """Every (c1..cg), min_gen <= g <= max_gen, ci >= 0, sum <= length."""
  out = []

  def rec(prefix, left):
    if len(prefix) >= min_gen:
      out.append(tuple(prefix))
    if len(prefix) == max_gen:
      return
    for c in range(left + 1):
      rec(prefix + [c], left - c)

  rec([], length)
  return out


def _take(it, c):
  out = []
  for _ in range(c):
    out.append(next(it))
  return out


# --------------------------------------------------------------------------
# model of the sources (lists and integer arithmetic only)
# --------------------------------------------------------------------------

def _model_range(n, path):
  """[start, end) of the rows a shard path selects out of n rows."""
  start, end = 0, n
  for i, k, off in path:
    q, r = divmod(end - start, k)
    first = start + i * q + min(i, r)
    start, end = first + off, first + q + (1 if i < r else 0)
  return start, max(start, end)


def model_rows(spec, make_shard=None):
  """-> (rows an uninterrupted run delivers, marks).

  marks: positions (number of rows delivered before) at which the source
  changes: a sub-sequence boundary, the unreadable element.
  """
  kind = spec[0]
  if kind == 'iter':
    _, n, _, shard = spec
    assert make_shard is None
    i, k = shard or (0, 1)
    return [val(j) for j in range(n) if j % k == i], ()
  if kind == 'seq':
    _, split, path = spec
    n, bad = sum(split), None
    bounds = list(itt.accumulate(split))[:-1]
  else:
    _, n, bad, path = spec
    bounds = []
  if make_shard:
    path = tuple(path) + ((make_shard[0], make_shard[1], 0),)
  start, end = _model_range(n, path)
  rows = [val(j) for j in range(start, end) if j != bad]
  marks = {b - start for b in bounds if start < b < end}
  if bad is not None and start <= bad < end:
    marks.add(bad - start)
  return rows, tuple(sorted(marks))


def read_ahead_window():
  """The library's read-ahead size: a parameter of the space, not the oracle."""
  from ml_metrics._src.utils import iter_utils
  return int(getattr(iter_utils, '_RANDOM_ACCESS_BATCH_SIZE', 0)) or 64


def _long_cuts(rem, marks, window):
  """How many elements to consume next when `rem` are left (long sources)."""
  pts = {0, 1, rem - 1, rem}
  for j in (1, 2):
    pts |= {j * window - 1, j * window, j * window + 1}
  for m in marks:
    pts |= {m - 1, m, m + 1}
  return sorted(p for p in pts if 0 <= p <= rem)


def _long_cut_vectors(length, marks, max_gen, window, min_gen=1):
  """Cut vectors of a long source: every ci out of _long_cuts, relative to the

  position of the previous checkpoint (where the restored iterator starts its
  read-ahead windows)."""
  out = []

  def rec(prefix, pos):
    if len(prefix) >= min_gen:
      out.append(tuple(prefix))
    if len(prefix) == max_gen:
      return
    for c in _long_cuts(length - pos, [m - pos for m in marks], window):
      rec(prefix + [c], pos + c)

  rec([], 0)
  return out


def _long_histories(length, marks, gens, transports, vias, window):
  """Generation 1: the full product; later generations: state as object;

  generation 2: the checkpointed iterator abandoned / as later_drained says;
  generations >= 3: abandoned.
  """
  min_gen, max_gen, later_drained = gens
  for cuts in _long_cut_vectors(length, marks, max_gen, window, min_gen):
    first = len(cuts) == 1
    for transport, via, old in itt.product(
        transports if first else transports[:1], vias,
        (False, True) if first else
        later_drained if len(cuts) == 2 else (False,)):
      yield (cuts, transport, via, old)


def _reference_clause(st, driver, case, got, rows):
  """The uninterrupted run delivers what the model of the source says."""
  sym = _symptom(got, rows)
  if sym:
    st.violation(
        f'C10:{driver}:uninterrupted-run-differs-from-reference:{sym}',
        {'case': case, 'got': got, 'expected': rows})
  return sym


def check_source_history(st, spec, expected, hist, num_threads=0):
  """One checkpoint history on a data source iterator."""
  cuts, transport, via, old_continues = hist
  ex = _Executor(num_threads)
  driver = _source_driver(spec)
  case = ('source', spec, cuts, transport, via, old_continues, num_threads)
  st.case(case, nontrivial=bool(expected))
  replay = {'kind': 'source', 'spec': spec, 'hist': hist,
            'num_threads': num_threads}

  def restore(root, it, state):
    if via == 'iterator':
      return it.from_state(state)
    if via == 'fresh-iterator':
      return root.iterate().from_state(state)
    return root.from_state(state).iterate()

  observed = []

  def body():
    root, node = build_source(spec)
    it = node.iterate()
    delivered = []
    at_offset = _starts_at_offset(spec)
    bad_pos = bad_position(spec)
    for g, c in enumerate(cuts, 1):
      delivered += _take(it, c)
      pos = len(delivered)
      passed = bad_pos is not None and pos - c <= bad_pos < pos
      cls = _input_class(at_offset, c, passed)
      state = _transport(transport, it.state)
      if old_continues:
        rest = list(it)
        sym = _symptom(delivered + rest, expected, ex.ordered)
        if sym:
          return (f'C10:{driver}:taking-state-disturbs-the-iterator:{sym}',
                  {'generation': g, 'delivered': delivered, 'rest': rest})
      probe = list(restore(root, it, state(probe=True)))
      sym = _symptom(delivered + probe, expected, ex.ordered)
      if sym:
        return (f'C10:{driver}:{sym}:{cls}',
                {'generation': g, 'state': repr(state()), 'delivered_before':
                 delivered, 'delivered_after_restore': probe})
      it = restore(root, it, state())
      at_offset = pos > 0 or at_offset
    delivered += list(it)
    sym = _symptom(delivered, expected, ex.ordered)
    if sym:
      return (f'C10:{driver}:{sym}:whole-history', {'delivered': delivered})
    observed.append((delivered, repr(it.state)))
    return None

  try:
    res = ex.run(body)
  except Exception as e:  # pylint: disable=broad-except
    st.violation(f'C10:{driver}:raise:{type(e).__name__}',
                 {'case': case, 'error': repr(e)}, replay=replay)
    st.outcome(('raise', type(e).__name__))
    return
  st.outcome(res[0] if res else repr(observed))
  if res:
    sig, detail = res
    detail.update(case=case, expected=expected)
    st.violation(sig, detail, replay=replay)
    return {'violation': sig}
  return {'delivered': observed[0][0], 'final_state': observed[0][1]}


@functools.lru_cache(maxsize=None)
def bad_position(spec):
  """Number of readable rows of the shard that precede the unreadable one.

  None when the source has no unreadable element inside this shard.  Computed
  from the twin source whose elements are all readable.
  """
  if spec[0] != 'seq-ignore':
    return None
  _, n, bad, path = spec
  _, twin = build_source(('seq', (n,), path))
  rows = list(twin.iterate())
  return rows.index(val(bad)) if val(bad) in rows else None


def _histories(length, gens, transports, vias):
  min_gen, max_gen = gens
  for cuts in _cut_vectors(length, max_gen, min_gen):
    for transport, via, old in itt.product(transports, vias, (False, True)):
      yield (cuts, transport, via, old)


def _hist_dict(hist):
  cuts, transport, via, old = hist
  return {'consume_then_checkpoint': list(cuts), 'state_travels_as': transport,
          'restored_via': via, 'checkpointed_iterator_drained': old}


def _source_unit(args):
  specs, gens, transports, window, want_sample = args
  st = Stats()
  with _Deadline(3600):
    for spec in specs:
      _, node = build_source(spec)
      expected = list(node.iterate())      # the uninterrupted run
      rows, marks = model_rows(spec)
      _reference_clause(st, _source_driver(spec), ('source', spec), expected,
                        rows)
      for nt in NUM_THREADS:
        last = None
        if window:     # long source: cuts at / around the read-ahead windows
          hists = _long_histories(len(expected), marks, gens, transports,
                                  SOURCE_VIAS, window)
        else:
          hists = _histories(len(expected), gens, transports, SOURCE_VIAS)
        for hist in hists:
          last = (hist, check_source_history(st, spec, expected, hist, nt))
        if want_sample and last and len(expected) >= 2 and len(
            st.samples) < 3:
          st.sample({'driver': 'data source', 'source': spec,
                     'uninterrupted_run': expected,
                     'history': _hist_dict(last[0]), 'observed': last[1]})
  return st


# --------------------------------------------------------------------------
# pipelines
# --------------------------------------------------------------------------

SHAPES = ('source-only', 'apply', 'apply-agg', 'apply-two-aggs', 'batch-agg',
          'chain-agg-last', 'chain-agg-first', 'chain-agg-both')


# Pipelines whose aggregates are sliced (add_slice): the per-slice entries of
# the aggregation state are created lazily, when a batch first has an example
# of the slice; a checkpoint has to carry them.
#   shape -> ((stage, output key, aggregate, slicer ids | None = slicing
#             disabled), ...)
SLICED_SHAPES = {
    'sliced-one': (('', 'h', 'history', ('one',)),),
    'sliced-cross': (('', 'h', 'history', ('cross',)),),
    'sliced-fan': (('', 'h', 'history', ('fan',)),),
    # two sliced aggregates under two stacked slicers + one with slicing off
    'sliced-stack-aggs': (('', 'h', 'history', ('one', 'mask')),
                          ('', 's', 'sum', ('one', 'mask')),
                          ('', 'u', 'sum', None)),
    'batch-sliced': (('', 's', 'sum', ('one', 'fan')),),
    'chain-sliced-last': (('b', 'hb', 'history', ('cross',)),),
    'chain-sliced-first': (('a', 'sa', 'sum', ('fan',)),),
    'chain-sliced-both': (('a', 'sa', 'sum', ('one',)),
                          ('b', 'hb', 'history', ('mask', 'cross'))),
}
_AGG_FIXTURES = {'history': SlicedHistory, 'sum': SlicedSum}


def _sliced_aggs(t, shape, stage):
  """Adds the aggregates of `stage` and their slicers to transform `t`."""
  mine = [d for d in SLICED_SHAPES[shape] if d[0] == stage]
  for i, (_, key, kind, slicers) in enumerate(mine):
    kw = dict(input_keys='v', output_keys=key, disable_slicing=slicers is None)
    fn = _AGG_FIXTURES[kind]()
    t = t.agg(fn, **kw) if i == 0 else t.add_agg(fn=fn, **kw)
  ids = dict.fromkeys(s for d in mine for s in d[3] or ())
  return _add_slices(t, ids)


def _build_sliced(shape, node, new):
  if shape == 'batch-sliced':
    t = _sliced_aggs(new().data_source(node).batch(2).apply(to_batch), shape,
                     '')
    return t, lambda rows: [to_batch(list(rows[i:i + 2]))
                            for i in range(0, len(rows), 2)]
  if not shape.startswith('chain-'):
    t = _sliced_aggs(new().data_source(node).apply(to_batch), shape, '')
    return t, lambda rows: [to_batch(r) for r in rows]
  if shape == 'chain-sliced-last':
    a = new('a').data_source(node).apply(inc)
    b = _sliced_aggs(new('b').apply(to_batch), shape, 'b')
    return a.chain(b), lambda rows: [to_batch(r + 1) for r in rows]
  a = _sliced_aggs(new('a').data_source(node).apply(to_batch), shape, 'a')
  if shape == 'chain-sliced-first':
    return a.chain(new('b').apply(batch_total)), lambda rows: [
        batch_total(to_batch(r)) for r in rows]
  b = _sliced_aggs(new('b').apply(dict), shape, 'b')
  return a.chain(b), lambda rows: [to_batch(r) for r in rows]


def sliced_agg_model(shape, rows):
  """Expected agg_result of the uninterrupted run (plain keys) or None."""
  if shape not in SLICED_SHAPES:
    return None
  if shape == 'batch-sliced':
    batches = [to_batch(list(rows[i:i + 2])) for i in range(0, len(rows), 2)]
  elif shape == 'chain-sliced-last':
    batches = [to_batch(r + 1) for r in rows]
  else:
    batches = [to_batch(r) for r in rows]
  return model_sliced_agg(batches, [
      (key, kind, slicers or ()) for _, key, kind, slicers in
      SLICED_SHAPES[shape]])


def build_pipeline(shape, node, num_threads=0):
  """-> (transform, reference fn: source rows -> expected outputs)."""
  from ml_metrics._src.chainables import transform
  new = lambda name='': transform.TreeTransform.new(
      name=name, num_threads=num_threads)
  if shape == 'source-only':
    return new().data_source(node), lambda rows: list(rows)
  if shape == 'apply':
    return new().data_source(node).apply(inc), lambda rows: [
        r + 1 for r in rows]
  if shape == 'apply-agg':
    return (new().data_source(node).apply(inc).agg(History()),
            lambda rows: [r + 1 for r in rows])
  if shape == 'apply-two-aggs':
    t = (new().data_source(node).apply(inc)
         .agg(History(), output_keys='h')
         .add_agg(fn=SumCount(), output_keys='s'))
    return t, lambda rows: [r + 1 for r in rows]
  if shape == 'batch-agg':
    t = new().data_source(node).batch(2).agg(SumCount(), output_keys='s')
    return t, lambda rows: [list(rows[i:i + 2]) for i in range(0, len(rows), 2)]
  if shape in SLICED_SHAPES:
    return _build_sliced(shape, node, new)
  a = new('a').data_source(node).apply(inc)
  b = new('b').apply(dbl)
  if shape == 'chain-agg-last':
    b = b.agg(History(), output_keys='hb')
  elif shape == 'chain-agg-first':
    a = a.agg(History(), output_keys='ha')
  elif shape == 'chain-agg-both':
    a = a.agg(SumCount(), output_keys='sa')
    b = b.agg(History(), output_keys='hb')
  else:
    raise ValueError(shape)
  return a.chain(b), lambda rows: [(r + 1) * 2 for r in rows]


def _drain(it):
  """-> (delivered, value carried by StopIteration)."""
  out = []
  while True:
    try:
      out.append(next(it))
    except StopIteration as e:
      return out, e.value


def _canon(x):
  """Comparable form of an aggregate result (NullMap has no __eq__)."""
  if type(x).__name__ == 'NullMap':
    return ('NullMap',)
  if isinstance(x, dict):
    return {k: _canon(v) for k, v in x.items()}
  if isinstance(x, (list, tuple)):
    return type(x)(_canon(v) for v in x)
  return x


def _agg_of(returned):
  if returned is None:
    return None
  return _canon(getattr(returned, 'agg_result', None))


def _agg_result(it):
  return _canon(it.agg_result)


def _make_iter(t, spec, make_shard):
  """The pipeline iterator of `t`; optionally sharded through make(shard=)."""
  if make_shard:
    from ml_metrics._src.chainables import io
    return t.make(shard=io.ShardConfig(*make_shard)).iterate()
  return t.make().iterate()


def _agg_class(shape):
  if shape in SLICED_SHAPES:
    return 'sliced-' + ('aggregate-in-non-last-stage' if any(
        d[0] == 'a' for d in SLICED_SHAPES[shape]) else
                        'aggregate-in-last-stage')
  return {'chain-agg-first': 'aggregate-in-non-last-stage',
          'chain-agg-both': 'aggregate-in-non-last-stage'}.get(
              shape, 'aggregate-in-last-stage')


def _is_slice_key(k):
  return _plain_key(k)[1] != ()


def _agg_symptom(got, exp, at_checkpoint):
  """'stale' if every wrong entry still has its value of the checkpoint.

  Sliced aggregates: when only per-slice entries are wrong (the unsliced ones
  are right), says whether slices are missing / invented / have wrong values.
  """
  if isinstance(got, dict) and isinstance(exp, dict):
    wrong = {k for k in set(got) | set(exp)
             if k not in got or k not in exp or got[k] != exp[k]}
    if wrong and all(map(_is_slice_key, wrong)):
      if any(k not in got for k in wrong):
        return 'per-slice-aggregates-missing-after-restore'
      if any(k not in exp for k in wrong):
        return 'per-slice-aggregates-invented-after-restore'
      return 'per-slice-agg-result-differs'
  if isinstance(got, dict) and isinstance(exp, dict) and isinstance(
      at_checkpoint, dict) and got.keys() == exp.keys():
    wrong = [k for k in exp if got[k] != exp[k]]
    stale = all(k in at_checkpoint and got[k] == at_checkpoint[k]
                for k in wrong)
  else:
    stale = got == at_checkpoint
  return ('agg-result-is-the-stale-checkpointed-one' if stale else
          'agg-result-differs')


def check_pipeline_history(st, pspec, t, full, hist, num_threads=0):
  """One checkpoint history on `t.make().iterate()`."""
  shape, spec, make_shard = pspec
  cuts, transport, via, old_continues = hist
  exp_out, exp_agg, exp_ret = full
  ex = _Executor(num_threads)
  driver = 'pipeline'
  # positions are the data source's business: name it for delivery faults
  driver_src = f'pipeline-over-{_source_driver(spec)}'
  case = ('pipeline', shape, spec, make_shard, cuts, transport, via,
          old_continues, num_threads)
  st.case(case, nontrivial=bool(exp_out))
  replay = {'kind': 'pipeline', 'pspec': pspec, 'hist': hist,
            'num_threads': num_threads}

  def restore(it, state):
    if via == 'iterator':
      return it.from_state(state)
    return t.make().iterate().from_state(state)

  observed = []

  def body():
    it = _make_iter(t, spec, make_shard)
    delivered = []
    at_offset = _starts_at_offset(spec)
    for g, c in enumerate(cuts, 1):
      delivered += _take(it, c)
      pos = len(delivered)
      cls = _input_class(at_offset, c, False)
      state = _transport(transport, it.state)
      if old_continues:
        rest, _ = _drain(it)
        sym = _symptom(delivered + rest, exp_out, ex.ordered)
        if sym:
          return (f'C10:{driver}:taking-state-disturbs-the-iterator:{sym}',
                  {'generation': g, 'delivered': delivered, 'rest': rest})
        old_agg = _agg_result(it)
        if old_agg != exp_agg:
          return (f'C10:{driver}:taking-state-disturbs-the-iterator:'
                  'agg-result-differs',
                  {'generation': g, 'agg_result': old_agg})
      probe = restore(it, state(probe=True))
      tail, _ = _drain(probe)
      sym = _symptom(delivered + tail, exp_out, ex.ordered)
      if sym:
        return (f'C10:{driver_src}:{sym}:{cls}',
                {'generation': g, 'state': repr(state(probe=True)),
                 'delivered_before': delivered,
                 'delivered_after_restore': tail})
      got_agg = _agg_result(probe)
      if got_agg != exp_agg:
        # what the aggregate was at the checkpoint: an uninterrupted run up to
        # the same position (only evaluated to name the symptom)
        fresh = _make_iter(t, spec, make_shard)
        _take(fresh, pos)
        agg_at_checkpoint = _agg_result(fresh)
        what = _agg_symptom(got_agg, exp_agg, agg_at_checkpoint)
        return (f'C10:{driver}:{what}:{_agg_class(shape)}',
                {'generation': g, 'agg_result': got_agg,
                 'agg_at_checkpoint': agg_at_checkpoint,
                 'delivered_after_restore': tail})
      it = restore(it, state())
      at_offset = pos > 0 or at_offset
    rest, returned = _drain(it)
    delivered += rest
    sym = _symptom(delivered, exp_out, ex.ordered)
    if sym:
      return (f'C10:{driver_src}:{sym}:whole-history', {'delivered': delivered})
    final_agg = _agg_result(it)
    if final_agg != exp_agg:
      return (f'C10:{driver}:agg-result-differs:whole-history',
              {'agg_result': final_agg})
    if _agg_of(returned) != _agg_of(exp_ret):
      return (f'C10:{driver}:restored-iterator-returns-no-aggregate-with-'
              'StopIteration', {'returned': repr(returned),
                                'uninterrupted': repr(exp_ret)})
    observed.append((delivered, final_agg))
    return None

  try:
    res = ex.run(body)
  except Exception as e:  # pylint: disable=broad-except
    st.violation(f'C10:{driver}:raise:{type(e).__name__}',
                 {'case': case, 'error': repr(e)}, replay=replay)
    st.outcome(('raise', type(e).__name__))
    return
  st.outcome(res[0] if res else repr(observed))
  if res:
    sig, detail = res
    detail.update(case=case, expected=exp_out, expected_agg=exp_agg)
    st.violation(sig, detail, replay=replay)
    return {'violation': sig}
  return {'delivered': observed[0][0], 'agg_result': observed[0][1]}


def _uninterrupted(st, pspec, num_threads):
  """Runs the pipeline without a checkpoint; cross-checks the reference."""
  shape, spec, make_shard = pspec
  _, node = build_source(spec)
  t, ref = build_pipeline(shape, node, num_threads)
  it = _make_iter(t, spec, make_shard)
  out, returned = _drain(it)
  agg = _agg_result(it)
  rows, _ = model_rows(spec, make_shard)    # not the library's own listing
  exp = ref(rows)
  if out != exp:
    st.violation('C10:pipeline:uninterrupted-run-differs-from-'
                 'reference', {'pspec': pspec, 'got': out, 'expected': exp})
  exp_agg = sliced_agg_model(shape, rows)
  if exp_agg is not None:    # sliced aggregates: a brute-force group-by
    got_agg = {_plain_key(k): _listify(v) for k, v in agg.items()} if (
        isinstance(agg, dict)) else agg
    if got_agg != _listify(exp_agg):
      st.violation('C10:pipeline:uninterrupted-sliced-aggregate-differs-from-'
                   'reference', {'pspec': pspec, 'got': repr(got_agg),
                                 'expected': repr(exp_agg)})
  return t, (out, agg, returned)


def _out_marks(shape, spec, make_shard):
  """Marks of the source in units of delivered outputs (batch(2): halves)."""
  _, marks = model_rows(spec, make_shard)
  per = 2 if shape == 'batch-agg' else 1
  return tuple(sorted({m // per for m in marks}))


def _pipeline_unit(args):
  pspecs, gens, transports, window, want_sample = args
  st = Stats()
  with _Deadline(3600):
    for pspec in pspecs:
      for nt in NUM_THREADS:
        t, full = _uninterrupted(st, pspec, nt)
        last = None
        if window:     # long source: cuts at / around the read-ahead windows
          per = 2 if pspec[0] == 'batch-agg' else 1
          hists = _long_histories(len(full[0]), _out_marks(*pspec), gens,
                                  transports, PIPE_VIAS, window // per)
        else:
          hists = _histories(len(full[0]), gens, transports, PIPE_VIAS)
        for hist in hists:
          last = (hist, check_pipeline_history(st, pspec, t, full, hist, nt))
        if want_sample and last and len(full[0]) >= 2 and len(
            st.samples) < 3:
          st.sample({'driver': 'pipeline', 'shape': pspec[0],
                     'source': pspec[1], 'make_shard': pspec[2],
                     'uninterrupted_run': full[0],
                     'uninterrupted_agg_result': full[1],
                     'history': _hist_dict(last[0]), 'observed': last[1]})
  return st


# --------------------------------------------------------------------------

def _paths(n, ks, offsets_all, nested_ks):
  """Shard paths below a source of n rows: single level and nested."""
  out = []
  for k in ks:
    for i in range(k):
      q, r = divmod(n, k)
      size = q + (1 if i < r else 0)     # only used to bound the offsets
      offs = range(size + 1) if offsets_all else sorted({0, 1} & set(
          range(size + 1)))
      for off in offs:
        out.append(((i, k, off),))
        for k2 in nested_ks:
          for i2 in range(k2):
            for off2 in (0, 1):
              out.append(((i, k, off), (i2, k2, off2)))
  return out


def source_specs(max_n, thorough):
  specs = []
  ks = (2, 3, 4) if thorough else (2, 3)
  for n in range(max_n + 1):
    specs.append(('seq', (n,), ()))
    for path in _paths(n, ks, True, (2, 3)):
      specs.append(('seq', (n,), path))
    for parts in (2, 3):
      for split in enums.weak_compositions(n, parts):
        specs.append(('seq', split, ()))
        for i in range(2):
          specs.append(('seq', split, ((i, 2, 0),)))
    for bad in range(n):
      specs.append(('seq-ignore', n, bad, ()))
      for i in range(2):
        specs.append(('seq-ignore', n, bad, ((i, 2, 0),)))
    for container in ('list', 're-iterable'):
      specs.append(('iter', n, container, None))
      for k in ks:
        for i in range(k):
          specs.append(('iter', n, container, (i, k)))
  # an offset beyond the shard is outside the quantifier (offsets 0..len)
  return [s for s in specs if _valid(s)]


def _valid(spec):
  """Every offset of the path lies within its shard (offsets 0..len)."""
  if spec[0] == 'iter':
    return True
  root, _ = build_source(tuple(spec[:-1]) + ((),))
  node = root
  for i, k, off in spec[-1]:
    if off > len(node.shard(i, k)):
      return False
    node = node.shard(i, k, offset=off)
  return True


def pipeline_specs(max_n, thorough):
  out = []
  for n in range(max_n + 1):
    srcs = [('seq', (n,), ())]
    srcs += [('seq', (n,), p) for p in _paths(n, (2,), False, (2,))]
    srcs += [('seq', s, ()) for s in enums.weak_compositions(n, 2)]
    srcs += [('iter', n, 'list', None), ('iter', n, 'list', (1, 2))]
    if thorough:
      srcs += [('seq', (n,), p) for p in _paths(n, (3,), False, ())]
      srcs += [('iter', n, 're-iterable', (i, 3)) for i in range(3)]
    srcs = [s for s in srcs if _valid(s)]
    for shape in SHAPES:
      for s in srcs:
        out.append((shape, s, None))
      # sharding requested through make(shard=ShardConfig(i, k)); make()
      # hands the shard to every stage, so only single-stage transforms
      # accept it
      if not shape.startswith('chain-'):
        for i in range(2):
          out.append((shape, ('seq', (n,), ()), (i, 2)))
  return out


def sliced_pipeline_specs(max_n, thorough):
  """Every sliced shape over every kind of source the pipelines meet.

  quick: unsharded n = 0..max_n and one source of every other kind (shard with
  offset, nested shard, two sub-sequences, round-robin ShardedIterable shard,
  make(shard=)); thorough: the source list of the unsliced shapes.
  """
  if thorough:
    plain = [p for p in pipeline_specs(max_n, False) if p[0] == 'apply-agg']
    out = []
    for shape in SLICED_SHAPES:
      out += [(shape, s, ms) for _, s, ms in plain
              if not (ms and shape.startswith('chain-'))]
    return out
  n = max_n
  srcs = [('seq', (k,), ()) for k in range(n + 1)]
  srcs += [('seq', (n,), ((1, 2, 1),)), ('seq', (n,), ((0, 2, 0), (1, 2, 0))),
           ('seq', (1, n - 2), ()), ('iter', n, 'list', (1, 2))]
  out = []
  for shape in SLICED_SHAPES:
    out += [(shape, s, None) for s in srcs]
    if not shape.startswith('chain-'):
      out.append((shape, ('seq', (n,), ()), (1, 2)))
  return out


def long_sliced_pipeline_specs(w):
  """Sliced aggregates over a source longer than the read-ahead window (W / 2
  slices of feature a come and go)."""
  return [(shape, ('seq', (w + 1,), ()), None)
          for shape in ('sliced-one', 'chain-sliced-both')]


# --------------------------------------------------------------------------
# long sources: longer than the read-ahead window of the random-access iterator
# --------------------------------------------------------------------------

def long_lengths(w, thorough):
  """W-1, W, W+1, a length in no relation to W, two windows + 1 / + 2."""
  out = [w - 1, w, w + 1, w + 36, 2 * w + 1, 2 * w + 2]
  if thorough:
    out += [2 * w - 1, 2 * w, 3 * w + 1]
  return sorted(out)


def _long_bad(lo, hi, w):
  """Unreadable rows of [lo, hi): next to the start of every read-ahead window

  of the range and 1, W/16, W/4 (the fall-back windows) rows into it."""
  out = set()
  for ws in range(lo, hi, w):
    for d in (-1, 0, 1, w // 16 - 1, w // 16, w // 4 - 1, w // 4, w // 4 + 1):
      out.add(ws + d)
  out |= {hi - 1}
  return sorted(b for b in out if lo <= b < hi)


def long_source_specs(w, thorough):
  specs = []
  two, three = 2 * w + 2, 3 * w + 3
  for n in long_lengths(w, thorough):
    specs.append(('seq', (n,), ()))
    for i in range(2):
      for off in (0, 1):
        specs.append(('seq', (n,), ((i, 2, off),)))
    for container in ('list', 're-iterable'):
      specs.append(('iter', n, container, None))
  # restore offsets given by hand, at and around a window end
  for i in range(2):
    for off in (w - 1, w, w + 1):
      specs.append(('seq', (two,), ((i, 2, off),)))
  # three shards of W+1; nested: the halves of a half
  for i in range(3):
    specs.append(('seq', (three,), ((i, 3, 0),)))
  nested_n = (2 * two,) + ((2 * two + 1, 2 * two + 3) if thorough else ())
  for n in nested_n:
    for i, i2 in itt.product(range(2), range(2)):
      for off, off2 in ((0, 0), (1, 1)) if thorough else ((0, 0),):
        specs.append(('seq', (n,), ((i, 2, off), (i2, 2, off2))))
  # sub-sequences longer than the window / ending next to a window end
  for n in (w + 1, two) + ((w + 36,) if thorough else ()):
    firsts = {0, 1, w - 1, w, w + 1, w + 2, n - w - 1, n - w, n - 1, n}
    for a in sorted(f for f in firsts if 0 <= f <= n):
      specs.append(('seq', (a, n - a), ()))
      if n == two:
        for i in range(2):
          specs.append(('seq', (a, n - a), ((i, 2, 0),)))
  for split in ((w + 1, 0, w + 1), (w, 1, w + 1), (1, w + 1, w)):
    specs.append(('seq', split, ()))
    for i in range(2):
      specs.append(('seq', split, ((i, 2, 0),)))
  # one unreadable element (ignore_error): the fall-back windows W/4, W/16, 1
  for n in (w + 1, two):
    for bad in _long_bad(0, n, w):
      specs.append(('seq-ignore', n, bad, ()))
  half = two // 2
  for i in range(2):
    for bad in _long_bad(i * half, (i + 1) * half, w):
      specs.append(('seq-ignore', two, bad, ((i, 2, 0),)))
  for i in range(2):
    specs.append(('iter', two, 'list', (i, 2)))
  if thorough:
    for i in range(3):
      specs.append(('iter', three, 're-iterable', (i, 3)))
  return [s for s in dict.fromkeys(specs) if _valid(s)]


def long_pipeline_specs(w, thorough):
  out = []
  two = 2 * w + 2
  srcs = [('seq', (w + 1,), ()),
          ('seq', (two,), ((0, 2, 0),)),       # non-last shard of W+1 rows
          ('seq', (two,), ((1, 2, 1),)),       # exactly one window left
          ('seq', (w + 1, 1), ()),             # a sub-sequence of W+1 rows
          ('iter', two, 'list', (1, 2))]
  if thorough:
    srcs += [('seq', (w + 36,), ()), ('seq', (two,), ()),
             ('seq', (two,), ((1, 2, 0),)), ('seq', (3 * w + 3,), ((1, 3, 0),)),
             ('seq', (2 * two,), ((0, 2, 0), (0, 2, 0))),
             ('seq', (1, w + 1, w), ((0, 2, 0),)), ('iter', w + 1, 'list', None)]
  for shape in SHAPES:
    for s in srcs:
      out.append((shape, s, None))
    if not shape.startswith('chain-'):
      for i in range(2 if thorough else 1):
        out.append((shape, ('seq', (two,), ()), (i, 2)))
  return out


def run(ctx):
  quick = ctx.quick
  only = getattr(ctx, 'only', None) or HARNESSES
  n_src = 5 if quick else 7
  n_pipe = 4 if quick else 6
  n_sliced = 4
  max_gen = 3
  n_src4, n_pipe4 = (0, 0) if quick else (5, 4)    # 4-generation histories
  transports = TRANSPORTS
  pipe_transports = ('object', 'pickler') if quick else TRANSPORTS
  w = read_ahead_window()
  long_gens = (1, 2, (False,)) if quick else (1, 3, (False, True))
  later = ' and the checkpointed iterator abandoned' + (
      '' if quick else ' (generation 2: also drained)')
  ctx.notes['read_ahead_window'] = w
  four = '' if quick else (
      f'; additionally every 4-generation cut vector for sources n<={n_src4} '
      f'and pipelines n<={n_pipe4}')
  ctx.rule = (
      f'sources: n<={n_src} rows; SequenceDataSource unsharded / shard i of k '
      f'(k in {"2..3" if quick else "2..4"}) with every offset 0..len / nested '
      'shard (k2 in 2..3, offset 0..1) / every split into 2..3 possibly empty '
      'sub-sequences (unsharded and halved) / one unreadable element at each '
      'position with ignore_error; ShardedIterable unsharded and shard i of k; '
      f'x every cut vector (c1..cg), g<={max_gen}, sum<=len x state as '
      'object/pickle/library pickler x restored on the checkpointed iterator/'
      'a fresh iterator/the data source x checkpointed iterator abandoned/'
      f'drained; pipelines: n<={n_pipe}, shapes {list(SHAPES)} over unsharded/'
      'sharded(+offset)/nested/two-sub-sequence/ShardedIterable sources and '
      f'make(shard=), same histories with state as {list(pipe_transports)}, '
      f'restored on the iterator/a fresh make().iterate(){four}; '
      f'SLICED aggregates (add_slice; rows become batches of two examples '
      '(a=i//2, b=i%2), (a=-1, b=0), so a slice is seen in every batch / only '
      'in two consecutive batches / in one batch, i.e. for a cut only before '
      'it, only after it or on both sides): shapes '
      f'{list(SLICED_SHAPES)} = single-feature / cross / fan-out slice_fn / '
      'slice_mask_fn slicers, stacked slicers over two sliced aggregates + '
      'one with slicing disabled, after batch(2), in the last / first / both '
      f'stages of a chain; n<={n_sliced} over ' + (
          'unsharded n=0..4 and one shard(1,2,offset 1) / nested shard / '
          'sub-sequences (1,2) / round-robin half / make(shard=(1,2)) source'
          if quick else 'every source of the unsliced shapes with n<=4; '
          f'shapes sliced-one and chain-sliced-both over {w + 1} rows (long '
          'cut vectors, g<=2)') +
      f', every cut vector g<=3 x state as {list(SLICED_TRANSPORTS)} x restore '
      'route x abandoned/drained as above; the uninterrupted sliced aggregate '
      'is compared with '
      'a brute-force group-by (exact key set and values); '
      f'LONG sources (read-ahead window W={w} of the random-access iterator, '
      'fall-back windows W/4, W/16, 1): SequenceDataSource of '
      f'{long_lengths(w, not quick)} rows unsharded / halved with offset 0..1 '
      f'(shards of {w + 1} rows: longer than W, not a multiple of W, not the '
      f'tail), {2 * w + 2} rows halved with offset W-1..W+1, {3 * w + 3} rows '
      f'in 3 shards, {4 * w + 4} rows nested 2x2, two sub-sequences of '
      f'{w + 1} and {2 * w + 2} rows cut at 0/1/W-1..W+2/n-W-1/n-W/n-1/n '
      '(unsharded and halved) and three sub-sequences, one unreadable '
      f'element (ignore_error) in {w + 1} and {2 * w + 2} rows (unsharded, '
      'halved) at -1/0/1/W/16-1/W/16/W/4-1/W/4/W/4+1 rows from every window '
      'start and at the last row, ShardedIterable of the same lengths and '
      'round-robin halves; cut vectors of long sources: every ci in {0, 1, '
      'W-1, W, W+1, 2W-1, 2W, 2W+1, rest-1, rest, next to a sub-sequence '
      'boundary / the unreadable element}, counted from the previous '
      f'checkpoint, g<={long_gens[1]}; generation 1 with every transport x '
      'restore route x abandoned/drained, later generations with the state as '
      f'object{later}; pipelines over long sources: every shape over '
      f'{w + 1} rows '
      f'unsharded / shard 0 of 2 of {2 * w + 2} / shard 1 of 2 with offset 1 '
      f'(exactly W left) / sub-sequences ({w + 1}, 1) / round-robin half of '
      f'{2 * w + 2} / make(shard=(0, 2)) of {2 * w + 2}, cuts as above in '
      'units of delivered outputs (batch(2): W/2); every uninterrupted run is '
      'compared with a list-slice model of the source; num_threads=0; '
      'plus 42 threaded configurations (E1, num_threads 1-2); non-trivial = the uninterrupted run delivers >= 1 element; '
      'distinct = distinct (source, pipeline shape, cut vector, transport, '
      'restore route, continue flag)')
  ctx.assumptions += [
      'num_threads in {1, 2}: 42 pipeline configurations (4 records, cut 0-4, '
      'shardable / round-robin source, with and without aggregate) under the '
      'deterministic scheduler, bounded per configuration (cap reported)',
      'the uninterrupted run of the same configuration is the oracle; it is '
      'cross-checked against a list-slice model of the source (and a list '
      'comprehension over it for pipelines)',
      'long sources are not run with worker threads (a scheduler step per '
      'element); _MAX_BATCH_SIZE=4096 and buffer_size=3*num_threads are '
      'windows of the threaded iterators only',
      'offsets larger than the shard are outside the quantifier',
      'aggregates: full history list, and an in-place (sum, count) object; '
      'sliced aggregates: per-batch history of the masked values, in-place '
      '(sum, number of examples) object',
  ]
  if 'source' in only:
    specs = source_specs(n_src, not quick)
    ctx.notes['source_configurations'] = len(specs)
    units = [(u, (1, max_gen), transports, 0) for u in
             enums.chunks(ctx.shuffled(specs), 128)]
    if n_src4:
      units += [(u, (4, 4), transports, 0) for u in enums.chunks(
          ctx.shuffled(source_specs(n_src4, True)), 64)]
    lspecs = long_source_specs(w, not quick)
    ctx.notes['long_source_configurations'] = len(lspecs)
    # a long configuration costs about as much as 100 short ones
    lunits = [(u, long_gens, transports, w, False) for u in enums.chunks(
        ctx.shuffled(lspecs), max(1, len(lspecs) // 3))]
    ctx.pmap(_source_unit, lunits + [
        u + (i == 0,) for i, u in enumerate(units)])
  if 'pipeline' in only:
    pspecs = pipeline_specs(n_pipe, not quick)
    ctx.notes['pipeline_configurations'] = len(pspecs)
    units = [(u, (1, max_gen), pipe_transports, 0) for u in
             enums.chunks(ctx.shuffled(pspecs), 128 if quick else 256)]
    if n_pipe4:
      units += [(u, (4, 4), pipe_transports, 0) for u in enums.chunks(
          ctx.shuffled(pipeline_specs(n_pipe4, True)), 64)]
    lpspecs = long_pipeline_specs(w, not quick)
    ctx.notes['long_pipeline_configurations'] = len(lpspecs)
    lunits = [(u, long_gens, pipe_transports, w, False) for u in
              enums.chunks(ctx.shuffled(lpspecs),
                           max(1, len(lpspecs) // (2 if quick else 1)))]
    # sliced aggregates (add_slice); a sliced history costs about as much as
    # two unsliced ones
    spspecs = sliced_pipeline_specs(n_sliced, not quick)
    ctx.notes['sliced_pipeline_configurations'] = len(spspecs)
    sunits = [(u, (1, max_gen), SLICED_TRANSPORTS, 0) for u in
              enums.chunks(ctx.shuffled(spspecs), 4 if quick else 24)]
    if not quick:
      lunits += [([ps], (1, 2, (False,)), SLICED_TRANSPORTS, w, False)
                 for ps in long_sliced_pipeline_specs(w)]
    ctx.pmap(_pipeline_unit, lunits + [
        u + (i == 0,) for i, u in enumerate(units)] + [
            u + (i == 0,) for i, u in enumerate(sunits)])
  if 'threads' in only:
    from vmc import explorer
    tc = threaded_configs(quick)
    ctx.notes['threaded_configurations'] = len(tc)
    # num_threads in {1, 2}: every schedule with free switches at blocking
    # points (thorough: <= 1 preemption) of consume-cut / state / from_state /
    # drain, under the deterministic scheduler
    explorer.explore_all(ctx, 'vmc.ckharness', tc,
                         pre_bound=0 if quick else 1, split=0, hb_cache=True,
                         max_execs=400 if quick else 5000)


def threaded_configs(quick):
  """Pipelines with worker threads under the deterministic scheduler (E1)."""
  out = []
  for threads in (1, 2):
    for source in ('seq', 'iter'):
      for cut in (0, 1, 2, 3, 4):
        for agg in (None, 'bag'):
          out.append(('checkpoint_threaded',
                      dict(n=4, threads=threads, source=source, cut=cut,
                           agg=agg)))
  out.append(('checkpoint_threaded', dict(n=4, threads=1, cut=1, pickled=True)))
  out.append(('checkpoint_threaded', dict(n=4, threads=1, cut=2, ops=['aw'],
                                          agg='bag', cuts=[1])))
  return out


def _tup(x):
  return tuple(_tup(y) for y in x) if isinstance(x, list) else x


def replay(ctx, data):
  r = data['replay']
  hist = _tup(r['hist'])
  nt = r.get('num_threads', 0)
  if r['kind'] == 'source':
    spec = _tup(r['spec'])
    _, node = build_source(spec)
    check_source_history(ctx, spec, list(node.iterate()), hist, nt)
  else:
    pspec = _tup(r['pspec'])
    t, full = _uninterrupted(ctx, pspec, nt)
    check_pipeline_history(ctx, pspec, t, full, hist, nt)
