"""C09 - sharding partitions a data source exactly; merged sequences = concatenation.

Exhaustive enumeration (E3) on the real `io.SequenceDataSource`,
`io.ShardedIterable`, `iter_utils.MergedSequences` and
`iter_utils._RangeIterator`:

* shard:    every length n, every split of the n rows into sub-sequences
            (`from_sequences`), every shard count k in 1..n+2, every offset,
            recursively for nested shards; laws: concatenation of the shards ==
            the parent (=> disjoint, complete, ordered), sizes differ by <= 1,
            `len(shard) == len(list(shard))`, `root.from_state(shard.state)`
            (directly, pickled, and through the iterator) yields the same rows,
            and so does the shard's own iterator resumed from its own state.
* receiver: the methods of the source API invoked on a receiver that is itself
            a shard / nested shard / iterator / restored object instead of the
            root source: every reachable receiver x the recorded state of every
            reachable target -> `receiver.from_state(state)` is the target
            (rows and len); shard/len/state of a restored object == those of
            the original; `MultiplexIterator` over the shards of every object,
            stopped after every h rows and resumed by `from_state` on itself, on
            an unused multiplex, on one over the sibling shards, and on the
            restored multiplex.
* iterable: `ShardedIterable` single level (round robin): same laws; every
            shard (source, iterator, restored) rebuilds every sibling shard.
* merged:   every split of n rows into <= P (possibly empty) sub-sequences x
            every integer index x every slice x max_batch_size x container kind
            (including sub-sequences that are themselves MergedSequences);
            oracle: the concatenated Python list (including IndexError).
* range:    `_RangeIterator` / `MergedSequences` over a sub-sequence with one
            failing element at each position x every [start, stop) x read-ahead
            size: every other element exactly once, in order, exactly one error.

Oracle: plain Python lists.
"""
import itertools as itt
import pickle
import signal

from vmc import enums
from vmc.runner import Stats

PROPERTY = 'C09'
LEVEL = 'exploration'

HARNESSES = ('shard', 'receiver', 'iterable', 'merged', 'range')


def val(i):
  """Row i of the source; value != index so a mix-up is observable."""
  return 100 + i


class _Deadline:
  """Turns a hang inside a work unit into an exception (worker main thread)."""

  def __init__(self, seconds):
    self.seconds = seconds

  def _fire(self, *_):
    raise TimeoutError(f'work unit exceeded {self.seconds}s')

  def __enter__(self):
    try:
      self.old = signal.signal(signal.SIGALRM, self._fire)
      signal.setitimer(signal.ITIMER_REAL, self.seconds)
    except ValueError:  # not in the main thread
      self.old = None

  def __exit__(self, *exc):
    if self.old is not None:
      signal.setitimer(signal.ITIMER_REAL, 0)
      signal.signal(signal.SIGALRM, self.old)


# --------------------------------------------------------------------------
# fixtures: containers the library reads through __getitem__/__len__ only
# --------------------------------------------------------------------------

class IndexOnly:
  """Random access by integer only (a slice raises TypeError)."""

  def __init__(self, rows):
    self._rows = list(rows)

  def __len__(self):
    return len(self._rows)

  def __getitem__(self, i):
    return self._rows[i.__index__()]


class FailingSeq:
  """A sequence whose element `bad` cannot be read (ValueError).

  sliceable=True: a slice covering `bad` raises as a whole (eager read);
  sliceable=False: slices are not supported at all (TypeError).
  """

  def __init__(self, rows, bad, sliceable):
    self._rows, self.bad, self.sliceable = list(rows), bad, sliceable

  def __len__(self):
    return len(self._rows)

  def __getitem__(self, i):
    if isinstance(i, slice):
      if not self.sliceable:
        raise TypeError('slicing is not supported')
      idx = range(*i.indices(len(self._rows)))
      if self.bad in idx:
        raise ValueError(f'cannot read element {self.bad}')
      return [self._rows[j] for j in idx]
    i = i.__index__()
    if i == self.bad:
      raise ValueError(f'cannot read element {self.bad}')
    return self._rows[i]


class ReIterable:
  """An Iterable that is neither a Sequence nor an Iterator."""

  def __init__(self, rows):
    self._rows = list(rows)

  def __iter__(self):
    return (r for r in self._rows)


def _container(kind, rows):
  if kind == 'list':
    return list(rows)
  if kind == 'tuple':
    return tuple(rows)
  if kind == 'index-only':
    return IndexOnly(rows)
  if kind == 're-iterable':
    return ReIterable(rows)
  raise ValueError(kind)


def _try(fn):
  """Evaluates fn() -> ('ok', value) | ('raise', exception type name)."""
  try:
    return ('ok', fn())
  except Exception as e:  # pylint: disable=broad-except
    return ('raise', type(e).__name__)


# --------------------------------------------------------------------------
# shard: SequenceDataSource
# --------------------------------------------------------------------------

def _check_recovered(st, where, case, root, node, rows):
  """`root.from_state(node.state)` must be the same shard (3 transports)."""
  state = node.state
  routes = (
      ('from_state', lambda: root.from_state(state)),
      ('from_state(pickled)',
       lambda: root.from_state(pickle.loads(pickle.dumps(state)))),
      ('iterate().from_state', lambda: root.iterate().from_state(state)),
  )
  for name, build in routes:
    got = _try(lambda: list(build()))  # pylint: disable=cell-var-from-loop
    if got != ('ok', rows):
      st.violation(f'C09:{where}.{name}:recovered-shard-differs',
                   {'case': case, 'state': repr(state), 'got': got,
                    'expected': rows}, replay={'case': case})
  # second generation: the state recorded by a *rebuilt* shard / a restored
  # iterator (before and after one step) must again rebuild the same elements
  def regen_source():
    rebuilt = root.from_state(state)
    return list(root.from_state(rebuilt.state))

  def regen_iterator(advance):
    it = root.iterate().from_state(state)
    head = [next(it) for _ in range(advance)]
    return head + list(root.iterate().from_state(it.state))

  checks = [('from_state(from_state().state)', regen_source),
            ('iterate().from_state(restored-iterator.state)',
             lambda: regen_iterator(0))]
  if rows:
    checks.append(('iterate().from_state(restored-iterator.state after next)',
                   lambda: regen_iterator(1)))
  for name, fn in checks:
    got = _try(fn)
    if got != ('ok', rows):
      st.violation(f'C09:{where}.{name}:recovered-shard-differs',
                   {'case': case, 'state': repr(state), 'got': got,
                    'expected': rows}, replay={'case': case})
  got = _try(lambda: len(root.from_state(state)))
  if got != ('ok', len(rows)):
    st.violation(f'C09:{where}.from_state:recovered-len-differs',
                 {'case': case, 'state': repr(state), 'got': got,
                  'expected': len(rows)}, replay={'case': case})
  # the receiver is the shard itself: the iterator of a shard, after one step,
  # resumes from its own recorded state (every receiver x every state at small
  # n: see the `receiver` harness)
  def own_iterator():
    it = node.iterate()
    head = [next(it) for _ in range(min(1, len(rows)))]
    return head + list(it.from_state(it.state))

  got = _try(own_iterator)
  if got != ('ok', rows):
    st.violation(f'C09:{where}.iterate().from_state(own-state)'
                 '[receiver=the-iterator-of-the-shard-itself]:'
                 'recovered-shard-differs',
                 {'case': case, 'state': repr(state), 'got': got,
                  'expected': rows}, replay={'case': case})


def _check_node(st, where, case, root, node, rows):
  """One (possibly offset) shard: true length, rows, recoverable."""
  got = _try(lambda: list(node))
  got_len = _try(lambda: len(node))
  st.outcome((got, got_len))
  if got != ('ok', rows):
    st.violation(f'C09:{where}:rows-differ', {'case': case, 'got': got,
                                              'expected': rows},
                 replay={'case': case})
  if got_len != ('ok', len(rows)):
    st.violation(f'C09:{where}:len-is-not-the-true-length',
                 {'case': case, 'len': got_len, 'rows': got,
                  'expected_rows': rows}, replay={'case': case})
  # a second iteration of the same shard yields the same rows
  again = _try(lambda: list(node.iterate()))
  if again != got:
    st.violation(f'C09:{where}:second-iteration-differs',
                 {'case': case, 'first': got, 'second': again},
                 replay={'case': case})
  _check_recovered(st, where, case, root, node, rows)


def _check_partition(st, where, case, parent_rows, shards):
  """Laws of a contiguous partition.  Returns the rows per shard or None."""
  got = [_try(lambda s=s: list(s)) for s in shards]
  st.outcome(tuple(map(repr, got)))
  if any(g[0] != 'ok' for g in got):
    st.violation(f'C09:{where}:raise', {'case': case, 'got': got},
                 replay={'case': case})
    return None
  parts = [g[1] for g in got]
  problems = []
  flat = list(itt.chain.from_iterable(parts))
  if sorted(flat) != sorted(parent_rows):
    problems.append('not-a-partition')      # lost or duplicated rows
  elif flat != parent_rows:
    problems.append('order-not-preserved')
  sizes = [len(p) for p in parts]
  if max(sizes) - min(sizes) > 1:
    problems.append('sizes-differ-by-more-than-one')
  if problems:
    st.violation(f'C09:{where}:' + '+'.join(problems),
                 {'case': case, 'shards': parts, 'parent': parent_rows},
                 replay={'case': case})
    return None
  return parts


def _explore_shards(st, split, root, node, rows, path, depth, offsets_all):
  """All (k, i, offset) below `node`, recursively down to `depth` levels."""
  n = len(rows)
  level = len(path) + 1
  where = 'SequenceDataSource.shard' if level == 1 else (
      f'SequenceDataSource.shard(nested-{level})')
  for k in range(1, n + 3):
    case = ('shard', split, path, k)
    st.case(case, nontrivial=n > 0)
    shards = _try(lambda: [node.shard(i, k) for i in range(k)])  # pylint: disable=cell-var-from-loop
    if shards[0] != 'ok':
      st.violation(f'C09:{where}:raise', {'case': case, 'got': shards},
                   replay={'case': case})
      continue
    shards = shards[1]
    parts = _check_partition(st, where, case, rows, shards)
    if parts is None:
      continue
    for i, (shard, part) in enumerate(zip(shards, parts)):
      _check_node(st, where, case + (i, 0), root, shard, part)
      offsets = range(len(part) + 1) if offsets_all else sorted(
          {0, 1, len(part)} & set(range(len(part) + 1)))
      for off in offsets:
        ocase = case + (i, off)
        if off:
          st.case(ocase)
          sub = _try(lambda: node.shard(i, k, offset=off))  # pylint: disable=cell-var-from-loop
          if sub[0] != 'ok':
            st.violation(f'C09:{where}(offset):raise',
                         {'case': ocase, 'got': sub}, replay={'case': case})
            continue
          sub = sub[1]
          _check_node(st, where + '(offset)', ocase, root, sub, part[off:])
        else:
          sub = shard
        if depth > 1:
          _explore_shards(st, split, root, sub, part[off:],
                          path + ((i, k, off),), depth - 1, offsets_all)


def _shard_unit(args):
  from ml_metrics._src.chainables import io
  splits, depth, offsets_all, want_sample = args
  st = Stats()
  with _Deadline(3600):
    for split in splits:
      n = sum(split)
      rows = [val(i) for i in range(n)]
      pieces = enums.cut(rows, split)
      if len(split) == 1:
        root = io.SequenceDataSource(pieces[0])
      else:
        root = io.SequenceDataSource.from_sequences(pieces)
      case = ('source', split)
      st.case(case, nontrivial=n > 0)
      _check_node(st, 'SequenceDataSource', case, root, root, rows)
      _explore_shards(st, split, root, root, rows, (), depth, offsets_all)
  if want_sample and splits:
    split = max(splits, key=sum)
    rows = [val(i) for i in range(sum(split))]
    pieces = enums.cut(rows, split)
    root = (io.SequenceDataSource(pieces[0]) if len(split) == 1 else
            io.SequenceDataSource.from_sequences(pieces))
    st.sample({
        'driver': 'SequenceDataSource.shard', 'sub_sequences': pieces,
        'k': 3, 'shards': _try(lambda: [list(root.shard(i, 3))
                                        for i in range(3)]),
        'shard(1,3,offset=1).shard(0,2)': _try(
            lambda: list(root.shard(1, 3, offset=1).shard(0, 2))),
        'its_state': _try(
            lambda: repr(root.shard(1, 3, offset=1).shard(0, 2).state)),
        'explored_below_this_source': f'every k in 1..len+2, shard index, '
                                      f'offset, to nesting depth {depth}'})
  return st


# --------------------------------------------------------------------------
# receiver: every method of the source API on every reachable object
# --------------------------------------------------------------------------

def _make_root(split):
  from ml_metrics._src.chainables import io
  rows = [val(i) for i in range(sum(split))]
  pieces = enums.cut(rows, split)
  if len(split) == 1:
    return io.SequenceDataSource(pieces[0])
  return io.SequenceDataSource.from_sequences(pieces)


def _reachable(root, depth):
  """{path: (object, rows)}: everything reachable by <= depth shard() calls.

  path = ((shard_index, num_shards, offset), ...); () is the source itself.
  The rows of an object are what it yields itself (the laws of those rows are
  the `shard` harness); objects that cannot be built or read are left out
  (reported by the `shard` harness).
  """
  out = {}

  def add(path, obj, d):
    got = _try(lambda: list(obj))
    if got[0] != 'ok':
      return None
    out[path] = (obj, got[1])
    if d > 0:
      for k in range(1, len(got[1]) + 3):
        for i in range(k):
          base = _try(lambda: obj.shard(i, k))  # pylint: disable=cell-var-from-loop
          if base[0] != 'ok':
            continue
          part = add(path + ((i, k, 0),), base[1], d - 1)
          for off in range(1, len(part or ()) + 1):
            sub = _try(lambda: obj.shard(i, k, offset=off))  # pylint: disable=cell-var-from-loop
            if sub[0] == 'ok':
              add(path + ((i, k, off),), sub[1], d - 1)
    return got[1]

  add((), root, depth)
  return out


_LEVEL_NAME = ('source', 'shard', 'nested-shard')


def _level_name(path):
  return _LEVEL_NAME[min(len(path), 2)]


def _advanced(obj, rows):
  it = obj.iterate()
  for _ in range(min(1, len(rows))):
    next(it)
  return it


# how a receiver is derived from a reachable object
RECEIVER_FORMS = (
    ('SequenceDataSource', lambda root, obj, rows: obj),
    ('SequenceIterator', lambda root, obj, rows: _advanced(obj, rows)),
    ('restored-SequenceDataSource',
     lambda root, obj, rows: root.from_state(obj.state)),
)


def check_receivers(st, split, depth, recv_depth, chunk=(0, 1)):
  """receiver.from_state(target.state) == target, for receivers x targets."""
  root = _make_root(split)
  objs = _reachable(root, depth)
  targets = [(p, _try(lambda o=o: o.state), rows)
             for p, (o, rows) in sorted(objs.items())]
  targets = [(p, s[1], rows) for p, s, rows in targets if s[0] == 'ok']
  receivers = [p for p in sorted(objs) if len(p) <= recv_depth]
  receivers = receivers[chunk[0]::chunk[1]]
  nontrivial = sum(split) > 0
  for rpath in receivers:
    robj, rrows = objs[rpath]
    for form, derive in RECEIVER_FORMS:
      recv = _try(lambda: derive(root, robj, rrows))  # pylint: disable=cell-var-from-loop
      if recv[0] != 'ok':
        continue  # the derivation itself is checked by the `shard` harness
      recv = recv[1]
      sized = form != 'SequenceIterator'
      where = f'{form}({_level_name(rpath)}).from_state'
      seen = []
      for tpath, tstate, trows in targets:
        case = ('receiver', split, rpath, form, tpath)
        st.case(case, nontrivial=nontrivial)

        def rebuild():
          got = recv.from_state(tstate)  # pylint: disable=cell-var-from-loop
          return (len(got) if sized else None), list(got)  # pylint: disable=cell-var-from-loop

        got = _try(rebuild)
        seen.append(got)
        if got != ('ok', (len(trows) if sized else None, trows)):
          st.violation(
              f'C09:{where}:recovered-object-differs',
              {'case': case, 'target': _level_name(tpath),
               'receiver_yields': rrows, 'state': repr(tstate),
               'got (len, rows)': got, 'expected_rows': trows},
              replay={'case': ('receiver', split, depth, recv_depth)})
      st.outcome((form, len(rpath), tuple(seen)))


def check_restored_api(st, split, depth):
  """shard()/len()/state of a *restored* object == those of the original."""
  root = _make_root(split)
  objs = _reachable(root, depth)
  restored = {}
  for path, (_, rows) in sorted(objs.items()):
    if not path:
      continue
    parent, (i, k, off) = path[:-1], path[-1]
    if parent not in restored:
      restored[parent] = _try(
          lambda: root.from_state(objs[parent][0].state))  # pylint: disable=cell-var-from-loop
    if restored[parent][0] != 'ok':
      continue
    rparent = restored[parent][1]
    case = ('restored-api', split, path)
    st.case(case, nontrivial=sum(split) > 0)

    def via_restored():
      sub = rparent.shard(i, k, offset=off) if off else rparent.shard(i, k)  # pylint: disable=cell-var-from-loop
      return len(sub), list(sub), list(root.from_state(sub.state))

    got = _try(via_restored)
    st.outcome(('restored-api', got))
    if got != ('ok', (len(rows), rows, rows)):
      st.violation(
          f'C09:SequenceDataSource.from_state({_level_name(parent)}-state)'
          '.shard:differs-from-shard-of-the-original',
          {'case': case, 'got (len, rows, rows rebuilt from its state)': got,
           'expected_rows': rows},
          replay={'case': ('restored-api', split, depth)})


def _multiplex_receivers(iter_utils, used, shards):
  """Multiplex iterators whose from_state must be interchangeable."""
  k = len(shards)
  yield 'itself', lambda: used
  yield 'unused', lambda: iter_utils.MultiplexIterator(data_sources=shards)
  if k > 1:
    # every state is rebuilt by a sibling shard
    yield 'over-rotated-siblings', lambda: iter_utils.MultiplexIterator(
        data_sources=shards[1:] + shards[:1])


def check_multiplex(st, driver, case, shards, parts):
  """MultiplexIterator over all shards of one object: stop after h, resume."""
  from ml_metrics._src.utils import iter_utils
  rows = list(itt.chain.from_iterable(parts))
  for h in range(len(rows) + 1):
    hcase = case + (h,)
    st.case(hcase, nontrivial=bool(rows))

    def stop_after_h():
      it = iter_utils.MultiplexIterator(data_sources=shards)
      head = [next(it) for _ in range(h)]  # pylint: disable=cell-var-from-loop
      return it, head, it.state

    first = _try(stop_after_h)
    if first[0] != 'ok':
      st.violation(f'C09:MultiplexIterator({driver}-shards).state:raise',
                   {'case': hcase, 'got': first}, replay={'case': case})
      continue
    used, head, states = first[1]
    for name, recv in _multiplex_receivers(iter_utils, used, shards):
      got = _try(lambda: head + list(recv().from_state(states)))  # pylint: disable=cell-var-from-loop
      st.outcome(('multiplex', name, got))
      if got != ('ok', rows):
        st.violation(
            f'C09:MultiplexIterator({driver}-shards).from_state({name}):'
            'resumed-rows-differ',
            {'case': hcase, 'receiver': name, 'states': repr(states),
             'got': got, 'expected': rows}, replay={'case': case})

    # the receiver is a *restored* multiplex (over restored shards): resume,
    # take one more step, resume again from the state of the resumed iterator
    def resumed_twice():
      resumed = used.from_state(states)
      more = [next(resumed) for _ in range(min(1, len(rows) - h))]  # pylint: disable=cell-var-from-loop
      return head + more + list(resumed.from_state(resumed.state))  # pylint: disable=cell-var-from-loop

    got = _try(resumed_twice)
    if got != ('ok', rows):
      st.violation(
          f'C09:MultiplexIterator({driver}-shards).from_state(restored):'
          'resumed-rows-differ',
          {'case': hcase, 'receiver': 'the multiplex restored from `states`, '
           'after one more step', 'states': repr(states), 'got': got,
           'expected': rows}, replay={'case': case})


def check_multiplex_sequence(st, split, depth):
  """Every reachable object of depth < `depth`, sharded k ways, multiplexed."""
  root = _make_root(split)
  objs = _reachable(root, depth)
  for path, (_, rows) in sorted(objs.items()):
    if len(path) >= depth:
      continue
    for k in range(1, len(rows) + 3):
      kids = [objs.get(path + ((i, k, 0),)) for i in range(k)]
      if any(kid is None for kid in kids):
        continue
      check_multiplex(st, 'SequenceDataSource',
                      ('multiplex', split, path, k),
                      [kid[0] for kid in kids], [kid[1] for kid in kids])


def _receiver_unit(args):
  kind, split, depth, recv_depth, chunk, want_sample = args
  st = Stats()
  with _Deadline(3600):
    if kind == 'receiver':
      check_receivers(st, split, depth, recv_depth, chunk)
    else:
      check_restored_api(st, split, depth)
      check_multiplex_sequence(st, split, depth)
  if want_sample:
    from ml_metrics._src.utils import iter_utils
    root = _make_root(split)
    k = 2
    shards = [root.shard(i, k) for i in range(k)]
    target = shards[0].shard(0, 2)

    def multiplexed():
      it = iter_utils.MultiplexIterator(data_sources=shards)
      head = [next(it) for _ in range(min(1, sum(split)))]
      return head, repr(it.state), list(it.from_state(it.state))

    st.sample({
        'driver': 'from_state on a receiver that is itself a shard',
        'sub_sequence_sizes': split, 'k': k,
        'shards': _try(lambda: [list(s) for s in shards]),
        'target': 'shard(0,2).shard(0,2)',
        'target_rows': _try(lambda: list(target)),
        'shard(1,2).from_state(target.state)': _try(
            lambda: list(shards[1].from_state(target.state))),
        'shard(1,2).iterate().from_state(target.state)': _try(
            lambda: list(shards[1].iterate().from_state(target.state))),
        'multiplex (head, states, resumed)': _try(multiplexed),
        'explored_for_this_source': (
            f'every object reachable by <= {recv_depth} shard() calls (as '
            'source, as iterator after one step, restored from its state) x '
            f'the state of every object reachable by <= {depth} calls')})
  return st


# --------------------------------------------------------------------------
# iterable: ShardedIterable (round robin, single level)
# --------------------------------------------------------------------------

def _iterable_unit(args):
  from ml_metrics._src.chainables import io
  ns, kinds, want_sample = args
  st = Stats()
  with _Deadline(3600):
    for n, kind in itt.product(ns, kinds):
      rows = [val(i) for i in range(n)]
      root = io.ShardedIterable(_container(kind, rows))
      case = ('iterable', n, kind)
      st.case(case, nontrivial=n > 0)
      got = _try(lambda: list(root))  # pylint: disable=cell-var-from-loop
      if got != ('ok', rows):
        st.violation('C09:ShardedIterable:rows-differ',
                     {'case': case, 'got': got, 'expected': rows},
                     replay={'case': case})
      for k in range(1, n + 3):
        case = ('iterable', n, kind, k)
        st.case(case, nontrivial=n > 0)
        shards = _try(lambda: [root.shard(i, k) for i in range(k)])  # pylint: disable=cell-var-from-loop
        if shards[0] != 'ok':
          st.violation('C09:ShardedIterable.shard:raise',
                       {'case': case, 'got': shards}, replay={'case': case})
          continue
        shards = shards[1]
        got = [_try(lambda s=s: list(s)) for s in shards]
        st.outcome(tuple(map(repr, got)))
        if any(g[0] != 'ok' for g in got):
          st.violation('C09:ShardedIterable.shard:raise',
                       {'case': case, 'got': got}, replay={'case': case})
          continue
        parts = [g[1] for g in got]
        problems = []
        flat = list(itt.chain.from_iterable(parts))
        if sorted(flat) != sorted(rows):
          problems.append('not-a-partition')
        if any(p != sorted(p) for p in parts):
          problems.append('order-not-preserved')
        sizes = [len(p) for p in parts]
        if max(sizes) - min(sizes) > 1:
          problems.append('sizes-differ-by-more-than-one')
        if not problems and parts != [rows[i::k] for i in range(k)]:
          problems.append('not-round-robin')
        if problems:
          st.violation('C09:ShardedIterable.shard:' + '+'.join(problems),
                       {'case': case, 'shards': parts}, replay={'case': case})
          continue
        for i, (shard, part) in enumerate(zip(shards, parts)):
          state = shard.state
          for name, build in (
              ('from_state', lambda: root.from_state(state)),
              ('from_state(pickled)',
               lambda: root.from_state(pickle.loads(pickle.dumps(state)))),
              ('iterate().from_state',
               lambda: root.iterate().from_state(state)),
          ):
            rec = _try(lambda: list(build()))  # pylint: disable=cell-var-from-loop
            if rec != ('ok', part):
              st.violation(
                  f'C09:ShardedIterable.{name}:recovered-shard-differs',
                  {'case': case + (i,), 'state': repr(state), 'got': rec,
                   'expected': part}, replay={'case': case})
        # receivers that are themselves shards: every shard j (as a source,
        # as its iterator after one step, restored from its state, restored
        # from the state of that iterator) rebuilds every shard i
        for j, (recv_shard, recv_part) in enumerate(zip(shards, parts)):
          forms = (
              ('ShardedIterable', lambda: recv_shard),
              ('DataIterator', lambda: _advanced(recv_shard, recv_part)),
              ('restored-ShardedIterable',
               lambda: root.from_state(recv_shard.state)),
              ('ShardedIterable-restored-from-its-iterator-state',
               lambda: root.from_state(_advanced(recv_shard, recv_part).state)),
          )
          for form, derive in forms:
            recv = _try(derive)
            if recv[0] != 'ok':
              st.violation(f'C09:{form}(shard):raise',
                           {'case': case + (j,), 'got': recv},
                           replay={'case': case})
              continue
            recv = recv[1]
            for i, (shard, part) in enumerate(zip(shards, parts)):
              st.case(('iterable-receiver', n, kind, k, j, form, i),
                      nontrivial=n > 0)
              state = shard.state
              rec = _try(lambda: list(recv.from_state(state)))  # pylint: disable=cell-var-from-loop
              st.outcome(('iterable-receiver', form, rec))
              if rec != ('ok', part):
                st.violation(
                    f'C09:{form}(shard).from_state:recovered-shard-differs',
                    {'case': case + (j, i), 'state': repr(state),
                     'receiver_yields': recv_part, 'got': rec,
                     'expected': part}, replay={'case': case})
        check_multiplex(st, 'ShardedIterable', ('iterable-multiplex', n, kind, k),
                        shards, parts)
  if want_sample:
    rows = [val(i) for i in range(5)]
    root = io.ShardedIterable(rows)
    st.sample({'driver': 'ShardedIterable.shard', 'rows': rows, 'k': 3,
               'shards': _try(lambda: [list(root.shard(i, 3))
                                       for i in range(3)]),
               'state_of_shard_1': _try(lambda: repr(root.shard(1, 3).state))})
  return st


# --------------------------------------------------------------------------
# merged: MergedSequences == concatenation
# --------------------------------------------------------------------------

def _index_class(n, split, i):
  cls = 'in-range' if -n <= i < n else 'out-of-range'
  if 0 in split:
    cls += '+empty-sub-sequence'
  return cls


def _slice_class(n, a, b):
  """Narrow input class of a slice (used in signatures)."""
  if (a is not None and a < -n) or (b is not None and b < -n):
    return 'bound-below-minus-len'
  lo, hi, _ = slice(a, b).indices(n)
  if lo > hi:
    return 'start-after-stop'
  if (a is not None and a > n) or (b is not None and b > n):
    return 'bound-above-len'
  return 'ordinary'


def _symptom(got, exp):
  if got[0] == 'raise' and exp[0] == 'ok':
    return 'raises-' + got[1]
  if got[0] == 'ok' and exp[0] == 'raise':
    return 'returns-instead-of-' + exp[1]
  if got[0] == 'raise':
    return f'raises-{got[1]}-instead-of-{exp[1]}'
  g, e = got[1], exp[1]
  if isinstance(e, list) and isinstance(g, list):
    if len(g) > len(e):
      return 'extra-elements'
    if len(g) < len(e):
      return 'missing-elements'
  return 'wrong-elements'


def check_merged(st, split, kind, mbs, only=None):
  """only: None | ('iter',) | ('index', i) | ('slice', a, b) for a replay."""
  from ml_metrics._src.utils import iter_utils
  n = sum(split)
  rows = [val(i) for i in range(n)]
  if isinstance(kind, tuple):
    # ('merged', cuts): sub-sequence j is itself a MergedSequences of its rows
    # cut at cuts[j] (a merged sequence nested in a merged sequence)
    pieces = [iter_utils.MergedSequences([p[:c], p[c:]], max_batch_size=mbs)
              for p, c in zip(enums.cut(rows, split), kind[1])]
  else:
    pieces = [_container(kind, p) for p in enums.cut(rows, split)]
  make = lambda: iter_utils.MergedSequences(pieces, max_batch_size=mbs)
  nontrivial = n > 0
  case = ('merged', split, kind, mbs)
  want = lambda *what: only is None or tuple(only) == what
  # len / iteration
  m = make()
  if want('iter'):
    st.case(case + ('iter',), nontrivial=nontrivial)
    got = (_try(lambda: len(m)), _try(lambda: list(m)), _try(lambda: list(m)))
    st.outcome(got)
    if got != (('ok', n), ('ok', rows), ('ok', rows)):
      st.violation(
          'C09:MergedSequences.__iter__/__len__:differs-from-concatenation',
          {'case': case, 'got': got, 'expected': rows},
          replay={'case': case, 'only': ('iter',)})
  # integer indices (independent of the read-ahead size: only for one mbs)
  if mbs == 1 or only:
    for i in range(-n - 1, n + 1):
      if not want('index', i):
        continue
      st.case(case + ('index', i), nontrivial=nontrivial)
      exp = _try(lambda: rows[i])  # pylint: disable=cell-var-from-loop
      got = _try(lambda: m[i])  # pylint: disable=cell-var-from-loop
      st.outcome(('index', got))
      if got != exp:
        st.violation(
            'C09:MergedSequences.__getitem__:' + _symptom(got, exp) + ':' +
            _index_class(n, split, i),
            {'case': case, 'index': i, 'got': got, 'expected': exp},
            replay={'case': case, 'only': ('index', i)})
  # slices
  bounds = [None] + list(range(-n - 1, n + 2))
  for a, b in itt.product(bounds, bounds):
    if not want('slice', a, b):
      continue
    st.case(case + ('slice', a, b), nontrivial=nontrivial)
    exp = ('ok', rows[a:b])
    got = _try(lambda: list(m[a:b]))  # pylint: disable=cell-var-from-loop
    st.outcome(('slice', got))
    if got != exp:
      st.violation(
          'C09:MergedSequences.slice:' + _symptom(got, exp) + ':' +
          _slice_class(n, a, b),
          {'case': case, 'slice': [a, b], 'got': got, 'expected': exp},
          replay={'case': case, 'only': ('slice', a, b)})


def _merged_unit(args):
  splits, kinds, mbss, nested, want_sample = args
  n_nested, p_nested, mbs_nested = nested
  st = Stats()
  with _Deadline(3600):
    for split in splits:
      for kind in kinds:
        for mbs in mbss:
          check_merged(st, tuple(split), kind, mbs)
      if sum(split) <= n_nested and 0 < len(split) <= p_nested:
        for cuts in itt.product(*[range(size + 1) for size in split]):
          for mbs in mbs_nested:
            check_merged(st, tuple(split), ('merged', cuts), mbs)
  if want_sample and splits:
    from ml_metrics._src.utils import iter_utils
    split = tuple(max(splits, key=sum))
    rows = [val(i) for i in range(sum(split))]
    pieces = enums.cut(rows, split)
    m = iter_utils.MergedSequences(pieces, max_batch_size=2)
    st.sample({'driver': 'MergedSequences', 'sub_sequences': pieces,
               'max_batch_size': 2, 'm[-2]': _try(lambda: m[-2]),
               'm[1:-1]': _try(lambda: list(m[1:-1])),
               'list(m)': _try(lambda: list(m)),
               'explored_for_this_split': 'every index in [-n-1, n], every '
               'slice bound pair in ([-n-1, n+1] + None)^2'})
  return st


# --------------------------------------------------------------------------
# range: read-ahead fallback with one unreadable element
# --------------------------------------------------------------------------

class _Bounded:
  """Iterator wrapper that turns an endless stream of events into an error.

  `iter_ignore_error` retries forever when its input never progresses; the
  wrapper raises a non-ignorable error after `limit` calls instead.
  """

  def __init__(self, it, limit):
    self._it, self._left = iter(it), limit

  def __iter__(self):
    return self

  def __next__(self):
    self._left -= 1
    if self._left < 0:
      raise RuntimeError('no termination')
    return next(self._it)


def _events(it, limit):
  """Drives an iterator: list of ('v', x) | ('e', type) ... ('stop',)."""
  out = []
  for _ in range(limit):
    try:
      out.append(('v', next(it)))
    except StopIteration:
      out.append(('stop',))
      return out
    except Exception as e:  # pylint: disable=broad-except
      out.append(('e', type(e).__name__))
  out.append(('no-termination',))
  return out


def _expected_events(rows, start, stop, bad):
  out = []
  for i in range(start, stop):
    out.append(('e', 'ValueError') if i == bad else ('v', rows[i]))
  out.append(('stop',))
  return out


def check_range(st, n, bad, sliceable, start, stop, mbs):
  from ml_metrics._src.utils import iter_utils
  rows = [val(i) for i in range(n)]
  case = ('range', n, bad, sliceable, start, stop, mbs)
  st.case(case, nontrivial=stop > start)
  seq = FailingSeq(rows, bad, sliceable)
  it = iter_utils._RangeIterator(seq, start, stop, mbs)  # pylint: disable=protected-access
  got = _events(it, 2 * n + 6)
  exp = _expected_events(rows, start, stop, bad)
  st.outcome(tuple(got))
  if got != exp:
    gv = [e for e in got if e[0] == 'v']
    ev = [e for e in exp if e[0] == 'v']
    what = ('no-termination' if got[-1] == ('no-termination',) else
            'elements-lost-or-duplicated' if gv != ev else 'error-events-differ')
    st.violation(f'C09:_RangeIterator:{what}',
                 {'case': case, 'got': got, 'expected': exp},
                 replay={'case': case})


def check_merged_failing(st, split, which, bad, sliceable, a, b, mbs):
  """MergedSequences slice [a:b] where sub-sequence `which` has a bad row."""
  from ml_metrics._src.utils import iter_utils
  n = sum(split)
  rows = [val(i) for i in range(n)]
  case = ('merged-failing', split, which, bad, sliceable, a, b, mbs)
  st.case(case, nontrivial=b > a)
  pieces = enums.cut(rows, split)
  seqs = [FailingSeq(p, bad, sliceable) if j == which else list(p)
          for j, p in enumerate(pieces)]
  gbad = sum(split[:which]) + bad
  m = iter_utils.MergedSequences(seqs, max_batch_size=mbs)
  got = _events(m[a:b], 2 * n + 6)
  exp = _expected_events(rows, a, b, gbad)
  st.outcome(tuple(got))
  if got != exp:
    st.violation('C09:MergedSequences.slice(unreadable-element):events-differ',
                 {'case': case, 'got': got, 'expected': exp},
                 replay={'case': case})
  # the documented use: skipping the unreadable element
  got = _try(lambda: list(iter_utils.iter_ignore_error(
      _Bounded(m[a:b], 2 * n + 6))))
  exp = ('ok', [r for i, r in enumerate(rows) if a <= i < b and i != gbad])
  if got != exp:
    st.violation(
        'C09:iter_ignore_error(MergedSequences.slice):rows-differ',
        {'case': case, 'got': got, 'expected': exp}, replay={'case': case})


def _range_unit(args):
  cases, mbss, msplits, want_sample = args
  st = Stats()
  with _Deadline(3600):
    for n, bad in cases:
      for sliceable in (True, False):
        for start in range(n + 1):
          for stop in range(start, n + 1):
            for mbs in mbss:
              check_range(st, n, bad, sliceable, start, stop, mbs)
    for split, mmbs in msplits:
      n = sum(split)
      for which, size in enumerate(split):
        for bad in range(size):
          for sliceable in (True, False):
            for a in range(n + 1):
              for b in range(a, n + 1):
                for mbs in mmbs:
                  check_merged_failing(st, tuple(split), which, bad, sliceable,
                                       a, b, mbs)
  if want_sample and cases:
    from ml_metrics._src.utils import iter_utils
    n, bad = cases[0]
    rows = [val(i) for i in range(n)]
    it = iter_utils._RangeIterator(FailingSeq(rows, bad, True), 0, n, 4)  # pylint: disable=protected-access
    st.sample({'driver': '_RangeIterator', 'rows': rows,
               'unreadable_index': bad, 'start': 0, 'stop': n,
               'max_batch_size': 4, 'events': _events(it, 2 * n + 6)})
  return st


# --------------------------------------------------------------------------

def _splits(max_n, max_parts):
  out = []
  for n in range(max_n + 1):
    for p in range(1, max_parts + 1):
      out.extend(enums.weak_compositions(n, p))
  return out


def _unit(item):
  """Dispatches one work unit (name of the unit function, its argument)."""
  name, args = item
  return globals()[name](args)


def run(ctx):
  quick = ctx.quick
  only = getattr(ctx, 'only', None) or HARNESSES
  # -- bounds --------------------------------------------------------------
  n_single = 8 if quick else 16      # one sub-sequence, nesting depth 2
  n_deep = 5 if quick else 8         # nesting depth 3
  n_multi, p_multi = (5, 3) if quick else (7, 4)   # from_sequences splits
  n_merged, p_merged = (5, 4) if quick else (7, 5)
  # receivers: (max n, nesting depth of the targets, of the receivers)
  recv_single = ((2, 2, 2), (3, 2, 1)) if quick else ((3, 2, 2), (6, 2, 1))
  recv_multi = ((0, 2, 2), (2, 2, 1)) if quick else ((2, 2, 2), (4, 2, 1))
  mbss = (1, 2, 3, 64)
  # merged sequences nested in a merged sequence: (max n, max parts, sizes)
  nested = (3, 3, (1, 64)) if quick else (6, 3, mbss)
  n_range = 6 if quick else 10
  range_mbss = (1, 2, 3, 4, 5, 8, 16, 64)
  ctx.rule = (
      f'SequenceDataSource: every n<={n_single} (single sequence, nesting depth '
      f'2), n<={n_deep} (depth 3), and every split of n<={n_multi} rows into '
      f'<={p_multi} possibly empty sub-sequences (from_sequences, depth 2) x '
      'every k in 1..len+2 x every shard index x every offset 0..len at every '
      'level, each rebuilt from its state through the source and through '
      'its own iterator; receivers (from_state / shard / len / iterate invoked on an '
      'object that is itself a shard, a nested shard, an iterator or restored): '
      'O_d = every object reachable by <= d shard(i,k,offset) calls; every '
      'receiver in O_r {as source, as iterator after one step, restored from '
      'its own state} x the state of every target in O_2 must rebuild the '
      f'target (rows, len), with r=2 for n<={recv_single[0][0]} and r=1 for '
      f'n<={recv_single[1][0]} (single sequence), r=2 for n<='
      f'{recv_multi[0][0]} and r=1 for n<={recv_multi[1][0]} (every split into '
      '2 possibly empty sub-sequences); shard/len/state of every restored '
      'object of O_1 == those of the original; MultiplexIterator over the k '
      'shards of every object of O_1 (and of a ShardedIterable) x stopped '
      'after every h in 0..len x from_state invoked on {itself, an unused '
      'multiplex, a multiplex over the rotated sibling shards, the restored '
      'multiplex after one more step}; '
      f'ShardedIterable: n<={n_single} x k in 1..n+2 x 3 containers, every '
      'shard j {source, iterator after one step, restored, restored from its '
      'iterator state} x state of every shard i; '
      f'MergedSequences: every split of n<={n_merged} rows into <={p_merged} '
      'possibly empty sub-sequences (and zero sub-sequences) x {list, tuple, '
      'index-only} x every index in [-n-1,n] x every slice bound pair in '
      f'([-n-1,n+1] + None)^2 x max_batch_size in {mbss}, and the same with '
      f'every sub-sequence itself a MergedSequences (n<={nested[0]}, <='
      f'{nested[1]} sub-sequences, each cut in two at every position, '
      f'max_batch_size in {nested[2]}); _RangeIterator: '
      f'n<={n_range} x every unreadable position x sliceable/index-only x every '
      f'0<=start<=stop<=n x max_batch_size in {range_mbss}, and the same '
      'through MergedSequences slices of <=3 sub-sequences; non-trivial = at '
      'least one row; distinct = distinct (driver, split, path, k, index, '
      'offset | index | slice | range)')
  ctx.assumptions += [
      'rows are the distinct integers 100+i; sub-sequence containers are '
      'list/tuple/an index-only class/a re-iterable class',
      'ShardedIterable is checked single level (its shard() replaces instead '
      'of nesting, by design)',
      'receiver harness: the expected rows of a reachable object are the rows '
      'it yields itself (their partition laws are checked by the shard harness '
      'on a superset of these sources); from_state is required to be '
      'independent of the shard position of its receiver (same data)',
      'slices with a step are documented as unsupported and are not enumerated',
      'an unreadable element raises ValueError; a sliceable container fails a '
      'slice read eagerly (nothing of the slice is returned)',
  ]
  work = []
  if 'shard' in only:
    units = []
    singles = [(n,) for n in range(n_single + 1)]
    for s in singles:
      units.append(([s], 2, True))
    for n in range(n_deep + 1):
      units.append(([(n,)], 3, True))
    multi = [s for s in _splits(n_multi, p_multi) if len(s) > 1]
    for u in enums.chunks(ctx.shuffled(multi), 48):
      units.append((u, 2, True))
    units = sorted(units, key=lambda u: -sum(map(sum, u[0])))   # big first
    work += [('_shard_unit', u + (i == 0 or u == ([(n_deep,)], 3, True),))
             for i, u in enumerate(units)]
    ctx.notes['shard_source_splits'] = len(singles) + len(multi)
  if 'receiver' in only:
    units = []
    for bounds, parts in ((recv_single, 1), (recv_multi, 2)):
      (n_full, depth, r_full), (n_max, _, r_part) = bounds
      for n in range(n_max + 1):
        for split in enums.weak_compositions(n, parts):
          r = r_full if n <= n_full else r_part
          m = max(1, min(16, ((n + 1) ** (2 * r)) // 16))
          for j in range(m):
            units.append(('receiver', split, depth, r, (j, m)))
          units.append(('api', split, depth, r, (0, 1)))
    units = sorted(units, key=lambda u: (-sum(u[1]), u[0] != 'receiver'))
    work += [('_receiver_unit', u + (i == 0,)) for i, u in enumerate(units)]
    ctx.notes['receiver_units'] = len(units)
  if 'iterable' in only:
    kinds = ('list', 'tuple', 're-iterable')
    ns = list(range(n_single + 1))
    work += [('_iterable_unit', (u, kinds, i == 0)) for i, u in
             enumerate(enums.chunks(ns, 8))]
  if 'merged' in only:
    splits = [()] + _splits(n_merged, p_merged)
    kinds = ('list', 'tuple', 'index-only')
    work += [('_merged_unit', (u, kinds, mbss, nested, i == 0))
             for i, u in enumerate(enums.chunks(ctx.shuffled(splits), 64))]
    ctx.notes['merged_splits'] = len(splits)
  if 'range' in only:
    cases = [(n, bad) for n in range(1, n_range + 1) for bad in range(n)]
    msplits = [(s, (1, 2, 4, 64)) for s in _splits(4 if quick else 5, 3)
               if len(s) > 1]
    units = [([c], range_mbss, []) for c in cases]
    units += [([], range_mbss, u) for u in
              enums.chunks(ctx.shuffled(msplits), 32)]
    units = [u + (i == len(cases) - 1,) for i, u in enumerate(units)]
    work += [('_range_unit', u) for u in ctx.shuffled(units)]
  # one pool for all harnesses (the big shard units first, see above)
  ctx.pmap(_unit, work)


def replay(ctx, data):
  case = data['replay']['case']
  kind = case[0]
  tup = lambda x: tuple(tup(y) for y in x) if isinstance(x, list) else x
  if kind in ('source', 'shard'):
    split = tup(case[1])
    depth = max(2, len(case[2]) + 1) if kind == 'shard' else 2
    ctx.merge(_shard_unit(([split], depth, True, False)))
  elif kind == 'receiver':
    check_receivers(ctx, tup(case[1]), case[2], case[3])
  elif kind == 'restored-api':
    check_restored_api(ctx, tup(case[1]), case[2])
  elif kind == 'multiplex':
    check_multiplex_sequence(ctx, tup(case[1]), max(2, len(case[2]) + 1))
  elif kind in ('iterable', 'iterable-multiplex'):
    ctx.merge(_iterable_unit(([case[1]], (case[2],), False)))
  elif kind == 'merged':
    check_merged(ctx, tup(case[1]), tup(case[2]), case[3],
                 only=data['replay'].get('only'))
  elif kind == 'range':
    check_range(ctx, *case[1:])
  elif kind == 'merged-failing':
    check_merged_failing(ctx, tup(case[1]), *case[2:])
  else:
    raise ValueError(f'unknown replay case {case!r}')
