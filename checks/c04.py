"""C04 - iterator queues deliver every element exactly once and always terminate.

Model checking (E1): the real `IteratorQueue` is driven by producer threads
(`enqueue_from_iterator`) and consumer threads (get / get_batch / blocking
get_batch / iteration) under the deterministic scheduler; *every* schedule
within the stated preemption (or delay) bound is executed and checked against a
list model: multiset conservation, no duplicates, per-producer FIFO, clean
end-of-stream with all return values, no deadlock / livelock.
Every lock/condition operation, every queue operation and every read/write of
a mutable IteratorQueue field is a scheduling point.
"""
from vmc import explorer, qharness

PROPERTY = 'C04'
LEVEL = 'model_checking'
MODULE = 'vmc.qharness'

MODES1 = ['get', ['batch', 0], ['bbatch', 1], ['bbatch', 2], ['bbatch', 3],
          'iter']


def configs(tier):
  """Returns [(label, pre_bound, mode, [(harness, params)])]."""
  two, three, four = [], [], []
  items = 2
  for cap in (0, 1):
    for m in MODES1:
      two.append(('queue', dict(prods=[items], cap=cap, cons=[m])))
  two.append(('queue', dict(prods=[2], cap=2, cons=[['bbatch', 2]])))
  two.append(('queue', dict(prods=[1], cap=0, cons=['get'], declared=False)))
  two.append(('queue', dict(prods=[2], cap=1, cons=[['batch', 0]],
                            declared=False)))
  two.append(('queue', dict(prods=[0], cap=1, cons=['get'])))
  two.append(('queue', dict(prods=[0], cap=0, cons=[['bbatch', 2]])))
  for cap in (0, 1):
    for m in ('get', ['batch', 0], ['bbatch', 2], 'iter'):
      three.append(('queue', dict(prods=[1, 1], cap=cap, cons=[m])))
  for cap in (0, 1):
    for cs in (['get', 'get'], ['get', ['bbatch', 2]], [['batch', 0], 'iter'],
               [['bbatch', 2], ['bbatch', 2]]):
      three.append(('queue', dict(prods=[2], cap=cap, cons=cs)))
  for cap in (0, 1):
    for cs in (['get', 'get'], [['bbatch', 2], 'iter']):
      four.append(('queue', dict(prods=[1, 1], cap=cap, cons=cs,
                                 mode='delay')))
  four.append(('queue', dict(prods=[1, 1, 1], cap=1, cons=['get'],
                             mode='delay')))
  deep = [c for c in two if c[1]['cons'][0] in ('get', ['bbatch', 2],
                                                ['bbatch', 3])
          and c[1]['prods'] == [2] and c[1].get('declared', True)
          and c[1]['cap'] < 2]
  shallow = [c for c in two if c not in deep]
  three_q = [c for c in three if c[1]['cap'] == 1 and (
      c[1]['cons'] in (['get'], [['bbatch', 2]], ['get', 'get'],
                       ['get', ['bbatch', 2]]))]
  three_q.append(('queue', dict(prods=[2], cap=0, cons=['get', 'get'])))
  if tier == 'quick':
    return [('2 threads, preemption bound 2', 2, deep),
            ('2 threads (remaining consumer modes), preemption bound 1', 1, shallow),
            ('3 threads, preemption bound 1', 1, three_q),
            ('4 threads, delay bound 1', 1, four)]
  # thorough: one more preemption on the same groups, 3 items, capacity 2, the
  # remaining 3-thread configurations; cheapest groups first (the check has a
  # wall-clock budget; what it cuts is reported as a cap)
  two_t = []
  for cap in (0, 1, 2):
    for m in ('get', ['batch', 0], ['bbatch', 2], 'iter'):
      two_t.append(('queue', dict(prods=[3], cap=cap, cons=[m])))
  rest3 = [c for c in three if c not in three_q]
  quick_groups = [('2 threads, preemption bound 2', 2, deep),
                  ('2 threads (remaining consumer modes), preemption bound 1', 1, shallow),
                  ('3 threads, preemption bound 1', 1, three_q),
                  ('4 threads, delay bound 1', 1, four)]
  return quick_groups + [('4 threads, delay bound 2', 2, four),
          ('3 threads (remaining configurations), preemption bound 1', 1, rest3),
          ('2 threads (remaining consumer modes) and 3 items, preemption bound 2',
           2, shallow + two_t),
          ('3 threads, preemption bound 2', 2, three_q),
          ('2 threads, preemption bound 3', 3, deep)]


def run(ctx):
  groups = configs(ctx.tier)
  ctx.rule = (
      'stateless DFS over all schedules of the real IteratorQueue within: '
      + '; '.join(f'{label} ({len(cfgs)} configurations)'
                  for label, _, cfgs in groups)
      + '. A case = one complete execution (distinct = distinct choice '
        'sequence per configuration); scheduling points at every lock / '
        'condition / queue operation and every access to a mutable queue field.')
  ctx.assumptions += [
      'sequential consistency at bytecode granularity (CPython GIL)',
      'Condition.notify wakes waiters FIFO, no spurious wake-ups (CPython)',
      'with max_enqueuer undeclared only single-producer configurations are in scope',
  ]
  for label, bound, cfgs in groups:
    explorer.explore_all(ctx, MODULE, cfgs, pre_bound=bound, split=24,
                         hb_cache=True)
  ctx.notes['bounds'] = [[label, len(cfgs)] for label, _, cfgs in groups]
  ctx.notes['hb_cache'] = True
  ctx.sample({'harness': 'queue', 'params': groups[0][2][0][1],
              'schedule': 'every choice sequence within the bound'})


def replay(ctx, data):
  r = data['replay']
  h = qharness.QueueHarness(**r['params'])
  res, problems = explorer.replay_once(h, r['choices'])
  for e in res.events or []:
    print(e)
  for sig, detail in problems:
    ctx.violation(sig, detail)
