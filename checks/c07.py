"""C07 - metric values equal their mathematical definitions.

Exhaustive enumeration (E3) of small label / prediction / ranking / numeric
inputs x metric x configuration on the real library, compared with the
from-scratch `Fraction` oracle in vmc/oracles/metrics_ref.py.  Further oracles
that need no expectation: documented aliases agree, rates stay in range, the
one-shot functions of metrics/*.py return what the accumulator API returns.

Work is partitioned by (metric family, configuration, chunk of inputs).
"""
import collections
import itertools as itt
import math
import sys
import types

import numpy as np

from vmc import enums
from vmc.oracles import metrics_ref as ref
from vmc.runner import Stats

PROPERTY = 'C07'
LEVEL = 'exploration'

RTOL, ATOL = 1e-9, 1e-12
NAN = float('nan')
VOCAB = {'a': 0, 'b': 1, 'c': 2}

CLS_METRICS = (
    'precision', 'ppv', 'recall', 'f1_score', 'accuracy', 'binary_accuracy',
    'sensitivity', 'tpr', 'specificity', 'tnr', 'fall_out', 'fpr', 'miss_rate',
    'fnr', 'negative_prediction_value', 'nvp', 'false_discovery_rate',
    'false_omission_rate', 'threat_score', 'positive_likelihood_ratio',
    'negative_likelihood_ratio', 'diagnostic_odds_ratio',
    'positive_predictive_value', 'intersection_over_union', 'prevalence',
    'prevalence_threshold', 'matthews_correlation_coefficient', 'informedness',
    'markedness', 'balanced_accuracy')
RET_METRICS = (
    'precision', 'ppv', 'recall', 'sensitivity', 'tpr',
    'positive_predictive_value', 'intersection_over_union', 'f1_score',
    'accuracy', 'mean_average_precision', 'mean_reciprocal_rank', 'miss_rate',
    'false_discovery_rate', 'threat_score', 'fowlkes_mallows_index',
    'dcg_score', 'ndcg_score')


# ---- helpers ---------------------------------------------------------------

def _f(x):
  """Oracle value (Fraction / float / None / nested list) -> floats."""
  if isinstance(x, np.ndarray):
    x = x.tolist()
  if isinstance(x, (list, tuple)):
    return [_f(v) for v in x]
  return NAN if x is None else float(x)


def _same(got, exp, exact=False, broadcast=False):
  try:
    g = np.asarray(got, dtype=float)
    e = np.asarray(_f(exp), dtype=float)
    if broadcast:
      g = np.broadcast_to(g, e.shape)
  except Exception:  # pylint: disable=broad-except
    return False
  if g.shape != e.shape:
    return False
  for a, b in zip(g.ravel().tolist(), e.ravel().tolist()):   # small arrays
    if a != a or b != b:
      if (a != a) != (b != b):
        return False
    elif a != b and (exact or a in (math.inf, -math.inf) or
                     abs(a - b) > ATOL + RTOL * abs(b)):
      return False
  return True


def _digest(values):
  out = []
  for v in values:
    try:
      out.append(np.round(np.asarray(v, dtype=float), 9).tolist())
    except Exception:  # pylint: disable=broad-except
      out.append(repr(v))
  return repr(out)


def _show(x):
  if isinstance(x, dict):
    return {str(k): _show(v) for k, v in x.items()}
  if isinstance(x, np.ndarray):
    return x.tolist()
  if isinstance(x, np.generic):
    return x.item()
  if isinstance(x, (list, tuple)):
    return [_show(v) for v in x]
  if hasattr(x, 'numerator') and not isinstance(x, (int, bool)):
    return float(x)
  return x


def _lists(x):
  return [_lists(v) for v in x] if isinstance(x, (list, tuple)) else x


def _thaw(x):
  """JSON data of a replay file -> the hashable form used by the check."""
  if isinstance(x, list):
    return tuple(_thaw(v) for v in x)
  if x == 'nan':
    return NAN
  return x


def _in_range(name, value):
  lo, hi = ref.RANGES[name]
  v = np.asarray(value, dtype=float)
  v = v[~np.isnan(v)]
  eps = 1e-12
  return bool(np.all(v >= lo - eps) and (hi is None or np.all(v <= hi + eps)))


def _stub_telemetry():
  """signals/text.py imports a Google-internal telemetry decorator that is not
  part of the open-source tree; give it an identity decorator so that
  metrics/text.py (one-shot text API) can be imported.  Nothing in /repo
  changes."""
  name = 'ml_metrics.google.tools.telemetry'
  if name in sys.modules:
    return
  try:
    __import__(name)
    return
  except ImportError:
    pass
  import ml_metrics  # pylint: disable=g-import-not-at-top,unused-import
  leaf = types.ModuleType(name + '.telemetry')
  leaf.WithTelemetry = lambda *a, **k: (lambda fn: fn)
  parent = None
  for i in (2, 3, 4):
    modname = '.'.join(name.split('.')[:i])
    mod = types.ModuleType(modname)
    mod.__path__ = []
    sys.modules[modname] = mod
    if parent is not None:
      setattr(parent, modname.rsplit('.', 1)[1], mod)
    parent = mod
  parent.telemetry = leaf
  sys.modules[name + '.telemetry'] = leaf


class _Case:
  """Collects the problems of one case so that one defect is reported once."""

  def __init__(self, st, family, cfg, data):
    self.st, self.family, self.cfg, self.data = st, family, cfg, data
    self.flagged = set()

  def bad(self, sig, metric=None, **detail):
    if metric is not None:
      self.flagged.add(metric)
    detail = {k: _show(v) for k, v in detail.items()}
    if metric is not None:
      detail['metric'] = metric
    detail.update(family=self.family, cfg=self.cfg, data=self.data)
    self.st.violation(sig, detail, replay={
        'family': self.family, 'cfg': self.cfg, 'data': self.data})


# ---- family: classification ------------------------------------------------

def cls_case(st, cfg, data):
  """cfg = (input_type, average, pos_label, use_vocab, k_list, oneshot)."""
  from ml_metrics._src.metrics import classification as MC
  input_type, average, pos_label, use_vocab, k_list, oneshot = cfg
  y_true, y_pred = _lists(data[0]), _lists(data[1])
  case = _Case(st, 'cls', cfg, data)
  st.case(('cls', cfg, data))
  samples = average == 'samples'
  names = [n for n in CLS_METRICS if samples or n != 'accuracy']
  kw = dict(pos_label=pos_label, input_type=input_type, average=average,
            vocab=dict(VOCAB) if use_vocab else None,
            k_list=list(k_list) if k_list else None)
  okw = dict(pos_label=pos_label, vocab=VOCAB if use_vocab else None,
             k_list=k_list)
  where = f'{input_type}:{average}' + (':topk' if k_list else '')
  try:
    exp = ref.classification_all(names, input_type, average, y_true, y_pred,
                                 **okw)
  except ValueError:
    exp = None      # documented rejection (binary average, > 2 indicator cols)
  asked = list(names) + ([] if samples else ['confusion_matrix'])
  try:
    got = MC.ClassificationAggFn(asked, **kw)(y_true, y_pred)
  except Exception as e:  # pylint: disable=broad-except
    if exp is None and isinstance(e, ValueError):
      st.outcome('rejected')
      return
    case.bad(f'C07:classification:raise:{type(e).__name__}:{where}',
             error=repr(e))
    return
  if exp is None:
    case.bad('C07:classification:binary-average-accepts->2-indicator-columns',
             got=got)
    return
  st.outcome(_digest(got[n] for n in names))
  st.count('metric_values_compared', len(names))
  counts_ok = True
  if not samples:
    ecm = ref.classification_confusion(input_type, average, y_true, y_pred,
                                       **okw)
    cm = got['confusion_matrix']
    gcm = (cm.tp, cm.tn, cm.fp, cm.fn)
    if average == 'macro' and not use_vocab:
      # without a vocabulary the order of the classes is unspecified:
      # compare the per-class count vectors as a multiset
      def canon(c):
        a = np.asarray(_f(c), dtype=float)        # (4, C) or (4, K, C)
        return sorted(np.moveaxis(a, -1, 0).reshape(a.shape[-1], -1).tolist())
      same_counts = canon(gcm) == canon(ecm)
    else:
      same_counts = all(_same(g, e, exact=True) for g, e in zip(gcm, ecm))
    if not same_counts:
      counts_ok = False
      case.bad(f'C07:classification:confusion-counts:{where}',
               got_tp_tn_fp_fn=gcm, expected_tp_tn_fp_fn=ecm)
  alt = None
  for n in names if counts_ok else ():
    if _same(got[n], exp[n]):
      continue
    if k_list and average == 'macro':
      if alt is None:
        alt = ref.classification_per_class_over_k(
            names, input_type, y_true, y_pred,
            vocab=VOCAB if use_vocab else None, k_list=k_list)
      g1 = np.asarray(got[n], dtype=float)
      if _same(g1, alt[n]) or (not use_vocab and g1.ndim == 1 and _same(
          sorted(g1.tolist()), sorted(_f(alt[n])))):  # class order unspecified
        case.bad('C07:classification:topk+macro:mean-over-k-not-over-classes',
                 n, got=got[n], expected_per_k=exp[n])
        break                      # every metric shows the same defect
    case.bad(f'C07:classification:{n}:value'
             + (':samples' if samples else '')
             + (':topk+macro' if k_list and average == 'macro' else ''), n,
             got=got[n], expected=exp[n], where=where)
  for group in ref.ALIASES:
    for other in group[1:]:
      st.count('alias_pairs_compared')
      if not _same(got[group[0]], got[other], exact=True) and not (
          {group[0], other} & case.flagged):
        case.bad(f'C07:classification:alias:{group[0]}!={other}',
                 a=got[group[0]], b=got[other])
  for n in names:
    if not _in_range(n, got[n]):
      case.bad(f'C07:classification:{n}:out-of-range', got=got[n])
  if not oneshot:
    return
  present = set(y_true) | set(y_pred) if input_type == 'binary' else None
  for n in names:
    st.count('oneshot_calls')
    try:
      one = getattr(MC, n)(y_true, y_pred, **kw)
    except ValueError as e:
      if (input_type == 'binary' and average == 'binary'
          and pos_label not in present and 'Pos label' in str(e)):
        continue                   # documented validation of the one-shot API
      case.bad(f'C07:classification.oneshot:{n}:raise:ValueError',
               error=repr(e))
      continue
    except Exception as e:  # pylint: disable=broad-except
      case.bad(f'C07:classification.oneshot:{n}:raise:{type(e).__name__}',
               error=repr(e))
      continue
    if not _same(one, got[n], exact=True):
      case.bad(f'C07:classification.oneshot:{n}:differs-from-accumulator',
               oneshot=one, accumulator=got[n])
  try:
    many = MC.classification_metrics(list(names), y_true=y_true, y_pred=y_pred,
                                     **kw)
  except ValueError as e:
    if not (present is not None and average == 'binary'
            and pos_label not in present):
      case.bad('C07:classification.oneshot:classification_metrics:raise',
               error=repr(e))
    return
  for n in names:
    if not _same(many[n], got[n], exact=True):
      case.bad('C07:classification.oneshot:classification_metrics:'
               'differs-from-accumulator', n, oneshot=many[n],
               accumulator=got[n])
      break


def cls_reject_case(st, cfg, data):
  """Documented rejections must be loud (never a silent value)."""
  from ml_metrics._src.aggregates import classification as C
  from ml_metrics._src.metrics import classification as MC
  del data
  what = cfg[0]
  st.case(('cls-reject', cfg), nontrivial=True)
  case = _Case(st, 'cls-reject', cfg, ())
  try:
    if what == 'weighted':
      MC.ClassificationAggFn('precision', average='weighted')([1, 0], [1, 1])
    elif what == 'samples+binary-input':
      MC.ClassificationAggFn('precision', average='samples')([1, 0], [1, 1])
    elif what == 'samples+k_list':
      MC.ClassificationAggFn('precision', average='samples', k_list=[1],
                             input_type='multiclass')(['a'], ['b'])
    elif what == 'topk+binary-input':
      MC.ClassificationAggFn('precision', k_list=[1])([1, 0], [1, 1])
    elif what == 'topk+indicator-input':
      MC.ClassificationAggFn('precision', k_list=[1], average='micro',
                             input_type='multiclass-indicator')(
                                 [[1, 0]], [[0, 1]])
    elif what == 'mean_average_precision':
      C.ConfusionMatrixAggFn(metrics='mean_average_precision')([0, 1], [1, 0])
    elif what == 'indicator-1d':
      MC.ClassificationAggFn('precision', average='micro',
                             input_type='multiclass-indicator')([1, 0], [0, 1])
  except (ValueError, NotImplementedError):
    st.outcome(('rejected', what))
    return
  except Exception as e:  # pylint: disable=broad-except
    case.bad(f'C07:classification:reject:{what}:wrong-error:{type(e).__name__}',
             error=repr(e))
    return
  case.bad(f'C07:classification:reject:{what}:accepted')


# ---- family: retrieval -----------------------------------------------------

def _ret_columns(y_pred, k_list):
  """The cut-offs of the columns that add() returns per example."""
  m = ref.batch_cutoff(y_pred, k_list)
  ks = sorted(k_list) if k_list else []
  return [k for k in ks if k < m] + [m]


def ret_case(st, cfg, data):
  """cfg = (k_list, oneshot, kind); data = ((true row, ranking), ...)."""
  from ml_metrics._src.aggregates import retrieval as R
  k_list, oneshot, kind = cfg
  case = _Case(st, 'ret', cfg, data)
  st.case(('ret', cfg, data))
  y_true, y_pred = [list(r[0]) for r in data], [list(r[1]) for r in data]
  kl = list(k_list) if k_list else None
  if kind == 'multioutput':
    args, ctor = (y_true, y_pred), {}
  else:                       # 'multiclass': 1-D arrays of class identifiers
    args = ([r[0] for r in y_true], [r[0] for r in y_pred])
    ctor = {'input_type': 'multiclass'}
  try:
    metric = R.TopKRetrieval(k_list=kl, **ctor)
    per_row = metric.add(*args)
    got = metric.result()
  except Exception as e:  # pylint: disable=broad-except
    if kind == 'multiclass:ints' and isinstance(e, TypeError):
      case.bad('C07:retrieval:multiclass-input:int-labels:TypeError',
               error=repr(e))
    else:
      case.bad(f'C07:retrieval:raise:{type(e).__name__}'
               + (f':{kind}' if kind != 'multioutput' else ''), error=repr(e))
    return
  ks, _, exp = ref.retrieval_all(RET_METRICS, y_true, y_pred, k_list)
  st.outcome(_digest(got[n] for n in RET_METRICS))
  st.count('metric_values_compared', len(RET_METRICS) * len(ks))
  for n in RET_METRICS:
    if _same(got[n], exp[n]):
      continue
    if kind.endswith('words'):
      case.bad('C07:retrieval:multiclass-input:multi-character-labels:'
               'matched-by-character', n, got=got[n],
               expected=exp[n])
      break
    if n == 'threat_score' and _same(
        got[n], ref.threat_score_with_k(y_true, y_pred, k_list)):
      case.bad('C07:retrieval:threat_score:denominator-uses-k-not-'
               'min(k,npred)', n, got=got[n], expected=exp[n])
    elif n in ('mean_average_precision', 'ndcg_score') and _same(
        got[n], ref.retrieval_clamped_k(n, y_true, y_pred, k_list)):
      case.bad(f'C07:retrieval:{n}:k-clamped-to-longest-prediction-in-batch',
               n, got=got[n], expected=exp[n])
    else:
      case.bad(f'C07:retrieval:{n}:value', n, got=got[n],
               expected=exp[n])
  if kind.endswith('words'):
    return
  # per-example values returned by add(): one column per cut-off; today the
  # cut-offs beyond the longest prediction of the batch are merged into one
  # column, a layout with one column per requested k is accepted as well
  clamp = ref.batch_cutoff(y_pred, k_list)
  cols = _ret_columns(y_pred, k_list)
  width = np.asarray(per_row['precision']).shape[-1]
  if width != len(cols) and k_list and width == len(k_list):
    cols = sorted(k_list)
  _, erows, _ = ref.retrieval_all(RET_METRICS, y_true, y_pred, cols,
                                  with_means=False)
  for n in RET_METRICS:
    key = 'reciprocal_ranks' if n == 'mean_reciprocal_rank' else n
    if n in case.flagged or _same(per_row[key], erows[n]):
      continue
    if n == 'threat_score':
      alt = [[ref.sdiv(sum(1 for x in p[:k] if x in t),
                       len(set(t)) - sum(1 for x in p[:k] if x in t)
                       + min(k, clamp)) for k in cols]
             for t, p in zip(y_true, y_pred)]
      if _same(per_row[key], alt):
        case.bad('C07:retrieval:threat_score:denominator-uses-k-not-'
                 'min(k,npred)', n, got_rows=per_row[key],
                 expected_rows=erows[n])
        continue
    if n in ('mean_average_precision', 'ndcg_score'):
      alt = [[ref.retrieval_row(n, t, p, min(k, clamp)) for k in cols]
             for t, p in zip(y_true, y_pred)]
      if _same(per_row[key], alt):
        case.bad(f'C07:retrieval:{n}:k-clamped-to-longest-prediction-in-batch',
                 n, got_rows=per_row[key], expected_rows=erows[n])
        continue
    case.bad(f'C07:retrieval:{n}:per-example-value', n,
             got_rows=per_row[key], expected_rows=erows[n], cutoffs=cols)
  for group in ref.RETRIEVAL_ALIASES:
    for other in group[1:]:
      st.count('alias_pairs_compared')
      if not _same(got[group[0]], got[other], exact=True) and not (
          {group[0], other} & case.flagged):
        case.bad(f'C07:retrieval:alias:{group[0]}!={other}',
                 a=got[group[0]], b=got[other])
  for n in RET_METRICS:
    if not _in_range(n, got[n]):
      case.bad(f'C07:retrieval:{n}:out-of-range', got=got[n])
  if not oneshot:
    return
  from ml_metrics._src.metrics import retrieval as MR
  okw = dict(k_list=kl, **ctor)
  for n in RET_METRICS:
    st.count('oneshot_calls')
    try:
      one = getattr(MR, n)(*args, **okw)
    except Exception as e:  # pylint: disable=broad-except
      case.bad(f'C07:retrieval.oneshot:{n}:raise:{type(e).__name__}',
               error=repr(e))
      continue
    if not _same(one, got[n], exact=True):
      case.bad(f'C07:retrieval.oneshot:{n}:differs-from-accumulator',
               oneshot=one, accumulator=got[n])
  many = MR.topk_retrieval_metrics(list(RET_METRICS), y_true=args[0],
                                   y_pred=args[1], **okw)
  for n in RET_METRICS:
    if not _same(many[n], got[n], exact=True):
      case.bad('C07:retrieval.oneshot:topk_retrieval_metrics:'
               'differs-from-accumulator', n, oneshot=many[n],
               accumulator=got[n])
      break


# ---- family: calibration histogram -----------------------------------------

def calib_case(st, cfg, data):
  from ml_metrics._src.metrics import classification as MC
  (bins,) = cfg
  labels, preds = data
  case = _Case(st, 'calib', cfg, data)
  st.case(('calib', cfg, data))
  exp = ref.calibration_histogram(labels, preds, 0, 1, bins)
  try:
    got = MC.CalibrationHistogram(range=(0, 1), bins=bins).add(
        list(labels), list(preds)).result()
  except Exception as e:  # pylint: disable=broad-except
    case.bad(f'C07:calibration_histogram:raise:{type(e).__name__}',
             error=repr(e))
    return
  st.outcome(_digest(got))
  for field in ('num_examples_hist', 'labels_hist', 'predictions_hist',
                'bin_edges'):
    if not _same(getattr(got, field), exp[field]):
      case.bad(f'C07:calibration_histogram:{field}',
               got=getattr(got, field), expected=exp[field])
  # the same definition through every two-shard merge (accumulator API and
  # merge_states of the aggregate-fn API)
  n = len(labels)
  for cut in range(1, n):
    try:
      a = MC.CalibrationHistogram(range=(0, 1), bins=bins).add(
          list(labels[:cut]), list(preds[:cut]))
      b = MC.CalibrationHistogram(range=(0, 1), bins=bins).add(
          list(labels[cut:]), list(preds[cut:]))
      a.merge(b)
      merged = a.result()
    except Exception as e:  # pylint: disable=broad-except
      case.bad(f'C07:calibration_histogram:merge:raise:{type(e).__name__}',
               error=repr(e), cut=cut)
      continue
    for field in ('num_examples_hist', 'labels_hist', 'predictions_hist',
                  'bin_edges'):
      if not _same(getattr(merged, field), exp[field]):
        case.bad(f'C07:calibration_histogram:merged-shards:{field}',
                 got=getattr(merged, field), expected=exp[field], cut=cut)


# ---- family: rolling statistics --------------------------------------------

def _mv_fields(obj):
  return {f: getattr(obj, f) for f in ('count', 'mean', 'var', 'stddev',
                                       'total')}


def stats_case(st, cfg, data):
  from ml_metrics._src.aggregates import rolling_stats as RS
  from ml_metrics._src.metrics import rolling_stats as MRS
  kind = cfg[0]
  case = _Case(st, 'stats', cfg, data)
  st.case(('stats', cfg, data))
  try:
    if kind == 'meanvar':
      batch = _lists(data)
      exp = ref.mean_and_variance(data)
      state = RS.MeanAndVariance()
      returned = state.add(batch)
      views = {
          'add-return': _mv_fields(returned),
          'result': _mv_fields(state.result()),
          'agg_fn': _mv_fields(RS.MeanAndVariance().as_agg_fn()(batch)),
          'call': _mv_fields(RS.MeanAndVariance()(batch)),
      }
      st.outcome(_digest(views['result'].values()))
      # nothing but NaNs: the accumulated state keeps its (scalar) initial
      # value, which equals the per-column expectation after broadcasting
      empty = not np.any(np.asarray(_f(exp['count'])))
      for view, fields in views.items():
        for f, e in exp.items():
          if not _same(fields[f], e, broadcast=empty):
            case.bad(f'C07:rolling_stats:MeanAndVariance:{f}', view=view,
                     got=fields[f], expected=e)
      mean = RS.Mean()
      mean.add(batch)
      if not _same(mean.result(), exp['mean'], broadcast=empty):
        case.bad('C07:rolling_stats:Mean:mean', got=mean.result(),
                 expected=exp['mean'])
      var = RS.Var()
      var.add(batch)
      if not _same(var.result(), exp['var'], broadcast=empty):
        case.bad('C07:rolling_stats:Var:var', got=var.result(),
                 expected=exp['var'])
      for f in ('mean', 'var', 'stddev', 'count', 'total'):
        st.count('oneshot_calls')
        one = getattr(MRS, f)(batch)
        if not _same(one, exp[f]):
          case.bad(f'C07:rolling_stats.oneshot:{f}:value', got=one,
                   expected=exp[f])
        if not _same(views['result'][f], one, exact=True, broadcast=empty):
          case.bad(f'C07:rolling_stats.oneshot:{f}:differs-from-accumulator',
                   oneshot=one, accumulator=views['result'][f])
    elif kind == 'minmax':
      axis = cfg[1]
      exp = ref.min_max_count(data, axis)
      got = RS.MinMaxAndCount(axis=axis).add(_lists(data)).result()
      via = RS.MinMaxAndCount(axis=axis).as_agg_fn()(_lists(data))
      st.outcome(_digest((got.count, got.min, got.max)))
      for view, g in (('add', got), ('agg_fn', via)):
        for f in ('count', 'min', 'max'):
          if not _same(getattr(g, f), exp[f]):
            case.bad(f'C07:rolling_stats:MinMaxAndCount:{f}', view=view,
                     got=getattr(g, f), expected=exp[f])
    elif kind == 'hist':
      _, mode, bins, weighted = cfg
      values = list(data[0])
      weights = list(data[1]) if weighted else None
      if mode == 'range':
        ctor = dict(range=(0, 4), bins=bins)
        exp_h = ref.histogram(values, 0, 4, bins, weights=weights)
        exp_e = ref.bin_edges(0, 4, bins)
      else:
        ctor = dict(bins=bins)
        exp_h = ref.histogram(values, edges=bins, weights=weights)
        exp_e = list(bins)
      state = RS.Histogram(**ctor)
      if weighted:
        state.add(values, weights)
        via = RS.Histogram(**ctor).as_agg_fn()(values, weights)
      else:
        state.add(values)
        via = RS.Histogram(**ctor).as_agg_fn()(values)
      st.outcome(_digest(state.result()))
      for view, g in (('add', state.result()), ('agg_fn', via)):
        if not _same(g.hist, exp_h):
          case.bad('C07:rolling_stats:Histogram:hist', view=view, got=g.hist,
                   expected=exp_h)
        if not _same(g.bin_edges, exp_e):
          case.bad('C07:rolling_stats:Histogram:bin_edges', view=view,
                   got=g.bin_edges, expected=exp_e)
    elif kind == 'counter':
      exp = {}
      for v in data:
        exp[v] = exp.get(v, 0) + 1
      state = RS.Counter()
      state.add(list(data))
      st.outcome(repr(sorted(state.result().items())))
      if dict(state.result()) != exp or dict(
          RS.Counter().as_agg_fn()(list(data))) != exp:
        case.bad('C07:rolling_stats:Counter:counts', got=dict(state.result()),
                 expected=exp)
    elif kind in ('r2tjur', 'r2tjur_relative'):
      y_true, y_pred = data
      cls = RS.R2Tjur if kind == 'r2tjur' else RS.R2TjurRelative
      fn = ref.r2_tjur if kind == 'r2tjur' else ref.r2_tjur_relative
      exp = fn(y_true, y_pred)
      got = cls().add(list(y_true), list(y_pred)).result()
      via = cls().as_agg_fn()(list(y_true), list(y_pred))
      st.outcome(_digest((got,)))
      for view, g in (('add', got), ('agg_fn', via)):
        if not _same(g, exp):
          case.bad(f'C07:rolling_stats:{cls.__name__}:value', view=view, got=g,
                   expected=exp)
    elif kind == 'rreg':
      _, center, two_d = cfg
      x, y = data
      if two_d:       # x is a tuple of rows (n_samples, 2 features)
        exp = [ref.r_regression([r[j] for r in x], y, center)
               for j in range(2)]
      else:
        exp = ref.r_regression(x, y, center)
      got = RS.RRegression(center=center).add(_lists(x), list(y)).result()
      via = RS.RRegression(center=center).as_agg_fn()(_lists(x), list(y))
      st.outcome(_digest((got,)))
      for view, g in (('add', got), ('agg_fn', via)):
        g = np.asarray(g, dtype=float)
        e = np.asarray(_f(exp), dtype=float)
        # an undefined correlation (zero variance) must not be a finite number
        undefined = np.isnan(e)
        if g.shape != e.shape or np.any(np.isfinite(g[undefined])) or not (
            np.allclose(g[~undefined], e[~undefined], rtol=RTOL, atol=1e-9)):
          case.bad('C07:rolling_stats:RRegression:value', view=view, got=g,
                   expected=exp)
    elif kind == 'spd':
      x, y = data
      exp = ref.symmetric_prediction_difference(x, y)
      got = RS.SymmetricPredictionDifference().add(list(x), list(y)).result()
      via = RS.SymmetricPredictionDifference().as_agg_fn()(list(x), list(y))
      st.outcome(_digest((got,)))
      for view, g in (('add', got), ('agg_fn', via)):
        if not _same(g, exp):
          case.bad('C07:rolling_stats:SymmetricPredictionDifference:value',
                   view=view, got=g, expected=exp)
    else:
      raise KeyError(kind)
  except Exception as e:  # pylint: disable=broad-except
    case.bad(f'C07:rolling_stats:{kind}:raise:{type(e).__name__}',
             error=repr(e))


# ---- family: text ----------------------------------------------------------

def _pairs(xs):
  return [(k, float(v)) for k, v in xs]


def _same_ranked(got, exp):
  got, exp = _pairs(got), _pairs(exp)
  return len(got) == len(exp) and all(
      g[0] == e[0] and math.isclose(g[1], e[1], rel_tol=RTOL, abs_tol=ATOL)
      for g, e in zip(got, exp))


def text_case(st, cfg, data):
  from ml_metrics._src.aggregates import text as T
  _stub_telemetry()
  from ml_metrics._src.metrics import text as MT
  kind = cfg[0]
  texts = list(data)
  case = _Case(st, 'text', cfg, data)
  st.case(('text', cfg, data))
  try:
    if kind == 'ngrams':
      _, k, n, first_only, dup = cfg
      kw = dict(k=k, n=n, use_first_ngram_only=first_only, count_duplicate=dup)
      exp = ref.topk_word_ngrams(texts, **kw)
      state = T.TopKWordNGrams(**kw)
      returned = state.add(texts)
      views = {'add-return': returned, 'result': state.result(),
               'agg_fn': T.TopKWordNGrams(**kw).as_agg_fn()(texts)}
      st.outcome(repr(_pairs(views['result'])))
      for view, g in views.items():
        if not _same_ranked(g, exp):
          case.bad('C07:text:TopKWordNGrams:value', view=view, got=_pairs(g),
                   expected=_pairs(exp))
      st.count('oneshot_calls')
      one = MT.topk_word_ngrams(texts, **kw)
      if _pairs(one) != _pairs(views['result']):
        case.bad('C07:text.oneshot:topk_word_ngrams:differs-from-accumulator',
                 oneshot=_pairs(one), accumulator=_pairs(views['result']))
    elif kind == 'patterns':
      _, patterns, dup = cfg
      exp = ref.pattern_frequency(texts, patterns, dup)
      kw = dict(patterns=list(patterns), count_duplicate=dup)
      state = T.PatternFrequency(**kw)
      returned = state.add(texts)
      views = {'add-return': returned, 'result': state.result(),
               'agg_fn': T.PatternFrequency(**kw).as_agg_fn()(texts)}
      st.outcome(repr(_pairs(views['result'])))
      for view, g in views.items():
        if not _same_ranked(g, exp):
          case.bad('C07:text:PatternFrequency:value', view=view,
                   got=_pairs(g), expected=_pairs(exp))
      st.count('oneshot_calls')
      one = MT.pattern_frequency(texts, **kw)
      if _pairs(one) != _pairs(views['result']):
        case.bad('C07:text.oneshot:pattern_frequency:differs-from-accumulator',
                 oneshot=_pairs(one), accumulator=_pairs(views['result']))
    elif kind == 'alpha':
      exp = ref.mean_and_variance(
          [ref.alphabetical_char_count(t) for t in texts])
      st.count('oneshot_calls')
      got = _mv_fields(MT.avg_alphabetical_char_count(texts))
      st.outcome(_digest(got.values()))
      for f, e in exp.items():
        if not _same(got[f], e):
          case.bad(f'C07:text.oneshot:avg_alphabetical_char_count:{f}',
                   got=got[f], expected=e)
    else:
      raise KeyError(kind)
  except Exception as e:  # pylint: disable=broad-except
    case.bad(f'C07:text:{kind}:raise:{type(e).__name__}', error=repr(e))


# ---- family: signals -------------------------------------------------------

def signal_case(st, cfg, data):
  from ml_metrics._src.signals import cross_entropy as CE
  from ml_metrics._src.signals import flip_masks as FM
  from ml_metrics._src.signals import topk_accuracy as TA
  kind = cfg[0]
  case = _Case(st, 'signal', cfg, data)
  try:
    if kind == 'flip':
      _, threshold, as_array = cfg
      base, model = data
      st.case(('signal', cfg, data))
      for name, fn, oracle in (
          ('binary_flip_mask', FM.binary_flip_mask, ref.binary_flip),
          ('neg_to_pos_flip_mask', FM.neg_to_pos_flip_mask,
           ref.neg_to_pos_flip),
          ('pos_to_neg_flip_mask', FM.pos_to_neg_flip_mask,
           ref.pos_to_neg_flip)):
        if as_array:
          exp = [oracle(b, m, threshold) for b, m in zip(base, model)]
          got = fn(np.asarray(base), np.asarray(model), threshold)
        else:
          exp = oracle(base, model, threshold)
          got = fn(base, model, threshold)
        st.outcome((name, _digest((got,))))
        if not _same(got, exp, exact=True):
          case.bad(f'C07:signals:{name}:value', got=got, expected=exp)
    elif kind == 'bce':
      y_true, y_pred = data
      st.case(('signal', cfg, data))
      exp = ref.binary_cross_entropy(y_true, y_pred)
      got = CE.binary_cross_entropy(np.asarray(y_true), np.asarray(y_pred))
      st.outcome(_digest((got,)))
      if not _same(got, exp):
        case.bad('C07:signals:binary_cross_entropy:value', got=got,
                 expected=exp)
    elif kind == 'cce':
      y_true, y_pred = data
      st.case(('signal', cfg, data))
      exp = ref.categorical_cross_entropy(y_true, y_pred)
      got = CE.categorical_cross_entropy(np.asarray(y_true),
                                         np.asarray(y_pred))
      st.outcome(_digest((got,)))
      if not _same(got, exp):
        zero = any(t == 0 and p == 0 for t, p in zip(y_true, y_pred))
        case.bad('C07:signals:categorical_cross_entropy:'
                 + ('nan-when-a-non-label-class-has-probability-0'
                    if zero and got != got else 'value'),
                 got=got, expected=exp)
    elif kind == 'topk':
      scores, label, k, weights = data
      exp = ref.topk_accuracy(scores, label, k, weights)
      st.case(('signal', cfg, data), nontrivial=exp is not None)
      got = TA.topk_accurate(list(scores), label,
                             **({'weights': list(weights)} if weights else {}),
                             k=k)
      st.outcome(bool(got))
      if exp is not None and bool(got) != exp:
        case.bad('C07:signals:topk_accurate:value', got=bool(got),
                 expected=exp)
    else:
      raise KeyError(kind)
  except Exception as e:  # pylint: disable=broad-except
    case.bad(f'C07:signals:{kind}:raise:{type(e).__name__}', error=repr(e))


CASES = {'cls': cls_case, 'cls-reject': cls_reject_case, 'ret': ret_case,
         'calib': calib_case, 'stats': stats_case, 'text': text_case,
         'signal': signal_case}


def _unit(item):
  family, cfg, chunk = item
  st = Stats()
  fn = CASES[family]
  for data in chunk:
    fn(st, cfg, data)
  if chunk:
    st.sample({'family': family, 'cfg': cfg, 'input': chunk[0]})
  return st


# ---- the enumerated spaces -------------------------------------------------

def _pairs_of_vectors(alphabet, max_len):
  for n in range(1, max_len + 1):
    for a in itt.product(alphabet, repeat=n):
      for b in itt.product(alphabet, repeat=n):
        yield a, b


def _ordered_rows(classes, max_len, min_len=0):
  for n in range(min_len, max_len + 1):
    yield from itt.permutations(classes, n)


def _multioutput_datasets(max_rows, max_pred_len, need_class):
  trues = [tuple(s) for s in enums.subsets('abc')]
  preds = list(_ordered_rows('abc', max_pred_len))
  rows = list(itt.product(trues, preds))
  for r in range(1, max_rows + 1):
    for ds in itt.product(rows, repeat=r):
      if need_class and not any(t or p for t, p in ds):
        continue                  # no class at all and no vocabulary given
      yield tuple(t for t, _ in ds), tuple(p for _, p in ds)


def _matrices(rows, cols):
  return list(itt.product(itt.product((0, 1), repeat=cols), repeat=rows))


def _retrieval_rows(ids, max_len, true_sizes=(1, 2)):
  trues = [t for s in true_sizes for t in itt.combinations(ids, s)]
  preds = list(_ordered_rows(ids, max_len, 1))
  return list(itt.product(trues, preds))


def _spaces(quick):
  """Yields (family, cfg, list of inputs); every list is a full enumeration."""
  n_bin = 4 if quick else 5
  # -- classification, binary input
  ds = list(_pairs_of_vectors((0, 1), n_bin))
  for pos in (1, 0):
    for avg in ('binary', 'micro', 'macro'):
      yield 'cls', ('binary', avg, pos, False, None, True), ds
  ds = list(_pairs_of_vectors(('N', 'Y'), 3))
  yield 'cls', ('binary', 'binary', 'Y', False, None, True), ds
  # -- multiclass over 3 classes
  ds = list(_pairs_of_vectors('abc', 3))
  for avg, vocabs in (('micro', (False, True)), ('macro', (True, False)),
                      ('samples', (True, False))):
    for use_vocab in vocabs:
      kls = (None,) if avg == 'samples' else (None, (1,), (1, 2))
      for kl in kls:
        yield 'cls', ('multiclass', avg, 1, use_vocab, kl,
                      kl is None and use_vocab), ds
  # -- multi-output rows (true: subsets of 3 classes, pred: ordered lists)
  one_row = list(_multioutput_datasets(1, 3, False))
  one_row_c = list(_multioutput_datasets(1, 3, True))
  big = list(_multioutput_datasets(2, 2 if quick else 3, False))
  big_c = [d for d in big if any(t or p for t, p in zip(*d))]
  if not quick:
    big3 = list(_multioutput_datasets(3, 1, False))
  for avg in ('micro', 'macro', 'samples'):
    kls = (None,) if avg == 'samples' else (
        None, (1,), (1, 2), (1, 3), (2, 5))
    for kl in kls:
      yield 'cls', ('multiclass-multioutput', avg, 1, True, kl, True), one_row
      yield 'cls', ('multiclass-multioutput', avg, 1, False, kl, False), one_row_c
      # quick: predictions of the 2-row datasets have <= 2 entries, so a
      # k-list [1,3] is the same computation as [1,2] there
      if not quick or not (kl == (1, 3) or (avg == 'macro' and kl == (1,))):
        yield 'cls', ('multiclass-multioutput', avg, 1, True, kl, False), big
      if kl is None or (not quick and kl == (1, 2)):
        yield 'cls', ('multiclass-multioutput', avg, 1, False, kl, False), big_c
      if not quick and kl in (None, (1,), (1, 2)):
        yield 'cls', ('multiclass-multioutput', avg, 1, True, kl, False), big3
  # -- indicator matrices
  m23 = list(itt.product(_matrices(2, 3), repeat=2))
  m13 = list(itt.product(_matrices(1, 3), repeat=2))
  for pos in (1, 0):
    for avg in ('micro', 'macro', 'samples'):
      yield 'cls', ('multiclass-indicator', avg, pos, False, None, True), m13
      yield 'cls', ('multiclass-indicator', avg, pos, False, None, False), m23
    if not quick:
      m32 = list(itt.product(_matrices(3, 2), repeat=2))
      for avg in ('micro', 'macro', 'samples'):
        yield 'cls', ('multiclass-indicator', avg, pos, False, None, False), m32
    for shape in ((1, 1), (2, 1), (1, 2), (2, 2), (3, 2), (1, 3)):
      ms = list(itt.product(_matrices(*shape), repeat=2))
      yield 'cls', ('multiclass-indicator', 'binary', pos, False, None,
                    True), ms
  yield 'cls-reject', ('weighted',), [()]
  for what in ('samples+binary-input', 'samples+k_list', 'topk+binary-input',
               'topk+indicator-input', 'mean_average_precision',
               'indicator-1d'):
    yield 'cls-reject', (what,), [()]
  # -- retrieval: ragged rankings of length <= 3 over 4 ids, true sets 1-2
  rows = _retrieval_rows(range(4), 3)
  prows = _retrieval_rows(range(3), 3) if quick else rows
  singles = [(r,) for r in rows]
  pairs = list(itt.product(prows, repeat=2))
  for kl in (None, (1,), (1, 2), (1, 3), (2, 5)):
    yield 'ret', (kl, True, 'multioutput'), singles
    yield 'ret', (kl, False, 'multioutput'), pairs
  if not quick:
    small = _retrieval_rows(range(3), 2)
    triples = list(itt.product(small, repeat=3))
    for kl in (None, (1, 2), (2, 5)):
      yield 'ret', (kl, False, 'multioutput'), triples
  for kind, labels in (('multiclass:chars', 'abc'),
                       ('multiclass:ints', (1, 29, 12)),
                       ('multiclass:words', ('no', 'on', 'yes'))):
    ds = [tuple(((t,), (p,)) for t, p in zip(a, b))
          for a, b in _pairs_of_vectors(labels, 2)]
    for kl in (None, (1, 2)):
      yield 'ret', (kl, kind == 'multiclass:chars', kind), ds
  # -- calibration histogram: labels {0,1} x predictions on a 5-value grid
  grid = (-0.25, 0.0, 0.25, 0.5, 1.0)
  n_cal = 3 if quick else 4
  ds = [(a, b) for n in range(1, n_cal + 1)
        for a in itt.product((0, 1), repeat=n)
        for b in itt.product(grid, repeat=n)]
  for bins in (2, 4):
    yield 'calib', (bins,), ds
  # -- rolling statistics over the NaN alphabet
  alpha = (NAN, 1.0, 3.0)
  vecs = list(enums.sequences(alpha, 4 if quick else 6, 1))
  rows2 = list(itt.product(alpha, repeat=2))
  mats = list(enums.sequences(rows2, 3 if quick else 4, 1))
  yield 'stats', ('meanvar',), vecs
  yield 'stats', ('meanvar',), mats
  nn = (0, 1, 3)
  nvecs = list(enums.sequences(nn, 4, 1))
  nmats = list(enums.sequences(list(itt.product(nn, repeat=2)), 3, 1))
  yield 'stats', ('minmax', None), nvecs
  for axis in (None, 0):
    yield 'stats', ('minmax', axis), nmats
  hvals = (-1.0, 0.0, 1.0, 2.0, 4.0, 5.0)
  hv = list(enums.sequences(hvals, 3 if quick else 4, 1))
  for bins in (2, 4):
    yield 'stats', ('hist', 'range', bins, False), [(v, ()) for v in hv]
  yield 'stats', ('hist', 'edges', (0, 1, 4), False), [(v, ()) for v in hv]
  hw = [(v, w) for v in enums.sequences(hvals, 2, 1)
        for w in itt.product((0.5, 2.0), repeat=len(v))]
  yield 'stats', ('hist', 'range', 4, True), hw
  yield 'stats', ('hist', 'edges', (0, 1, 4), True), hw
  yield 'stats', ('counter',), list(enums.sequences('abc', 4, 1))
  pgrid = (0.0, 0.25, 1.0)
  r2 = [(a, b) for n in range(1, (3 if quick else 4) + 1)
        for a in itt.product((0, 1), repeat=n)
        for b in itt.product(pgrid, repeat=n)]
  yield 'stats', ('r2tjur',), r2
  yield 'stats', ('r2tjur_relative',), r2
  g3 = (0.0, 1.0, 2.0)
  xy = list(_pairs_of_vectors(g3, 3 if quick else 4))
  for center in (True, False):
    yield 'stats', ('rreg', center, False), xy
  xy2 = [(x, y) for n in (2, 3) for x in itt.product(
      list(itt.product(g3, repeat=2)), repeat=n)
         for y in itt.product(g3, repeat=n)] if not quick else [
             (x, y) for n in (2,) for x in itt.product(
                 list(itt.product(g3, repeat=2)), repeat=n)
             for y in itt.product(g3, repeat=n)]
  for center in (True, False):
    yield 'stats', ('rreg', center, True), xy2
  yield 'stats', ('spd',), list(_pairs_of_vectors((-1.0, 0.0, 1.0, 2.0), 3))
  # -- text: every sequence of <= 3 texts of a 4-text corpus
  corpus = ('aa b aa b', 'Aa, b! aa', 'b3 b c', '')
  tds = list(enums.sequences(corpus, 3, 1))
  for k in (1, 2, 3):
    for n in (1, 2):
      for first_only, dup in ((False, True), (False, False), (True, True)):
        yield 'text', ('ngrams', k, n, first_only, dup), tds
  for patterns in (('aa',), ('a', 'b'), ('aa', 'a b', 'b '), ('aaa', 'A')):
    for dup in (True, False):
      yield 'text', ('patterns', patterns, dup), tds
  yield 'text', ('alpha',), tds
  # -- signals
  vals = (0.0, 0.25, 0.5, 0.75, 1.0)
  sc = list(itt.product(vals, repeat=2))
  for thr in (0.25, 0.5):
    yield 'signal', ('flip', thr, False), sc
    yield 'signal', ('flip', thr, True), list(itt.product(
        itt.product(vals, repeat=2), repeat=2))
  yield 'signal', ('flip', None, False), list(itt.product((0, 1), repeat=2))
  pg = (0.25, 0.5, 0.75)
  yield 'signal', ('bce',), [(a, b) for n in (1, 2, 3)
                             for a in itt.product((0, 1), repeat=n)
                             for b in itt.product(pg, repeat=n)]
  pg0 = (0.0, 0.25, 0.5, 1.0)
  yield 'signal', ('cce',), [
      (a, b) for a in itt.product((0, 1), repeat=3) if sum(a) >= 1
      for b in itt.product(pg0, repeat=3)
      if all(p > 0 for t, p in zip(a, b) if t == 1)]
  tk = [(s, label, k, w) for s in itt.product((0.1, 0.5, 0.9), repeat=3)
        for label in range(3) for k in (1, 2, 3)
        for w in (None, (1.0, 1.0, 1.0), (2.0, 1.0, 0.5))]
  yield 'signal', ('topk',), tk


def run(ctx):
  quick = ctx.quick
  ctx.rule = (
      'classification: every pair of binary label vectors of length <= '
      f'{4 if quick else 5} x pos_label {{1,0}} (and Y/N strings) x average '
      '{binary,micro,macro}; every pair of multiclass vectors over {a,b,c} of '
      'length <= 3 x {micro,macro,samples} x vocab given/derived x k_list '
      '{None,[1],[1,2]}; multi-output datasets of <= 2 rows (true = any subset '
      f'of 3 classes, prediction = any ordered list of <= {2 if quick else 3} '
      'distinct classes, 1-row: <= 3)' + ('' if quick else ' and 3 rows of '
      'predictions <= 1') + ' x {micro,macro,samples} x k_list '
      '{None,[1],[1,2],[1,3],[2,5]}; every pair of 0/1 indicator matrices '
      '1x3, 2x3' + ('' if quick else ', 3x2') + ' x pos_label {1,0} x '
      '{micro,macro,samples}, and 1x1..3x2 for average=binary; 30 derived '
      'metrics + confusion counts per case. retrieval: every ranking of '
      'length 1..3 over 4 ids x true set of size 1-2 as a 1-row batch, every '
      'ordered pair of such rows' + (' over 3 ids' if quick else
      ' and triples over 3 ids (rankings <= 2)') + ' x k_list '
      '{None,[1],[1,2],[1,3],[2,5]} x 17 metrics (result and per-example '
      'values). calibration histogram: labels {0,1} x predictions '
      f'{{-.25,0,.25,.5,1}} of length <= {3 if quick else 4} x bins {{2,4}}. '
      f'rolling stats: every vector of length <= {4 if quick else 6} and '
      f'n x 2 matrix (n <= {3 if quick else 4}) over {{NaN,1,3}}; '
      'MinMaxAndCount over {0,1,3}; Histogram over a 6-value grid (range, '
      'edges, weights); R2Tjur/R2TjurRelative, RRegression (1-D, 2-D, '
      'centered or not), SymmetricPredictionDifference over 3-4 value grids. '
      'text: every sequence of <= 3 texts of a 4-text corpus x k {1,2,3} x n '
      '{1,2} x flags; 4 pattern sets. signals: flip masks, cross entropies, '
      'topk_accurate over small grids. distinct = distinct (family, config, '
      'input); one-shot functions are called on the configurations marked '
      'oneshot (all binary/multiclass/1-row inputs)')
  ctx.assumptions += [
      'float comparison with rtol 1e-9 / atol 1e-12; counts compared exactly',
      'accuracy is compared for the samples average only (documented as '
      'meaningful only there)',
      'macro averaging without a vocabulary averages over the classes present',
      'MinMaxAndCount inputs are non-negative (documented as counts)',
      'retrieval rankings and true sets are non-empty (no zero-denominator '
      'convention is documented for retrieval)',
      'an undefined Pearson correlation (zero variance) may be NaN or inf',
      'signals/text.py imports a telemetry module absent from the tree; the '
      'checker injects an identity decorator to import metrics/text.py',
      'ThresholdedRetrieval is not covered here',
  ]
  units = []
  for family, cfg, inputs in _spaces(quick):
    if ctx.only and family not in ctx.only:
      continue
    inputs = ctx.shuffled(inputs)
    n = max(1, min(64, len(inputs) // 400 + 1))
    for chunk in enums.chunks(inputs, n):
      units.append((family, cfg, chunk))
  units.sort(key=lambda u: -len(u[2]))
  ctx.notes['work_units'] = len(units)
  ctx.pmap(_unit, units)


def replay(ctx, data):
  r = data['replay']
  cfg, inp = _thaw(r['cfg']), _thaw(r['data'])
  CASES[r['family']](ctx, cfg, inp)
