"""E1: deterministic cooperative scheduler ("vsched").

Code under test runs on real Python threads, but exactly one of them holds the
baton at any time.  The baton changes hands only at *scheduling points*
(`Scheduler.point`, `Scheduler.block`, `Scheduler.yield_`, thread exit), and
which thread gets it is a *choice* taken from a choice sequence.  An execution
is a deterministic function of its choice sequence.

Environment choices (faults, timer-first, shuffle orders) go through
`Scheduler.choose`, into the same choice sequence, against a separate budget.
"""
from __future__ import annotations

import hashlib
import sys
import threading as _rt   # the *real* threading module
import traceback

_VMC_FILES = None


class Abort(BaseException):
  """Raised inside v-threads to unwind them when an execution is torn down."""


class Divergence(Exception):
  """Replaying a prefix met a point where the recorded choice does not exist."""


class HarnessError(Exception):
  pass


NEW, RUN, BLOCKED, DONE = 'new', 'run', 'blocked', 'done'

# budget kinds
PRE, DEV = 0, 1


class VThread:
  __slots__ = ('tid', 'name', 'sem', 'real', 'state', 'pred', 'deadline',
               'timed_out', 'yielded', 'service', 'exc', 'target', 'nobj',
               'what', 'sleeping', 'pyobj', 'result', 'uid', 'nchild', 'vc', 'spin', 'spinning', 'last_run', 'focus_line')

  def __init__(self, tid, name, target):
    self.tid, self.name, self.target = tid, name, target
    self.sem = _rt.Semaphore(0)
    self.real = None
    self.state = NEW
    self.pred = None
    self.deadline = None
    self.timed_out = False
    self.yielded = False
    self.sleeping = False
    self.service = False
    self.exc = None
    self.nobj = 0
    self.what = ''
    self.result = None
    self.pyobj = None
    self.uid = ''
    self.nchild = 0
    self.vc = {}
    self.spin = {}
    self.spinning = False
    self.last_run = 0
    self.focus_line = None

  def __repr__(self):
    return f'<T{self.tid} {self.name} {self.state} {self.what}>'


class Point:
  __slots__ = ('n', 'chosen', 'costs', 'kind', 'used', 'key')

  def __init__(self, n, chosen, costs, kind, used, key=None):
    self.n, self.chosen, self.costs, self.kind, self.used, self.key = (
        n, chosen, costs, kind, used, key)


class Result:
  """What one execution produced."""

  def __init__(self):
    self.choices = []       # chosen index at every multi-option point
    self.points = []        # Point objects (only n > 1)
    self.failure = None     # None | ('deadlock'|'horizon'|'exception'|..., info)
    self.leftover = []      # non-service threads alive when the body returned
    self.value = None       # return value of the body
    self.steps = 0
    self.log_digest = ''
    self.states = set()
    self.thread_excs = []   # (name, exception) that escaped non-main threads
    self.clock = 0.0
    self.events = None      # full event log when requested
    self.pruned = False     # stopped at an already expanded node (hb cache)


class Scheduler:
  """One scheduler object == one execution."""

  TICK = 5.0
  SPIN_LIMIT = 12

  def __init__(self, prefix=(), *, mode='preempt', max_steps=20000,
               max_clock=3.0e4, keep_events=False, snapshot=None,
               tick=None, cache=None, pause_focus=None):
    self.prefix = list(prefix)
    self.mode = mode              # 'preempt' | 'delay'
    if tick:
      self.TICK = tick
    self.max_steps = max_steps
    self.max_clock = max_clock
    self.threads = []
    self.current = None
    self.clock = 1000.0
    self.steps = 0
    self.aborting = False
    self.finished = False
    self.res = Result()
    self.used = [0, 0]
    self._done_evt = _rt.Event()
    self._hd = 0
    self.keep_events = keep_events
    self.events = [] if keep_events else None
    self.snapshot = snapshot      # callable -> hashable view of shared data
    self.objects = 0
    self.timers = []              # (deadline, callback) fired at quiescence
    self.on_step = None
    self.cache = cache        # happens-before cache of expanded nodes
    self.pause_focus = frozenset(pause_focus or ())
    self.pollers = set()      # threads that polled (yielded) since the last tick
    self.hb = True
    self.trace_hash = 0
    self._lw = {}    # object -> vc of last write
    self._lr = {}    # object -> join of reads since last write

  # ---- thread management ---------------------------------------------------
  def new_thread(self, target, name=''):
    vt = VThread(len(self.threads), name or f't{len(self.threads)}', target)
    vt.real = _rt.Thread(target=self._boot, args=(vt,), daemon=True,
                         name=f'v{vt.tid}:{vt.name}')
    vt.last_run = self.steps
    parent = self.current
    if parent is None:
      vt.uid = '0'
    else:
      parent.nchild += 1
      vt.uid = f'{parent.uid}/{parent.nchild}'
      vt.vc = dict(parent.vc)       # start happens-after the parent's past
    self.threads.append(vt)
    return vt

  def start_thread(self, vt):
    """Called by the running thread; the new thread becomes schedulable."""
    self.point('start', vt.name)
    vt.state = RUN
    vt.real.start()

  def _boot(self, vt):
    vt.sem.acquire()
    if self.aborting:
      vt.state = DONE
      return
    try:
      vt.result = vt.target()
    except Abort:
      pass
    except BaseException as e:  # pylint: disable=broad-except
      vt.exc = e
      if vt.tid != 0:
        self.res.thread_excs.append((vt.name, e))
    finally:
      vt.state = DONE
    if self.aborting:
      return
    if vt.tid == 0:
      self._finish()
      return
    try:
      self._event(vt, 'exit', '')
      nxt = self._pick(cur=None, kind='exit')
    except Abort:
      return
    self.current = nxt
    if nxt.state == BLOCKED:
      nxt.state, nxt.pred, nxt.deadline = RUN, None, None
    nxt.sem.release()

  def _finish(self):
    self.finished = True
    main = self.threads[0]
    self.res.value = main.result
    if main.exc is not None and self.res.failure is None:
      self.res.failure = ('exception', main.exc)
    self.res.leftover = [t.name for t in self.threads
                         if t.state not in (DONE,) and not t.service
                         and t.tid != 0]
    self.aborting = True
    self._done_evt.set()

  def fail(self, kind, info=None):
    """Ends the execution with a failure verdict (deadlock, horizon, ...)."""
    if self.res.failure is None:
      self.res.failure = (kind, info)
    self.aborting = True
    self._done_evt.set()
    raise Abort()

  # ---- running ---------------------------------------------------------------
  def run(self, body, wall_timeout=900.0):
    main = self.new_thread(body, 'main')
    main.state = RUN
    self.current = main
    main.real.start()
    main.sem.release()
    if not self._done_evt.wait(wall_timeout):
      self.aborting = True
      self.res.failure = ('wall-timeout', self.describe())
    # tear down every remaining thread
    stuck = []
    for t in self.threads:
      if t.real.ident is None:       # never started
        continue
      if t.real.is_alive():
        t.sem.release()
    for t in self.threads:
      if t.real.ident is None:
        continue
      t.real.join(120.0)
      if t.real.is_alive():
        stuck.append(t.name)
    res = self.res
    res.steps = self.steps
    res.clock = self.clock
    res.log_digest = '%016x' % (self._hd & 0xFFFFFFFFFFFFFFFF)
    res.events = self.events
    if stuck:
      raise HarnessError(f'threads did not unwind: {stuck}')
    if (len(res.choices) < len(self.prefix) and res.failure is None
        and not res.pruned):
      raise Divergence(f'prefix longer than execution: {self.prefix} '
                       f'vs {res.choices}')
    return res

  # ---- scheduling points -------------------------------------------------------
  def me(self) -> VThread:
    return self.current

  def _check_alive(self):
    if self.aborting:
      raise Abort()

  def _event(self, vt, kind, obj):
    site = _site()
    self._hd = hash((self._hd, vt.tid, kind, obj, site))
    if self.events is not None:
      self.events.append((vt.tid, kind, obj, site, round(self.clock, 3)))
    if self.hb:
      self._hb_update(vt, kind, obj)
    vt.last_run = self.steps
    self.steps += 1
    self.clock += 0.001
    if self.steps > self.max_steps:
      self.fail('horizon', {'steps': self.steps, 'threads': self.describe()})
    # state fingerprint: every thread's last site + status, plus shared data
    vt.what = f'{kind}:{obj}@{site}'
    fp = tuple((t.state, t.what, t.yielded) for t in self.threads)
    if self.snapshot is not None:
      try:
        fp = (fp, self.snapshot())
      except Abort:
        raise
      except Exception as e:  # snapshot must never fail silently
        raise HarnessError(f'snapshot failed: {e!r}') from e
    self.res.states.add(hash(fp))
    # another thread took a step: yielded threads become eligible again
    for t in self.threads:
      if t is not vt:
        t.yielded = False
        if t.spin:
          t.spin.clear()
          t.spinning = False

  _READS = frozenset(('rd', 'q-empty'))

  def _hb_update(self, vt, kind, obj):
    """Vector-clock bookkeeping: the Mazurkiewicz trace of the execution so
    far is summarised by an order-independent hash of (event, causal past)."""
    vc = vt.vc
    vc[vt.uid] = vc.get(vt.uid, 0) + 1
    if kind == 'exit':
      obj = 'T:' + vt.uid
    lw = self._lw.get(obj)
    if lw:
      for k, v in lw.items():
        if vc.get(k, 0) < v:
          vc[k] = v
    if kind in self._READS:
      lr = self._lr.get(obj)
      if lr is None:
        self._lr[obj] = dict(vc)
      else:
        for k, v in vc.items():
          if lr.get(k, 0) < v:
            lr[k] = v
    else:
      lr = self._lr.pop(obj, None)
      if lr:
        for k, v in lr.items():
          if vc.get(k, 0) < v:
            vc[k] = v
      self._lw[obj] = dict(vc)
    self.trace_hash = (self.trace_hash + hash(
        (vt.uid, kind, obj, tuple(sorted(vc.items()))))) & 0xFFFFFFFFFFFFFFFF

  def state_key(self, cur, kind):
    return (self.trace_hash, cur.uid if cur is not None else None, kind,
            tuple(t.yielded for t in self.threads), round(self.clock, 3))

  def point(self, kind, obj=''):
    """A preemption opportunity before a visible operation."""
    self._check_alive()
    cur = self.current
    if self.pause_focus:
      self._maybe_pause(cur)
    self._event(cur, kind, obj)
    # busy-wait detection: a thread that passes the same point again and again
    # while nobody else takes a step is polling without sleeping; under any
    # fair scheduler the others would run, so the point becomes a yield.
    key = cur.what
    n = cur.spin.get(key, 0) + 1
    cur.spin[key] = n
    if n > self.SPIN_LIMIT:
      cur.spinning = True
    if cur.spinning:
      # While it spins, the thread gives way at every point where somebody
      # else can run (so a lock it releases inside the loop can be taken);
      # where nobody can, it yields at the repeated point only, and time passes.
      if n > self.SPIN_LIMIT or any(
          self._is_enabled(t) for t in self.threads if t is not cur):
        cur.yielded = True
    nxt = self._pick(cur=cur, kind=kind)
    self._switch(cur, nxt)

  def _maybe_pause(self, cur):
    """Environment choice "this thread is slow here": once per executed line
    of a focus function the thread may pause until every other thread has
    run as far as it can (a timed block that expires at quiescence)."""
    f = sys._getframe(2)
    line = None
    depth = 0
    while f is not None and depth < 25:
      if f.f_code.co_name in self.pause_focus and '/vmc/' not in f.f_code.co_filename:
        line = (f.f_code.co_name, f.f_lineno)
        break
      f = f.f_back
      depth += 1
    if line is None or line == cur.focus_line:
      return
    cur.focus_line = line
    if self.choose(2, kind='pause:%s:%d' % line, budget=DEV) == 1:
      self.block(_false, deadline=self.clock + 0.001, kind='pause', obj='')

  def note(self, kind, obj=''):
    """A visible operation that is not a preemption opportunity (release,
    wake-up after blocking): logged and entered into the happens-before
    bookkeeping only."""
    if self.aborting:
      return
    self._event(self.current, kind, obj)

  def yield_(self, kind='yield', obj=''):
    """The caller polls: it is passed over until somebody else took a step."""
    self._check_alive()
    cur = self.current
    self._event(cur, kind, obj)
    cur.yielded = True
    self.pollers.add(cur)
    nxt = self._pick(cur=cur, kind=kind)
    self._switch(cur, nxt)

  def block(self, pred, deadline=None, kind='block', obj=''):
    """Blocks the caller until pred() holds (returns True) or the deadline
    passes at quiescence (returns False)."""
    self._check_alive()
    cur = self.current
    self._event(cur, kind, obj)
    cur.state, cur.pred, cur.deadline, cur.timed_out = (
        BLOCKED, pred, deadline, False)
    self.pollers.discard(cur)
    nxt = self._pick(cur=cur, kind=kind)
    self._switch(cur, nxt)
    ok = not cur.timed_out
    cur.timed_out = False
    self._event(cur, 'wake', obj)
    return ok

  def join_all(self):
    """Blocks the caller until every other non-service thread has finished
    (a thread that never finishes shows up as a deadlock / horizon)."""
    cur = self.current
    self.block(lambda: all(t.state == DONE or t.service or t is cur
                           or t.state == NEW for t in self.threads),
               None, 'join-all', '')

  def sleep(self, secs):
    if secs <= 0:
      self.yield_('sleep0')
      return
    cur = self.current
    cur.sleeping = True
    try:
      self.block(lambda: False, deadline=self.clock + secs, kind='sleep',
                 obj=str(secs))
    finally:
      cur.sleeping = False

  def choose(self, n, kind='env', costs=None, budget=DEV):
    """An environment choice with n options; option 0 is the default."""
    self._check_alive()
    if n <= 1:
      return 0
    costs = costs or [0] + [1] * (n - 1)
    return self._take(n, costs, kind, budget)

  # ---- internals ---------------------------------------------------------------
  def _switch(self, cur, nxt):
    if nxt is cur:
      if cur.state == BLOCKED:
        cur.state, cur.pred, cur.deadline = RUN, None, None
      return
    self.current = nxt
    if nxt.state == BLOCKED:
      nxt.state, nxt.pred, nxt.deadline = RUN, None, None
    nxt.sem.release()
    cur.sem.acquire()
    if self.aborting:
      raise Abort()

  def _is_enabled(self, t):
    if t.state == RUN:
      return not t.yielded
    if t.state == BLOCKED:
      return bool(t.pred())
    return False

  def _pick(self, cur, kind):
    """Chooses the next thread to run.  cur=None when the caller exits."""
    while True:
      enabled = [t for t in self.threads if self._is_enabled(t)]
      if enabled:
        # Pollers that only hand the baton to each other make no progress in
        # real time either: when the caller has just polled and everybody who
        # could run has polled since the last tick, time passes.
        if (cur is not None and cur.yielded and cur.state == RUN
            and self.pollers and all(t in self.pollers for t in enabled)):
          pending = [t.deadline for t in self.threads
                     if t.state == BLOCKED and t.deadline is not None]
          pending += [d for d, _ in self.timers]
          if pending:
            target = min(self.clock + self.TICK, min(pending))
            self.pollers.clear()
            self._advance(target)
            for t in self.threads:
              t.yielded = False
            continue
        break
      # quiescence -------------------------------------------------------------
      yielded = [t for t in self.threads if t.state == RUN and t.yielded]
      deadlines = [t.deadline for t in self.threads
                   if t.state == BLOCKED and t.deadline is not None]
      deadlines += [d for d, _ in self.timers]
      if yielded:
        # everybody polls: time passes
        target = self.clock + self.TICK
        if deadlines and min(deadlines) < target:
          target = min(deadlines)
        self.pollers.clear()
        self._advance(target)
        for t in yielded:
          t.yielded = False
        continue
      if deadlines:
        self._advance(min(deadlines))
        continue
      alive = [t for t in self.threads
               if t.state in (RUN, BLOCKED) and not t.service]
      if cur is None and not alive:
        # only service threads remain and the exiting thread was not main:
        # cannot happen while main is alive (main is never a service thread)
        pass
      self.fail('deadlock', {'threads': self.describe()})
    cur_enabled = cur is not None and cur in enabled
    # canonical order: the running thread first, then the others by how long
    # they have been waiting (least recently run first: a fair default that
    # cannot starve a newly enabled thread behind two pollers)
    if cur_enabled:
      enabled.remove(cur)
    enabled.sort(key=_wait_key)
    if cur_enabled:
      enabled.insert(0, cur)
    n = len(enabled)
    if n == 1:
      return enabled[0]
    if self.mode == 'delay':
      costs = list(range(n))
    else:
      costs = [0] + [1 if cur_enabled else 0] * (n - 1)
    idx = self._take(n, costs, kind, PRE)
    return enabled[idx]

  def _advance(self, target):
    if target > self.clock:
      self.clock = target
    if self.clock - 1000.0 > self.max_clock:
      self.fail('horizon', {'clock': self.clock, 'threads': self.describe()})
    # expire timed blocks
    for t in self.threads:
      if (t.state == BLOCKED and t.deadline is not None
          and t.deadline <= self.clock and not t.pred()):
        t.timed_out = True
        t.pred = _true
    due = [x for x in self.timers if x[0] <= self.clock]
    if due:
      self.timers = [x for x in self.timers if x[0] > self.clock]
      for _, cb in sorted(due, key=lambda x: x[0]):
        cb()

  def add_timer(self, deadline, cb):
    self.timers.append((deadline, cb))

  def _take(self, n, costs, kind, budget):
    i = len(self.res.choices)
    if i < len(self.prefix):
      idx = self.prefix[i]
      if idx >= n:
        self.res.failure = ('divergence', f'choice {i}: {idx} >= {n} at {kind}')
        self.aborting = True
        self._done_evt.set()
        raise Abort()
    else:
      idx = 0
      if self.cache is not None and self.hb:
        # A node reached beyond the replayed prefix whose Mazurkiewicz trace,
        # running thread and budget were expanded before: its whole subtree
        # (this continuation included) is already explored - stop here.
        key = self.state_key(self.current, kind)
        used = tuple(self.used)
        prev = self.cache.get(key)
        if prev is not None and any(
            u[0] <= used[0] and u[1] <= used[1] for u in prev):
          self.res.pruned = True
          self.aborting = True
          self._done_evt.set()
          raise Abort()
        self.cache.setdefault(key, []).append(used)
    self.res.points.append(
        Point(n, idx, (budget, tuple(costs)), kind, tuple(self.used),
              self.state_key(self.current, kind) if self.hb else None))
    self.res.choices.append(idx)
    self.used[budget] += costs[idx]
    self._hd = hash((self._hd, 'choice', idx))
    return idx

  def describe(self):
    out = []
    for t in self.threads:
      out.append(f'T{t.tid}({t.name}) {t.state}'
                 f'{" yielded" if t.yielded else ""} at {t.what}')
    return out


def _true():
  return True


def _false():
  return False


def _wait_key(t):
  return (t.last_run, t.tid)


def _site():
  """Source position of the first frame outside /verif/vmc."""
  f = sys._getframe(2)
  while f is not None:
    fn = f.f_code.co_filename
    if '/vmc/' not in fn:
      return f'{f.f_code.co_name}:{f.f_lineno}'
    f = f.f_back
  return '?'


# ---- the scheduler of the running execution ------------------------------------
_current: Scheduler | None = None


def cur() -> Scheduler:
  s = _current
  if s is None:
    raise HarnessError('no active scheduler (shim used outside an execution)')
  return s


def active() -> bool:
  return _current is not None


_exec_count = 0


def execute(body, prefix=(), **kw) -> Result:
  """Runs body() as v-thread 0 under a fresh scheduler.

  The cyclic garbage collector is switched off while an execution runs:
  finalizers of garbage left by *earlier* executions (async generators, event
  loops, generators with pending `finally` blocks) would otherwise run at
  allocation-count dependent moments inside the current execution and touch
  its scheduler.  Garbage is collected between executions, outside any
  scheduler (where the shims degrade to sequential no-ops)."""
  global _current, _exec_count
  import gc
  was_enabled = gc.isenabled()
  gc.disable()
  s = Scheduler(prefix, **kw)
  _current = s
  try:
    return s.run(body)
  finally:
    _current = None
    _exec_count += 1
    if _exec_count % 25 == 0:
      gc.collect()
    if was_enabled:
      gc.enable()
