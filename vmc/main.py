"""Entry point: python -m vmc.main <ID> [--tier quick|thorough] [--replay file]."""
import argparse
import importlib
import json
import os
import sys

ROOT = os.path.dirname(os.path.dirname(os.path.abspath(__file__)))


def main(argv=None):
  ap = argparse.ArgumentParser()
  ap.add_argument('prop')
  ap.add_argument('--tier', default=os.environ.get('VERIF_TIER') or 'quick',
                  choices=['quick', 'thorough'])
  ap.add_argument('--replay')
  ap.add_argument('--only', default='', help='comma list of harness names')
  args = ap.parse_args(argv)
  if os.environ.get('PYTHONHASHSEED') != '0':
    os.environ['PYTHONHASHSEED'] = '0'
    os.environ['PYTHONDONTWRITEBYTECODE'] = '1'
    os.execv(sys.executable, [sys.executable, '-m', 'vmc.main'] + sys.argv[1:])
  # the implementation under test is always /repo's working tree
  repo = os.environ.get('VERIF_REPO', '/repo')
  sys.path.insert(0, repo)
  sys.path.insert(0, ROOT)
  import logging as _pylogging
  _pylogging.disable(_pylogging.CRITICAL)
  try:
    from absl import logging as absl_logging
    absl_logging.set_verbosity(absl_logging.FATAL)
    absl_logging.set_stderrthreshold('fatal')
  except Exception:
    pass
  import warnings
  warnings.filterwarnings('ignore')
  from vmc import runner
  seed = int(os.environ.get('VERIF_SEED', '0') or 0)
  mod = importlib.import_module('checks.' + args.prop.lower())
  import ml_metrics
  assert os.path.realpath(ml_metrics.__file__).startswith(
      os.path.realpath(repo)), ml_metrics.__file__
  ctx = runner.Ctx(mod.PROPERTY, mod.LEVEL, args.tier, seed)
  ctx.only = [s for s in args.only.split(',') if s]
  # safety net for the schedule explorations of the thorough tier: past this
  # wall-clock budget open subtrees are abandoned and the run is reported as
  # capped (exhaustive: false), never as exhaustive
  budget = os.environ.get('VERIF_TIME_BUDGET') or (
      '' if args.tier == 'quick' else '1500')
  ctx.deadline = (ctx.t0 + float(budget)) if budget else None
  if args.replay:
    data = json.load(open(args.replay))
    mod.replay(ctx, data)
    for v in ctx.violations:
      print('REPLAY-VIOLATION', v['sig'], json.dumps(v['detail'], default=repr)[:2000])
    print('replay: %d violation(s)' % len(ctx.violations))
    return 1 if ctx.violations else 0
  mod.run(ctx)
  rc = ctx.finish()
  print(f'{mod.PROPERTY} tier={args.tier} seed={seed} evaluations={ctx.evaluations} '
        f'distinct={len(ctx.nontrivial) + ctx.nontrivial_cnt} '
        f'states={len(ctx.states) + ctx.states_cnt} transitions={ctx.transitions} '
        f'traces={ctx.traces} outcomes={len(ctx.outcomes)} '
        f'violations={len(ctx.violations)} caps={ctx.capped} '
        f'wall={ctx._wall():.1f}s rc={rc}')
  return rc


if __name__ == '__main__':
  sys.exit(main())
