"""E1 harness for the real IteratorQueue (shared by C04 / C05).

Producers run `enqueue_from_iterator` over tagged sources `(p, i)` that return
`('ret', p)`; consumers drain the queue in one of several modes.  Optional
faults: a producer whose source raises at a position, an external stopper
thread, queue timeouts.
"""
from __future__ import annotations

import collections

from vmc import explorer, hooks, sched, vthreading

_ready = False


def prepare():
  """Installs shims + field hooks on iter_utils (once per process)."""
  global _ready
  if _ready:
    return
  from ml_metrics._src.utils import iter_utils
  hooks.install_shims([iter_utils])
  hooks.instrument(iter_utils.IteratorQueue)
  hooks.instrument(iter_utils.Progress, extra=('cnt',))
  _ready = True


class Boom(Exception):
  """The injected producer failure."""


class Stopper(Exception):
  """The exception passed to maybe_stop(exc)."""


def source(p, n, fail_at=None, ret=True, started=None, gate=None):
  if started is not None:
    started.set()
  for i in range(n):
    if fail_at is not None and i == fail_at:
      if gate is not None:
        gate()       # wait (yielding) until the harness-chosen state is reached
      raise Boom(f'p{p}@{i}')
    yield (p, i)
  if fail_at is not None and fail_at >= n:
    raise Boom(f'p{p}@{n}')
  if ret:
    return ('ret', p)


class Consumer:
  """Records everything one consumer observes."""

  def __init__(self, cid, mode):
    self.cid, self.mode = cid, mode
    self.items = []
    self.end = None        # ('stop', args) | ('exc', exception) | ('done',)
    self.batches = []

  def run(self, q):
    kind = self.mode[0]
    try:
      if kind == 'get':
        while True:
          self.items.append(q.get())
      elif kind == 'batch':        # non-blocking batches (>= 1 element)
        while True:
          b = q.get_batch(self.mode[1])
          self.batches.append(len(b))
          self.items.extend(b)
      elif kind == 'bbatch':       # blocking batches of exactly k (last: less)
        while True:
          b = q.get_batch(self.mode[1], block=True)
          self.batches.append(len(b))
          self.items.extend(b)
          if not b:
            # an empty blocking batch would spin forever
            self.end = ('empty-batch',)
            return
      elif kind == 'iter':
        for x in q:
          self.items.append(x)
        self.end = ('stop', None)
      elif kind == 'steps':        # dequeue_as_iterator(num_steps): early stop
        for x in q.dequeue_as_iterator(self.mode[1]):
          self.items.append(x)
        self.end = ('stop', None)
      elif kind == 'once':         # a fixed number of get() calls
        for _ in range(self.mode[1]):
          self.items.append(q.get())
        self.end = ('done',)
      else:
        raise ValueError(kind)
    except StopIteration as e:
      self.end = ('stop', tuple(e.args))
    except sched.Abort:
      raise
    except BaseException as e:  # pylint: disable=broad-except
      self.end = ('exc', e)


class QueueHarness(explorer.Harness):
  """params:
    prods:  list of item counts, one per producer
    cap:    queue capacity (0 = unbounded)
    cons:   list of consumer modes, e.g. ['get'], [['bbatch', 2]]
    declared: whether max_enqueuer is given to the constructor
    fail:   None | [producer, position]   (source raises Boom there)
    stop:   None | 'plain' | 'exc'        (a stopper thread calls maybe_stop)
    timeout: None | float                 (queue timeout)
    ignore_error: bool
    hooked: field-level scheduling points on/off
  """
  name = 'queue'
  max_steps = 6000

  def __init__(self, prods=(1,), cap=0, cons=('get',), declared=True, fail=None,
               stop=None, timeout=None, ignore_error=False, mode='preempt',
               starve=None, late=False, gate=0, stop_after_fail=False,
               late_cons=False):
    self.params = dict(prods=list(prods), cap=cap,
                       cons=[list(c) if not isinstance(c, str) else c
                             for c in cons],
                       declared=declared, fail=fail, stop=stop, timeout=timeout,
                       ignore_error=ignore_error, mode=mode, starve=starve,
                       late=late, gate=gate, stop_after_fail=stop_after_fail,
                       late_cons=late_cons)
    self.mode = mode
    prepare()

  def setup(self):
    from ml_metrics._src.utils import iter_utils
    p = self.params
    nprod = len(p['prods'])
    self.q = q = iter_utils.IteratorQueue(
        p['cap'], name='q', timeout=p['timeout'],
        ignore_error=p['ignore_error'],
        max_enqueuer=nprod if p['declared'] else 0)
    self.consumers = [Consumer(i, _mode(m)) for i, m in enumerate(p['cons'])]
    self.prod_end = [None] * nprod
    self.stop_end = None

    def gate():
      # the failing source raises only once `gate` producers wait in put()
      from vmc import vtime
      cond = object.__getattribute__(q, '_enqueue_lock')
      while len(cond._waiters) < p['gate']:
        vtime.sleep(0)

    def producer(i):
      fail_at = None
      if p['fail'] is not None and p['fail'][0] == i:
        fail_at = p['fail'][1]
      try:
        q.enqueue_from_iterator(
            source(i, p['prods'][i], fail_at,
                   started=started[i] if p['stop'] else None,
                   gate=gate if p.get('gate') else None))
        self.prod_end[i] = ('ok',)
      except sched.Abort:
        raise
      except BaseException as e:  # pylint: disable=broad-except
        self.prod_end[i] = ('exc', e)
      finally:
        if fail_at is not None:
          failed.set()

    started = [vthreading.Event() for _ in range(nprod)]
    failed = vthreading.Event()

    def stopper():
      try:
        if not p.get('late'):
          # the stop request arrives after every producer has begun (a
          # producer that starts after the stop is the 'late' configuration)
          for ev in started:
            ev.wait()
        if p.get('stop_after_fail'):
          # the stop request arrives after the failure has been recorded (the
          # failing producer has returned): it must not erase the failure
          failed.wait()
        if p['stop'] == 'exc':
          self.stop_exc = Stopper('stop')
          q.maybe_stop(self.stop_exc)
        else:
          q.maybe_stop()
        self.stop_end = ('ok',)
      except sched.Abort:
        raise
      except BaseException as e:  # pylint: disable=broad-except
        self.stop_end = ('exc', e)

    def body():
      ts = []
      for i in range(nprod):
        ts.append(vthreading.Thread(target=producer, args=(i,), name=f'prod{i}'))
      cons = [vthreading.Thread(target=c.run, args=(q,), name=f'cons{c.cid}')
              for c in self.consumers]
      if not p.get('late_cons'):
        ts += cons
      st = None
      if p['stop']:
        st = vthreading.Thread(target=stopper, name='stopper')
        ts.append(st)
      for t in ts:
        t.start()
      if p.get('late_cons'):
        # the consumers look at the queue only after the stop request (or, if
        # there is none, after the failing producer) has finished
        if st is not None:
          st.join()
        else:
          failed.wait()
        for t in cons:
          t.start()
        ts += cons
      for t in ts:
        t.join()
    return body

  # -- state view for fingerprints -------------------------------------------------
  def snapshot(self):
    q = self.q
    g = object.__getattribute__
    inner = g(q, '_queue')
    return (tuple(inner._d), g(q, '_exhausted'), g(q, '_enqueue_start'),
            g(q, '_enqueue_stop'), g(q, '_max_enqueuer'),
            len(g(q, '_returned')), g(q, '_exception') is not None,
            tuple(len(c.items) for c in self.consumers))

  def outcome(self, res):
    return (res.failure and res.failure[0],
            tuple((tuple(c.items), c.end and c.end[0]) for c in self.consumers))

  # -- oracle (C04: fault-free configurations) ----------------------------------------
  def check(self, res):
    p = self.params
    if p['fail'] is not None or p['stop'] or p['timeout'] is not None:
      return self.check_faulty(res)
    out = []
    if res.failure:
      kind, info = res.failure
      out.append((f'C04:queue:{kind}{_stuck(kind, info)}:{self._cfg()}',
                  {'failure': kind, 'info': _info(info)}))
      return out
    g = object.__getattribute__
    q = self.q
    produced = [(i, k) for i, n in enumerate(p['prods']) for k in range(n)]
    got = [x for c in self.consumers for x in c.items]
    cnt = collections.Counter(got)
    if any(v > 1 for v in cnt.values()):
      out.append((f'C04:queue:duplicate-delivery:{self._cfg()}', {'got': got}))
    if set(cnt) - set(produced):
      out.append((f'C04:queue:invented-element:{self._cfg()}', {'got': got}))
    if set(produced) - set(cnt):
      out.append((f'C04:queue:lost-element:{self._cfg()}',
                  {'missing': sorted(set(produced) - set(cnt)), 'got': got}))
    for c in self.consumers:
      for i in range(len(p['prods'])):
        seq = [k for (pi, k) in c.items if pi == i]
        if seq != sorted(seq):
          out.append((f'C04:queue:producer-order:{self._cfg()}',
                      {'consumer': c.cid, 'items': c.items}))
    rets = sorted(('ret', i) for i in range(len(p['prods'])))
    for c in self.consumers:
      if c.end is None or c.end[0] != 'stop':
        out.append((f'C04:queue:consumer-end-not-stop:{self._cfg()}',
                    {'consumer': c.cid, 'end': repr(c.end)}))
      elif c.end[1] is not None and sorted(c.end[1]) != rets:
        out.append((f'C04:queue:return-values:{self._cfg()}',
                    {'consumer': c.cid, 'end': repr(c.end), 'expected': rets}))
      if c.mode[0] == 'bbatch' and any(
          b != c.mode[1] for b in c.batches[:-1]):
        out.append((f'C04:queue:blocking-batch-short:{self._cfg()}',
                    {'consumer': c.cid, 'batches': c.batches}))
    if sorted(g(q, '_returned')) != rets:
      out.append((f'C04:queue:returned-attr:{self._cfg()}',
                  {'returned': g(q, '_returned')}))
    if not g(q, '_exhausted'):
      out.append((f'C04:queue:not-exhausted:{self._cfg()}', {}))
    if g(q, '_progress').cnt != len(produced):
      out.append((f'C04:queue:progress-count:{self._cfg()}',
                  {'cnt': g(q, '_progress').cnt, 'expected': len(produced)}))
    for i, e in enumerate(self.prod_end):
      if e != ('ok',):
        out.append((f'C04:queue:producer-end:{self._cfg()}',
                    {'producer': i, 'end': repr(e)}))
    if res.leftover:
      out.append((f'C04:queue:threads-left:{self._cfg()}',
                  {'left': res.leftover}))
    return out

  def _cfg(self):
    """Configuration class used inside signatures (narrow, run-independent)."""
    p = self.params
    modes = '+'.join(sorted({_mode(m)[0] for m in p['cons']}))
    return (f'{modes}:cap{"0" if not p["cap"] else "N"}:'
            f'P{len(p["prods"])}C{len(p["cons"])}')

  # -- oracle (C05) ---------------------------------------------------------------
  def what(self):
    p = self.params
    parts = []
    if p['fail'] is not None:
      parts.append('producer-fails' + ('-ignored' if p['ignore_error'] else ''))
    if p['stop']:
      parts.append('stop-' + p['stop'] + ('-late' if p.get('late') else '')
                   + ('-after-failure' if p.get('stop_after_fail') else ''))
    if p.get('late_cons'):
      parts.append('consumers-come-later')
    if p['timeout'] is not None:
      parts.append('timeout-' + str(p['starve']))
    return '+'.join(parts)

  def check_faulty(self, res):
    p = self.params
    out = []
    cfg = self._cfg()
    what = self.what()
    g = object.__getattribute__
    if res.failure:
      kind, info = res.failure
      stuck = _stuck(kind, info)
      out.append((f'C05:queue:{what}:{kind}{stuck}:{cfg}',
                  {'failure': kind, 'info': _info(info)}))
      return out
    got = [x for c in self.consumers for x in c.items]
    cnt = collections.Counter(got)
    fail = p['fail']
    produced = set()
    for i, n in enumerate(p['prods']):
      lim = n if not (fail and fail[0] == i) else min(n, fail[1])
      produced |= {(i, k) for k in range(lim)}
    if any(v > 1 for v in cnt.values()):
      out.append((f'C05:queue:{what}:duplicate-delivery:{cfg}', {'got': got}))
    if set(cnt) - produced:
      out.append((f'C05:queue:{what}:invented-element:{cfg}', {'got': got}))
    for c in self.consumers:
      for i in range(len(p['prods'])):
        seq = [k for (pi, k) in c.items if pi == i]
        if seq != sorted(seq):
          out.append((f'C05:queue:{what}:producer-order:{cfg}',
                      {'consumer': c.cid, 'items': c.items}))
    all_delivered = set(cnt) == produced

    def ends(c, *kinds):
      if c.end is None:
        return False
      for k in kinds:
        if k == 'stop' and c.end[0] == 'stop':
          return True
        if k == 'boom' and c.end[0] == 'exc' and isinstance(c.end[1], Boom):
          return True
        if k == 'stopper' and c.end[0] == 'exc' and c.end[1] is getattr(
            self, 'stop_exc', None):
          return True
        if k == 'timeout' and c.end[0] == 'exc' and isinstance(
            c.end[1], TimeoutError):
          return True
      return False

    if p['timeout'] is not None:
      if p['starve'] == 'get':
        for c in self.consumers:
          if not ends(c, 'timeout'):
            out.append((f'C05:queue:{what}:starved-get-did-not-time-out:{cfg}',
                        {'consumer': c.cid, 'end': repr(c.end)}))
      if p['starve'] == 'put':
        for i, e in enumerate(self.prod_end):
          if not (e and e[0] == 'exc' and isinstance(e[1], TimeoutError)):
            out.append((f'C05:queue:{what}:starved-put-did-not-time-out:{cfg}',
                        {'producer': i, 'end': repr(e)}))
      return out

    failing = fail is not None and not p['ignore_error']
    for c in self.consumers:
      if failing and not p['stop']:
        ok = ends(c, 'boom')
        miss = 'consumer-missed-producer-exception'
      elif failing and p['stop'] == 'plain' and p.get('stop_after_fail'):
        # the failure was recorded before the plain stop request arrived
        ok = ends(c, 'boom')
        miss = 'consumer-missed-producer-exception'
      elif failing and p['stop'] == 'plain':
        ok = ends(c, 'boom', 'stop')
        miss = 'consumer-end'
      elif failing and p['stop'] == 'exc':
        ok = ends(c, 'boom', 'stopper')
        miss = 'consumer-end'
      elif p['stop'] == 'exc':
        ok = ends(c, 'stopper') or (ends(c, 'stop') and all_delivered)
        miss = 'consumer-missed-stop-exception'
      else:   # plain stop and/or ignored failure
        ok = ends(c, 'stop')
        miss = 'consumer-end-not-clean-stop'
      if not ok:
        out.append((f'C05:queue:{what}:{miss}:{cfg}',
                    {'consumer': c.cid, 'end': repr(c.end), 'items': c.items,
                     'all_delivered': all_delivered}))
    for i, e in enumerate(self.prod_end):
      if failing and fail[0] == i:
        # the failing producer re-raises its own exception (unless a stop made
        # it leave the loop before reaching the failing position)
        good = e and ((e[0] == 'exc' and isinstance(e[1], Boom))
                      or (p['stop'] and e == ('ok',)))
      else:
        good = e == ('ok',)
      if not good:
        out.append((f'C05:queue:{what}:producer-end:{cfg}',
                    {'producer': i, 'end': repr(e)}))
    if fail is not None and p['ignore_error'] and not p['stop']:
      if not all_delivered:
        out.append((f'C05:queue:{what}:lost-element:{cfg}',
                    {'missing': sorted(produced - set(cnt))}))
    if p['stop'] and self.stop_end != ('ok',):
      out.append((f'C05:queue:{what}:stopper-end:{cfg}',
                  {'end': repr(self.stop_end)}))
    if res.leftover:
      out.append((f'C05:queue:{what}:threads-left:{cfg}',
                  {'left': res.leftover}))
    return out


def _stuck(kind, info):
  """':stuck=<roles>' for deadlocks: which kinds of thread never finished."""
  if kind in ('deadlock', 'horizon') and isinstance(info, dict):
    roles = sorted({t.split('(')[1].split(')')[0].rstrip('0123456789')
                    for t in info.get('threads', [])
                    if ' blocked' in t and '(main)' not in t})
    return ':stuck=' + '+'.join(roles)
  return ''


def _mode(m):
  if isinstance(m, str):
    return (m, 0)
  return tuple(m)


def _info(info):
  if isinstance(info, BaseException):
    return repr(info)
  return info


HARNESSES = {'queue': QueueHarness}
