"""Environment for the courier-based layers: fake transport + shims + resets.

`prepare()` (once per process) installs `vmc.fake_courier` as the `courier`
module, imports the ml-metrics courier modules and rebinds their
`threading/time/queue/futures/asyncio/random/signal` globals to the virtual
implementations.  `reset()` (before every execution) clears every piece of
process-wide state the library keeps, so that an execution is a function of
its choice sequence only.
"""
from __future__ import annotations

import collections.abc
import itertools
import sys
import types

from vmc import fake_courier, hooks, sched, vfutures, vthreading

_ready = False
M = types.SimpleNamespace()    # the imported library modules


class _NoSignal:
  SIGINT, SIGTERM, SIGABRT = 2, 15, 6

  @staticmethod
  def signal(*a, **k):
    return None


class _VRandom:
  """Identity shuffle/sample by default (order = a fixed canonical order);
  the harness may turn them into environment choices."""
  choice_points = False

  @staticmethod
  def shuffle(x):
    n = len(x)
    if n > 1 and not hasattr(type(x), '__setitem__'):   # as random.shuffle does
      raise TypeError(
          f"'{type(x).__name__}' object does not support item assignment")
    if _VRandom.choice_points and n > 1 and sched.active():
      k = sched.cur().choose(len(x), kind='shuffle', costs=[0] + [1] * (len(x) - 1))
      x[:] = x[k:] + x[:k]
    return None

  @staticmethod
  def sample(population, k):
    if not isinstance(population, collections.abc.Sequence):
      raise TypeError('Population must be a sequence.  '
                      'For dicts or sets, use sorted(d).')
    population = list(population)
    if not 0 <= k <= len(population):   # as random.sample does
      raise ValueError('Sample larger than population or is negative')
    return population[:k]

  @staticmethod
  def random():
    return 0.5


def prepare():
  global _ready
  if _ready:
    return M
  sys.modules['courier'] = fake_courier
  from ml_metrics._src.chainables import courier_server, courier_worker
  from ml_metrics._src.chainables import lazy_fns, orchestrate, transform
  from ml_metrics._src.utils import courier_utils, func_utils, iter_utils
  from vmc import qharness, vasyncio
  M.courier_server, M.courier_worker = courier_server, courier_worker
  M.lazy_fns, M.orchestrate, M.transform = lazy_fns, orchestrate, transform
  M.courier_utils, M.func_utils, M.iter_utils = (
      courier_utils, func_utils, iter_utils)
  assert courier_utils.courier is fake_courier, 'real courier was imported first'
  qharness.prepare()          # iter_utils shims + IteratorQueue field hooks
  mods = [courier_utils, courier_server, courier_worker, orchestrate, transform,
          func_utils]
  hooks.install_shims(mods)
  for m in mods + [iter_utils, lazy_fns]:
    if 'asyncio' in m.__dict__:
      m.asyncio = vasyncio
    if 'random' in m.__dict__:
      m.random = _VRandom
    if 'signal' in m.__dict__:
      m.signal = _NoSignal
  # GC-timed shutdown requests would act at uncontrolled moments
  courier_server.CourierServer.__del__ = lambda self: None
  # run_until_shutdown threads live as long as their server: service threads
  class _ServerThreading:
    def __getattr__(self, name):
      return getattr(vthreading, name)

    class Thread(vthreading.Thread):
      def __init__(self, *a, **k):
        super().__init__(*a, **k)
        tgt = k.get('target')
        if getattr(tgt, '__name__', '') == 'run_until_shutdown':
          self._service = True
          self.name = 'server-main'
  courier_server.threading = _ServerThreading()
  _ready = True
  return M


def reset():
  """Clears process-wide state; call before every execution."""
  m = prepare()
  fake_courier.reset()
  m.func_utils.SingletonMeta._instances.clear()
  m.courier_server._CourierServerSingleton._instances.clear()
  m.courier_utils._worker_registry = m.courier_utils.WorkerRegistry()
  m.lazy_fns.clear_cache()
  inc = m.lazy_fns._increment_id
  inc._inc_iter = itertools.count()
  inc._base = 0x5eed0000 << 32
  vfutures.ThreadPoolExecutor._pools.clear()
  m.courier_server._THREAD_POOL = vfutures.ThreadPoolExecutor(
      thread_name_prefix='server_pool')
  _VRandom.choice_points = False
