"""Importable fixtures for the courier harnesses (pickled by reference)."""
import numpy as np


def add(a, b):
  return a + b


def mul(a, b):
  return a * b


def identity(x):
  return x


def task_id(i):
  """A task that returns its own unique id."""
  return ('done', i)


def raiser(msg='boom'):
  raise ValueError(msg)


def key_raiser(msg='missing'):
  raise KeyError(msg)


class Box:
  """A class with attributes, items and __call__."""

  def __init__(self, v):
    self.v = v
    self.items = {'a': v, 'b': [v, v + 1]}

  def __call__(self, k):
    return self.v * k

  def plus(self, d):
    return Box(self.v + d)

  def __getitem__(self, k):
    return self.items[k]

  def __eq__(self, other):
    return isinstance(other, Box) and other.v == self.v

  def __hash__(self):
    return hash(self.v)

  def __repr__(self):
    return f'Box({self.v})'


def gen(n, ret='R', fail_at=None, tag='g'):
  """A generator of n tagged elements with a return value."""
  for i in range(n):
    if fail_at is not None and i == fail_at:
      raise ValueError(f'{tag}@{i}')
    yield (tag, i)
  if fail_at is not None and fail_at >= n:
    raise ValueError(f'{tag}@{n}')
  return ret


def make_list(n):
  return list(range(n))
