"""Importable fixtures for the courier harnesses (pickled by reference)."""
import numpy as np


def add(a, b):
  return a + b


def mul(a, b):
  return a * b


def identity(x):
  return x


def task_id(i):
  """A task that returns its own unique id."""
  return ('done', i)


def raiser(msg='boom'):
  raise ValueError(msg)


def key_raiser(msg='missing'):
  raise KeyError(msg)


class LockWaitTimeout(TimeoutError):
  """An application-level time-out (a subclass of the builtin)."""


class AppError(Exception):
  """An application exception with two arguments."""


EXC_KINDS = {
    'TimeoutError': TimeoutError, 'LockWaitTimeout': LockWaitTimeout,
    'RuntimeError': RuntimeError, 'StopIteration': StopIteration,
    'AppError': AppError, 'LookupError': LookupError, 'OSError': OSError,
    'AssertionError': AssertionError, 'NotImplementedError': NotImplementedError,
}


def raise_kind(kind, *args):
  """Raises the exception class named `kind` (the classes a transport or a
  client might treat specially: time-outs, StopIteration, RuntimeError, ...)."""
  raise EXC_KINDS[kind](*args)


class Busy:
  """An object whose method raises a time-out (remote object chains)."""

  def read(self, kind='TimeoutError'):
    raise EXC_KINDS[kind]('busy')


class Box:
  """A class with attributes, items and __call__."""

  def __init__(self, v):
    self.v = v
    self.items = {'a': v, 'b': [v, v + 1]}

  def __call__(self, k):
    return self.v * k

  def plus(self, d):
    return Box(self.v + d)

  def __getitem__(self, k):
    return self.items[k]

  def __eq__(self, other):
    return isinstance(other, Box) and other.v == self.v

  def __hash__(self):
    return hash(self.v)

  def __repr__(self):
    return f'Box({self.v})'


def gen(n, ret='R', fail_at=None, tag='g'):
  """A generator of n tagged elements with a return value."""
  for i in range(n):
    if fail_at is not None and i == fail_at:
      raise ValueError(f'{tag}@{i}')
    yield (tag, i)
  if fail_at is not None and fail_at >= n:
    raise ValueError(f'{tag}@{n}')
  return ret


def slow_gen(tag='g', period=10.0):
  """An endless generator that needs `period` (virtual) seconds per element:
  the source a consumer is still waiting on when the server is told to stop."""
  from vmc import vtime
  i = 0
  while True:
    vtime.sleep(period)
    yield (tag, i)
    i += 1


def make_list(n):
  return list(range(n))


# ---- pipelines for the distributed drivers (C16 / C06b / C03) -----------------

class SumCount:
  """A transparent exact aggregate: (sum, count) of all rows."""

  def create_state(self):
    return (0, 0)

  def update_state(self, state, xs):
    xs = list(xs)
    return (state[0] + sum(int(x) for x in xs), state[1] + len(xs))

  def merge_states(self, states):
    s = c = 0
    for a, b in states:
      s, c = s + a, c + b
    return (s, c)

  def get_result(self, state):
    return state


def sharded_rows(total, batch_size, shard_index=0, num_shards=1):
  """Batches of unique ints; batch j goes to shard j % num_shards."""
  num_batches, remainder = divmod(total, batch_size)
  for j in range(num_batches):
    if j % num_shards == shard_index:
      yield [j * 100 + r for r in range(batch_size)]
  if not shard_index and remainder:
    yield [num_batches * 100 + r for r in range(remainder)]


def times10(xs):
  return [x * 10 for x in xs]


def sharded_pipeline(total, batch_size, shard_index=0, num_shards=1, fuse=True,
                     num_threads=0, agg=True):
  from ml_metrics._src.chainables import transform
  data = transform.TreeTransform.new(name='datasource').data_source(
      sharded_rows(total, batch_size, shard_index, num_shards))
  apply = transform.TreeTransform.new(
      name='apply', num_threads=num_threads).apply(fn=times10)
  if not agg:
    return data.chain(apply)
  if agg == 'two':
    # aggregates in two separately named stages (input statistics + output
    # statistics): every shard state carries the keys of both
    pre = transform.TreeTransform.new(name='datasource').data_source(
        sharded_rows(total, batch_size, shard_index, num_shards)).aggregate(
            output_keys='in_stats', fn=SumCount())
    return pre.chain(apply.aggregate(output_keys='stats', fn=SumCount()))
  if fuse:
    return data.chain(apply.aggregate(output_keys='stats', fn=SumCount()))
  return data.chain(apply).chain(
      transform.TreeTransform.new(name='agg').aggregate(
          output_keys='stats', fn=SumCount()))


# ---- calls during which the server is asked to shut down (C14) ------------------

def _request_shutdown(addr):
  from vmc import cenv
  m = cenv.prepare()
  for s in m.courier_server.CourierServer.all_instances:
    if s.address == addr:
      s._request_shutdown()


def shutdown_then_raise(addr, msg='boom-mid-call'):
  """The shutdown request arrives while this call is being served; then the
  call fails."""
  _request_shutdown(addr)
  raise ValueError(msg)


def shutdown_then_return(addr, value):
  _request_shutdown(addr)
  return value


class Unpicklable:
  """An argument that cannot be pickled (submission fails on the client)."""

  def __init__(self, tag):
    self.tag = tag

  def __reduce__(self):
    raise TypeError(f'cannot pickle {self.tag}')

  def __repr__(self):
    return f'Unpicklable({self.tag})'


# ---- a sliced aggregate: slice values that appear only in some shards (C16) -------

def sliced_rows(total, batch_size, shard_index=0, num_shards=1):
  """Like sharded_rows, as dict batches with a slice column: every batch has
  its own slice value plus one shared value, so most slice keys exist in one
  shard only."""
  for rows in sharded_rows(total, batch_size, shard_index, num_shards):
    j = rows[0] // 100
    yield {'x': rows, 'k': [f'b{j}' if r % 2 == 0 else 'shared' for r in rows]}


def times10_col(xs):
  return [x * 10 for x in xs]


def sliced_pipeline(total, batch_size, shard_index=0, num_shards=1, fuse=True,
                    num_threads=0, agg=True):
  from ml_metrics._src.chainables import transform
  data = transform.TreeTransform.new(name='datasource').data_source(
      sliced_rows(total, batch_size, shard_index, num_shards))
  apply = transform.TreeTransform.new(
      name='apply', num_threads=num_threads).assign(
          'y', fn=times10_col, input_keys='x')
  if fuse:
    return data.chain(apply.aggregate(
        input_keys='y', output_keys='stats', fn=SumCount()).add_slice('k'))
  return data.chain(apply).chain(
      transform.TreeTransform.new(name='agg').aggregate(
          input_keys='y', output_keys='stats', fn=SumCount()).add_slice('k'))
