"""Shim self-tests: litmus programs with known outcome sets (run by setup.sh)."""
import sys

from vmc import explorer, sched, vthreading, vtime


class _Litmus(explorer.Harness):
  def __init__(self, **kw):
    self.params = kw

  def outcome(self, res):
    return (res.failure and res.failure[0], getattr(self, 'obs', None))


class Counter(_Litmus):
  """Two threads increment a shared counter, with or without a lock."""
  name = 'counter'

  def setup(self):
    locked = self.params['locked']
    box = {'n': 0}
    lock = vthreading.Lock()
    s = sched.cur

    def inc():
      if locked:
        with lock:
          v = box['n']; s().point('rd', 'n'); box['n'] = v + 1
      else:
        s().point('rd', 'n'); v = box['n']; s().point('wr', 'n'); box['n'] = v + 1

    def body():
      ts = [vthreading.Thread(target=inc) for _ in range(2)]
      for t in ts: t.start()
      for t in ts: t.join()
      self.obs = box['n']
    return body

  def check(self, res):
    if res.failure:
      return [('litmus:failure:' + res.failure[0], None)]
    return [] if self.obs == 2 else [('litmus:lost-update', self.obs)]


class LostWakeup(_Litmus):
  """Consumer checks the flag, then waits; producer sets flag and notifies
  without the consumer holding the lock across check+wait => deadlock."""
  name = 'lostwakeup'

  def setup(self):
    broken = self.params['broken']
    cv = vthreading.Condition()
    box = {'flag': False}
    s = sched.cur

    def consumer():
      if broken:
        s().point('rd', 'flag')
        if not box['flag']:
          with cv:
            cv.wait()
      else:
        with cv:
          while not box['flag']:
            cv.wait()

    def producer():
      with cv:
        box['flag'] = True
        cv.notify_all()

    def body():
      ts = [vthreading.Thread(target=consumer), vthreading.Thread(target=producer)]
      for t in ts: t.start()
      for t in ts: t.join()
    return body

  def check(self, res):
    return [('litmus:' + res.failure[0], None)] if res.failure else []


class BoundedBuffer(_Litmus):
  name = 'bbuf'

  def setup(self):
    cv = vthreading.Condition()
    buf, got = [], []

    def prod():
      for i in range(2):
        with cv:
          while len(buf) >= 1:
            cv.wait()
          buf.append(i)
          cv.notify_all()

    def cons():
      for _ in range(2):
        with cv:
          while not buf:
            cv.wait()
          got.append(buf.pop(0))
          cv.notify_all()

    def body():
      ts = [vthreading.Thread(target=prod), vthreading.Thread(target=cons)]
      for t in ts: t.start()
      for t in ts: t.join()
      self.obs = tuple(got)
    return body

  def check(self, res):
    if res.failure:
      return [('litmus:' + res.failure[0], None)]
    return [] if self.obs == (0, 1) else [('litmus:order', self.obs)]


class TimedWait(_Litmus):
  """A timed wait must fire only at quiescence and advance the clock."""
  name = 'timedwait'

  def setup(self):
    cv = vthreading.Condition()
    box = {}

    def worker():
      for _ in range(3):
        sched.cur().point('work', '')
      box['worked'] = vtime.time()

    def body():
      t = vthreading.Thread(target=worker)
      t.start()
      t0 = vtime.time()
      with cv:
        ok = cv.wait(timeout=7.0)
      box['ok'], box['dt'] = ok, vtime.time() - t0
      t.join()
      self.obs = (ok, box['dt'] >= 7.0, 'worked' in box and box['worked'] < t0 + 7.0)
    return body

  def check(self, res):
    if res.failure:
      return [('litmus:' + res.failure[0], None)]
    return [] if self.obs == (False, True, True) else [('litmus:timedwait', self.obs)]


HARNESSES = {c.name: c for c in (Counter, LostWakeup, BoundedBuffer, TimedWait)}


def _explore(h, bound):
  ex = explorer.Explorer(h, pre_bound=bound)
  ex.dfs([])
  return ex


def main():
  ok = True
  def expect(name, cond, info):
    nonlocal ok
    print(('ok   ' if cond else 'FAIL ') + name, info)
    ok = ok and cond
  ex = _explore(Counter(locked=False), 1)
  expect('unlocked counter: lost update found at bound 1',
         any(v['sig'] == 'litmus:lost-update' for v in ex.stats.violations), ex.execs)
  ex = _explore(Counter(locked=False), 0)
  expect('unlocked counter: no lost update at bound 0', not ex.stats.violations, ex.execs)
  ex = _explore(Counter(locked=True), 2)
  expect('locked counter: never a lost update (bound 2)', not ex.stats.violations, ex.execs)
  ex = _explore(LostWakeup(broken=True), 1)
  expect('lost wake-up: deadlock found',
         any(v['sig'] == 'litmus:deadlock' for v in ex.stats.violations), ex.execs)
  ex = _explore(LostWakeup(broken=False), 2)
  expect('correct condvar: no deadlock (bound 2)', not ex.stats.violations, ex.execs)
  ex = _explore(BoundedBuffer(), 3)
  expect('bounded buffer: no deadlock, FIFO (bound 3)', not ex.stats.violations, ex.execs)
  ex = _explore(TimedWait(), 1)
  expect('timed wait fires at quiescence only', not ex.stats.violations, ex.execs)
  # happens-before caching must not change what is observed
  for mk, b in ((lambda: Counter(locked=False), 2), (lambda: BoundedBuffer(), 3),
                (lambda: LostWakeup(broken=True), 2)):
    plain = explorer.Explorer(mk(), pre_bound=b); plain.dfs([])
    cached = explorer.Explorer(mk(), pre_bound=b, hb_cache=True); cached.dfs([])
    same = (plain.stats.outcomes == cached.stats.outcomes and
            {v['sig'] for v in plain.stats.violations} ==
            {v['sig'] for v in cached.stats.violations})
    expect(f'hb cache preserves outcomes ({mk().name})', same and cached.execs <= plain.execs,
           (plain.execs, cached.execs))
  # replay determinism
  h = Counter(locked=False)
  r1 = h.run_once([]); r2 = h.run_once([])
  expect('replay reproduces identical event log', r1.log_digest == r2.log_digest, r1.steps)
  # the shims must not be more tolerant than the primitives they stand in for
  from vmc import shimconf
  cases, mismatches = shimconf.run()
  expect('shims conform to the real primitives (vmc.shimconf)', not mismatches,
         f'{cases} operation sequences, {len(mismatches)} mismatches')
  for m in mismatches[:20]:
    print(m)
  return 0 if ok else 1


if __name__ == '__main__':
  sys.exit(main())
