"""Field-level scheduling points and shim installation.

`instrument(cls)` makes every read/write of a *mutable* instance field of cls a
scheduling point.  "Mutable" is computed by an AST scan of the class (and its
bases from the same package): every `self.X = / op=` outside `__init__`, plus
fields mutated in place (`self.X.append(..)`, `self.X[..] = ..`,
`self.X.attr op= ..`).  A run-time write to a field classified immutable is a
hard harness error.
"""
from __future__ import annotations

import ast
import inspect
import textwrap

from vmc import sched

_MUTATORS = {'append', 'extend', 'clear', 'update', 'pop', 'popleft', 'remove',
             'insert', 'add', 'discard', 'appendleft', 'setdefault', 'sort'}


def scan_fields(cls):
  """Returns (assigned_outside_init, interior_mutated, all_assigned)."""
  assigned, interior, everything = set(), set(), set()
  for klass in cls.__mro__:
    if klass is object or not klass.__module__.startswith('ml_metrics'):
      continue
    try:
      src = textwrap.dedent(inspect.getsource(klass))
    except (OSError, TypeError):
      continue
    tree = ast.parse(src)
    cdef = tree.body[0]
    # dataclass fields
    for node in cdef.body:
      if isinstance(node, ast.AnnAssign) and isinstance(node.target, ast.Name):
        everything.add(node.target.id)
    for fn in [n for n in cdef.body
               if isinstance(n, (ast.FunctionDef, ast.AsyncFunctionDef))]:
      in_init = fn.name in ('__init__', '__post_init__')
      for node in ast.walk(fn):
        targets = []
        if isinstance(node, ast.Assign):
          targets = node.targets
        elif isinstance(node, (ast.AugAssign, ast.AnnAssign)):
          targets = [node.target]
        for t in _flatten(targets):
          if _is_self_attr(t):
            everything.add(t.attr)
            if not in_init:
              assigned.add(t.attr)
          elif isinstance(t, ast.Subscript) and _is_self_attr(t.value):
            interior.add(t.value.attr)
          elif isinstance(t, ast.Attribute) and _is_self_attr(t.value):
            interior.add(t.value.attr)      # self.X.attr op= ..
        if (isinstance(node, ast.Call) and isinstance(node.func, ast.Attribute)
            and node.func.attr in _MUTATORS and _is_self_attr(node.func.value)):
          interior.add(node.func.value.attr)
  return assigned, interior, everything


def _flatten(targets):
  for t in targets:
    if isinstance(t, (ast.Tuple, ast.List)):
      yield from _flatten(t.elts)
    else:
      yield t


def _is_self_attr(node):
  return (isinstance(node, ast.Attribute) and isinstance(node.value, ast.Name)
          and node.value.id == 'self')


_installed = {}


def instrument(cls, extra=(), exclude=()):
  """Installs the hooks on cls (idempotent).  Returns the hooked field set."""
  if cls in _installed:
    return _installed[cls][0]
  assigned, interior, everything = scan_fields(cls)
  hooked = frozenset((assigned | interior | set(extra)) - set(exclude))
  frozen = frozenset(everything - assigned - set(extra))
  cname = cls.__name__
  orig_get = cls.__dict__.get('__getattribute__')
  orig_set = cls.__dict__.get('__setattr__')
  base_get = cls.__getattribute__
  base_set = cls.__setattr__

  def __getattribute__(self, name):
    if name in hooked:
      s = sched._current
      if s is not None and not s.aborting:
        s.point('rd', f'{cname}.{name}')
    return base_get(self, name)

  def __setattr__(self, name, value):
    s = sched._current
    if s is not None and not s.aborting:
      if name in hooked:
        s.point('wr', f'{cname}.{name}')
      elif name in frozen and s.steps > 0 and _past_init(self, name):
        raise sched.HarnessError(
            f'write to {cname}.{name}, classified immutable by the field scan')
    base_set(self, name, value)

  cls.__getattribute__ = __getattribute__
  cls.__setattr__ = __setattr__
  _installed[cls] = (hooked, orig_get, orig_set)
  return hooked


def _past_init(obj, name):
  """A field may be written once (in __init__); a second write is flagged."""
  try:
    object.__getattribute__(obj, name)
    # allow __init__ of a subclass re-assigning: only flag if the caller is not
    # an __init__/__post_init__ frame
    import sys
    f = sys._getframe(2)
    return f.f_code.co_name not in ('__init__', '__post_init__')
  except AttributeError:
    return False


def uninstrument_all():
  for cls, (_, og, os_) in list(_installed.items()):
    if og is None:
      try:
        del cls.__getattribute__
      except AttributeError:
        pass
    else:
      cls.__getattribute__ = og
    if os_ is None:
      try:
        del cls.__setattr__
      except AttributeError:
        pass
    else:
      cls.__setattr__ = os_
  _installed.clear()


# ---- shim installation ---------------------------------------------------------------

def install_shims(modules, *, threading=True, time=True, queue=True,
                  futures=True):
  """Rebinds the module globals `threading/time/queue/futures` of the given
  modules to the virtual implementations.  Returns an undo function."""
  from vmc import vfutures, vqueue, vthreading, vtime
  table = {}
  if threading:
    table['threading'] = vthreading
  if time:
    table['time'] = vtime
  if queue:
    table['queue'] = vqueue
  if futures:
    table['futures'] = vfutures
  saved = []
  for mod in modules:
    for name, shim in table.items():
      if name in mod.__dict__:
        saved.append((mod, name, mod.__dict__[name]))
        setattr(mod, name, shim)

  def undo():
    for mod, name, old in saved:
      setattr(mod, name, old)
  return undo
