"""Virtual `queue` module: same API, blocking get/put block virtually."""
import collections
import queue as _rq

from vmc import sched
from vmc import vthreading

Empty = _rq.Empty
Full = _rq.Full


class Queue:

  def __init__(self, maxsize=0):
    self.maxsize = maxsize
    self._d = collections.deque()
    self.name = vthreading._name('Q')

  def qsize(self):
    return len(self._d)

  def empty(self):
    s = sched._current
    if s is not None and not s.aborting:
      s.point('q-empty', self.name)
    return not self._d

  def full(self):
    return 0 < self.maxsize <= len(self._d)

  def put_nowait(self, item):
    s = sched._current
    if s is not None and not s.aborting:
      s.point('q-put_nowait', self.name)
    if self.full():
      raise Full
    self._d.append(item)

  def get_nowait(self):
    s = sched._current
    if s is not None and not s.aborting:
      s.point('q-get_nowait', self.name)
    if not self._d:
      raise Empty
    return self._d.popleft()

  def put(self, item, block=True, timeout=None):
    s = sched._current
    if s is not None:
      s.point('q-put', self.name)
    while self.full():
      if not block or s is None:
        raise Full
      deadline = None if timeout is None else s.clock + timeout
      if not s.block(lambda: not self.full(), deadline, 'q-put-wait', self.name):
        raise Full
    self._d.append(item)

  def get(self, block=True, timeout=None):
    s = sched._current
    if s is not None:
      s.point('q-get', self.name)
    while not self._d:
      if not block or s is None:
        raise Empty
      deadline = None if timeout is None else s.clock + timeout
      if not s.block(lambda: bool(self._d), deadline, 'q-get-wait', self.name):
        raise Empty
    return self._d.popleft()

  def _full(self):
    return 0 < self.maxsize <= len(self._d)

  def task_done(self):
    pass

  def snapshot(self):
    return tuple(self._d)


class SimpleQueue(Queue):

  def __init__(self):
    super().__init__(0)


LifoQueue = Queue
PriorityQueue = Queue
