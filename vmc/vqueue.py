"""Virtual `queue` module: same API, blocking get/put block virtually."""
import collections
import heapq
import queue as _rq

from vmc import sched
from vmc import vthreading

Empty = _rq.Empty
Full = _rq.Full


def _no_attr(name):
  """A method the real class does not have (conformance: vmc.shimconf)."""
  def get(self):
    raise AttributeError(
        f"'{type(self).__name__}' object has no attribute '{name}'")
  return property(get)


class Queue:

  def __init__(self, maxsize=0):
    self.maxsize = maxsize
    self._init()
    self.unfinished_tasks = 0
    self.name = vthreading._name('Q')

  # storage discipline (FIFO here; see LifoQueue / PriorityQueue)
  def _init(self):
    self._d = collections.deque()

  def _put(self, item):
    self._d.append(item)
    self.unfinished_tasks += 1

  def _get(self):
    return self._d.popleft()

  def qsize(self):
    return len(self._d)

  def empty(self):
    s = sched._current
    if s is not None and not s.aborting:
      s.point('q-empty', self.name)
    return not self._d

  def full(self):
    return 0 < self.maxsize <= len(self._d)

  def put_nowait(self, item):
    s = sched._current
    if s is not None and not s.aborting:
      s.point('q-put_nowait', self.name)
    if self._full():
      raise Full
    self._put(item)

  def get_nowait(self):
    s = sched._current
    if s is not None and not s.aborting:
      s.point('q-get_nowait', self.name)
    if not self._d:
      raise Empty
    return self._get()

  def put(self, item, block=True, timeout=None):
    s = sched._current
    if s is not None:
      s.point('q-put', self.name)
    if self.maxsize > 0 and block and timeout is not None and timeout < 0:
      raise ValueError("'timeout' must be a non-negative number")
    while self._full():
      if not block or s is None:
        raise Full
      deadline = None if timeout is None else s.clock + timeout
      if not s.block(lambda: not self._full(), deadline, 'q-put-wait', self.name):
        raise Full
    self._put(item)

  def get(self, block=True, timeout=None):
    s = sched._current
    if s is not None:
      s.point('q-get', self.name)
    if block and timeout is not None and timeout < 0:
      raise ValueError("'timeout' must be a non-negative number")
    while not self._d:
      if not block or s is None:
        raise Empty
      deadline = None if timeout is None else s.clock + timeout
      if not s.block(lambda: bool(self._d), deadline, 'q-get-wait', self.name):
        raise Empty
    return self._get()

  def _full(self):
    return 0 < self.maxsize <= len(self._d)

  def task_done(self):
    if self.unfinished_tasks <= 0:
      raise ValueError('task_done() called too many times')
    self.unfinished_tasks -= 1

  def snapshot(self):
    return tuple(self._d)


class SimpleQueue(Queue):
  """Unbounded; put() ignores block/timeout; no full / task_done / join."""

  def __init__(self):
    super().__init__(0)

  full = _no_attr('full')
  task_done = _no_attr('task_done')


class LifoQueue(Queue):

  def _init(self):
    self._d = []

  def _get(self):
    return self._d.pop()


class PriorityQueue(Queue):

  def _init(self):
    self._d = []

  def _put(self, item):
    heapq.heappush(self._d, item)
    self.unfinished_tasks += 1

  def _get(self):
    return heapq.heappop(self._d)
