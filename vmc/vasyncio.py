"""Virtual `asyncio`: a BaseEventLoop whose selector blocks virtually.

Stock Task / Future / wait_for / sleep / wrap_future work unchanged; only the
places where an event loop meets threads or time are replaced:
  * `loop.time()` reads the scheduler clock;
  * `selector.select(None)` blocks (virtually) until call_soon_threadsafe;
    `select(t > 0)` is a timed block; `select(0)` is a yield (the loop polls);
  * `run_in_executor` / `run_coroutine_threadsafe` use the virtual pool/Future.
"""
from __future__ import annotations

import asyncio as _ra
import collections

from vmc import sched, vfutures, vthreading, vtime

QueueEmpty, QueueFull = _ra.QueueEmpty, _ra.QueueFull


def __getattr__(name):
  return getattr(_ra, name)


class _FakeSelector:

  def __init__(self, loop):
    self.loop = loop

  def select(self, timeout=None):
    s = sched.cur()
    loop = self.loop
    if timeout is None:
      s.block(loop._is_woken, None, 'loop-idle', loop.vname)
    elif timeout <= 0:
      if not loop._woken:
        s.yield_('loop-poll', loop.vname)
    else:
      s.block(loop._is_woken, s.clock + timeout, 'loop-timer', loop.vname)
    loop._woken = False
    return []

  def close(self):
    pass

  def get_map(self):
    return {}


class VLoop(_ra.BaseEventLoop):

  def __init__(self):
    super().__init__()
    self.vname = vthreading._name('LOOP')
    self._selector = _FakeSelector(self)
    self._woken = False
    self._vpool = None
    self._sched = sched._current

  def _is_woken(self):
    return self._woken

  def time(self):
    return vtime.time()

  def _process_events(self, event_list):
    pass

  def _write_to_self(self):
    s = sched._current
    if s is not None and s is self._sched:
      s.note('loop-wake', self.vname)
    self._woken = True

  def run_in_executor(self, executor, func, *args):
    self._check_closed()
    if executor is None:
      if self._vpool is None:
        self._vpool = vfutures.ThreadPoolExecutor(thread_name_prefix='loop_pool')
      executor = self._vpool
    return _ra.wrap_future(executor.submit(func, *args), loop=self)

  def close(self):
    if self.is_running():
      raise RuntimeError('Cannot close a running event loop')
    if self.is_closed():
      return
    self._closed = True
    self._ready.clear()
    self._scheduled.clear()

  def __del__(self, _warn=None):
    pass


def new_event_loop():
  return VLoop()


def get_event_loop():
  loop = _ra.events._get_running_loop()
  if loop is not None:
    return loop
  return VLoop()


def run_coroutine_threadsafe(coro, loop):
  if not _ra.iscoroutine(coro):
    raise TypeError('A coroutine object is required')
  future = vfutures.Future()

  def callback():
    try:
      _ra.futures._chain_future(_ra.ensure_future(coro, loop=loop), future)
    except (SystemExit, KeyboardInterrupt):
      raise
    except BaseException as exc:  # pylint: disable=broad-except
      if future.set_running_or_notify_cancel():
        future.set_exception(exc)
      raise

  loop.call_soon_threadsafe(callback)
  return future


class Queue:
  """asyncio.Queue's non-async face (all AsyncIteratorQueue uses), with every
  operation a scheduling point."""

  def __init__(self, maxsize=0):
    self.maxsize = maxsize
    self._d = collections.deque()
    self.name = vthreading._name('AQ')

  def _pt(self, kind):
    s = sched._current
    if s is not None and not s.aborting:
      s.point(kind, self.name)

  def qsize(self):
    return len(self._d)

  def empty(self):
    self._pt('q-empty')
    return not self._d

  def full(self):
    return 0 < self.maxsize <= len(self._d)

  def put_nowait(self, item):
    self._pt('q-put_nowait')
    if self.full():
      raise QueueFull
    self._d.append(item)

  def get_nowait(self):
    self._pt('q-get_nowait')
    if not self._d:
      raise QueueEmpty
    return self._d.popleft()
