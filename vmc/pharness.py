"""E1 harness for the parallel-iteration drivers of iter_utils (C13, C05 level 2).

The main v-thread is the consumer; helper threads come from the virtual
ThreadPoolExecutor.  Sources are tagged generators with return values.
"""
from __future__ import annotations

import collections

from vmc import explorer, qharness, sched, vfutures

Boom = qharness.Boom


def gen(p, n, fail_at=None):
  for i in range(n):
    if fail_at is not None and i == fail_at:
      raise Boom(f's{p}@{i}')
    yield (p, i)
  if fail_at is not None and fail_at >= n:
    raise Boom(f's{p}@{n}')
  return ('ret', p)


class CursorSource:
  """A shared input whose __next__ is NOT atomic: a read-modify-write cursor
  with a scheduling point in between (a file-like reader, a generator that
  blocks inside its body).  Only a lock around next() keeps it consistent."""

  def __init__(self, p, n):
    self.p, self.n, self.i = p, n, 0

  def __iter__(self):
    return self

  def __next__(self):
    i = self.i
    s = sched._current
    if s is not None and not s.aborting:
      s.point('rd', 'cursor')
    if i >= self.n:
      raise StopIteration(('ret', self.p))
    self.i = i + 1
    return (self.p, i)


def tenfold(it):
  """iter_fn used for piter_fn/piter: maps and forwards a return value."""
  n = 0
  for x in it:
    n += 1
    yield ('f', x)
  return ('fn-ret',)


def f_elem(x):
  return ('f', x)


class ParHarness(explorer.Harness):
  """params:
    driver:  'multiplex' | 'piter_fn' | 'piter' | 'pmap' | 'MultiplexIterator'
    srcs:    list of source lengths
    buf:     buffer_size
    workers: pool max_workers (None: driver default)
    par:     parallism / max_parallism
    stop:    None | s  (consumer stops early after s elements)
    fail:    None | [source, position]
    fn:      whether an iter_fn / fn is applied
  """
  name = 'par'
  max_steps = 12000

  def __init__(self, driver='multiplex', srcs=(2,), buf=0, workers=2, par=1,
               stop=None, fail=None, fn=False, mode='preempt', src='gen'):
    self.params = dict(driver=driver, srcs=list(srcs), buf=buf, workers=workers,
                       par=par, stop=stop, fail=fail, fn=fn, mode=mode, src=src)
    self.mode = mode
    qharness.prepare()

  def reset(self):
    vfutures.ThreadPoolExecutor._pools.clear()

  def setup(self):
    from ml_metrics._src.utils import iter_utils
    p = self.params
    self.items, self.end, self.returned = [], None, None
    self.shutdown_ok = None
    self.q = None

    def sources():
      out = []
      for i, n in enumerate(p['srcs']):
        fa = p['fail'][1] if p['fail'] and p['fail'][0] == i else None
        out.append(CursorSource(i, n) if p['src'] == 'cursor'
                   else gen(i, n, fa))
      return out

    def consume(it, stop):
      """Drains `it`; with stop=s stops after s elements via maybe_stop."""
      try:
        if stop is None:
          for x in it:
            self.items.append(x)
          self.end = ('stop',)
        else:
          for x in it:
            if len(self.items) == stop:
              break
            self.items.append(x)
          self.end = ('early',)
      except sched.Abort:
        raise
      except BaseException as e:  # pylint: disable=broad-except
        self.end = ('exc', e)

    def body():
      d = p['driver']
      pool = None
      if d == 'MultiplexIterator':
        it = iter_utils.MultiplexIterator(
            data_sources=sources(), iter_fn=tenfold if p['fn'] else None,
            parallism=p['par'], name='mx')
        self.mx = it
        if p['stop'] is None:
          consume(it, None)
        else:
          try:
            for _ in range(p['stop']):
              self.items.append(next(it))
            it.maybe_stop()
            self.end = ('early',)
          except StopIteration:
            self.end = ('stop',)
          except sched.Abort:
            raise
          except BaseException as e:  # pylint: disable=broad-except
            self.end = ('exc', e)
        return
      if p['workers'] is not None:
        pool = vfutures.ThreadPoolExecutor(max_workers=p['workers'],
                                           thread_name_prefix='hp')
      if d == 'multiplex':
        q = iter_utils.piter_multiplex(sources(), pool, buffer_size=p['buf'])
      elif d == 'piter_fn':
        q = iter_utils.piter_fn(tenfold, input_iterable=sources()[0],
                                thread_pool=pool, parallism=p['par'],
                                buffer_size=p['buf'])
      elif d == 'piter':
        q = iter_utils.piter(tenfold if p['fn'] else None,
                             input_iterators=sources(),
                             max_parallism=p['par'], buffer_size=p['buf'],
                             thread_pool=pool)
      elif d == 'pmap':
        q = iter_utils.pmap(f_elem, sources()[0], max_parallism=p['par'],
                            buffer_size=p['buf'], thread_pool=pool)
      else:
        raise ValueError(d)
      self.q = q
      if p['stop'] is None:
        consume(iter(q), None)
      else:
        dq = q.dequeue_as_iterator(num_steps=p['stop'])
        try:
          for x in dq:
            self.items.append(x)
          self.end = ('early',)
        except sched.Abort:
          raise
        except BaseException as e:  # pylint: disable=broad-except
          self.end = ('exc', e)
      if isinstance(self.end, tuple) and self.end[0] == 'exc' and hasattr(
          q, 'maybe_stop'):
        # the caller's duty on error, as MultiplexIterator does it
        q.maybe_stop()
      self.returned = list(getattr(q, 'returned', []))
      if pool is not None:
        pool.shutdown()          # must return: every helper finishes
        self.shutdown_ok = True
      _drain_pools()
    return _with_drain(body)

  def snapshot(self):
    q = self.q
    if q is None or not hasattr(q, '_queue'):
      return len(self.items)
    g = object.__getattribute__
    inner = g(q, '_queue')
    return (tuple(inner._d), g(q, '_exhausted'), g(q, '_enqueue_start'),
            g(q, '_enqueue_stop'), len(self.items))

  def outcome(self, res):
    return (res.failure and res.failure[0], tuple(self.items),
            self.end and self.end[0])

  def _cfg(self):
    p = self.params
    return (f'{p["driver"]}:S{len(p["srcs"])}:W{p["workers"]}:par{p["par"]}:'
            f'buf{"0" if not p["buf"] else "N"}'
            f'{":non-atomic-source" if p["src"] == "cursor" else ""}')

  def what(self):
    p = self.params
    if p['fail'] is not None:
      return 'source-fails'
    if p['stop'] is not None:
      return 'early-stop'
    return 'exhaust'

  def check(self, res):
    p = self.params
    cfg, what = self._cfg(), self.what()
    prop = 'C13'
    out = []
    if res.failure:
      kind, info = res.failure
      out.append((f'{prop}:{what}:{kind}{qharness._stuck(kind, info)}:{cfg}',
                  {'failure': kind, 'info': qharness._info(info)}))
      return out
    # expected multiset
    exp, rets = [], []
    for i, n in enumerate(p['srcs']):
      lim = n
      if p['fail'] and p['fail'][0] == i:
        lim = min(n, p['fail'][1])
      exp += [(i, k) for k in range(lim)]
      rets.append(('ret', i))
    d = p['driver']
    mapped = (d in ('piter_fn', 'pmap')) or (p['fn'] and d in (
        'piter', 'MultiplexIterator'))
    if mapped:
      exp = [('f', x) for x in exp]
    cnt = collections.Counter(self.items)
    if any(v > 1 for v in cnt.values()):
      out.append((f'{prop}:{what}:duplicate-value:{cfg}', {'items': self.items}))
    if set(cnt) - set(exp):
      out.append((f'{prop}:{what}:invented-value:{cfg}', {'items': self.items}))
    if what == 'exhaust':
      if self.end != ('stop',):
        out.append((f'{prop}:{what}:end:{cfg}', {'end': repr(self.end)}))
      if collections.Counter(exp) != cnt:
        out.append((f'{prop}:{what}:multiset-differs:{cfg}',
                    {'items': self.items, 'expected': exp}))
      if self.returned is not None and d in ('multiplex',) or (
          d == 'piter' and not p['fn'] and len(p['srcs']) > 1):
        if sorted(self.returned or []) != sorted(rets):
          out.append((f'{prop}:{what}:generator-returns:{cfg}',
                      {'returned': self.returned, 'expected': rets}))
      if d == 'piter_fn' and self.returned is not None:
        if sorted(self.returned) != [('fn-ret',)] * p['par']:
          out.append((f'{prop}:{what}:generator-returns:{cfg}',
                      {'returned': self.returned}))
    elif what == 'early-stop':
      if self.end != ('early',) and not (
          self.end == ('stop',) and len(exp) <= p['stop']):
        out.append((f'{prop}:{what}:end:{cfg}', {'end': repr(self.end)}))
      if len(self.items) != min(p['stop'], len(exp)):
        out.append((f'{prop}:{what}:count:{cfg}',
                    {'items': self.items, 'stop': p['stop']}))
    else:
      if not (self.end and self.end[0] == 'exc'
              and _has_cause(self.end[1], Boom)):
        out.append((f'{prop}:{what}:consumer-missed-exception:{cfg}',
                    {'end': repr(self.end), 'items': self.items}))
    if res.leftover:
      out.append((f'{prop}:{what}:helper-threads-left:{cfg}',
                  {'left': res.leftover}))
    for pool in vfutures.ThreadPoolExecutor._pools:
      alive = pool.alive_workers()
      if alive:
        out.append((f'{prop}:{what}:pool-threads-alive:{cfg}', {'alive': alive}))
      if d == 'MultiplexIterator' and not pool._shutdown:
        out.append((f'{prop}:{what}:pool-not-shut-down:{cfg}', {}))
    return out


def _drain_pools():
  """Every helper thread of every pool must finish eventually: join them all
  (a helper that never finishes shows up as a deadlock of the execution)."""
  for pool in list(vfutures.ThreadPoolExecutor._pools):
    for t in list(pool._workers):
      t.join()


def _with_drain(body):
  def wrapped():
    body()
    _drain_pools()
  return wrapped


def _has_cause(e, typ):
  seen = 0
  while e is not None and seen < 10:
    if isinstance(e, typ):
      return True
    e = e.__cause__ or e.__context__
    seen += 1
  return False


HARNESSES = {'par': ParHarness}
