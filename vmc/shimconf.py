"""Conformance of the shims against the real primitives.

A stand-in that is more tolerant than the primitive it replaces hides defects
of the library under test.  For every shimmed primitive this module defines a
small alphabet of NON-BLOCKING operations, enumerates every operation sequence
up to a depth, runs each sequence on a fresh real object (plain Python) and on
a fresh shim object (inside one v-thread under `vmc.sched`) and compares the
observation after every step: ('ok', normalised value) | ('exc', class name),
plus a per-primitive probe of the visible state.

`run() -> (cases, mismatches)`; `python -m vmc.shimconf` prints a summary and
exits 1 on a mismatch.  Only *minimal* mismatches are kept (the first
difference is at the last step): a longer sequence with the same first
difference is the same finding.
"""
from __future__ import annotations

import asyncio as _rasyncio
import collections
import concurrent.futures as _rfutures
import itertools
import logging
import queue as _rqueue
import random as _rrandom
import sys
import threading as _rthreading
import time as _rtime
import types

from vmc import cenv, sched, vasyncio, vfutures, vqueue, vthreading, vtime

REAL = types.SimpleNamespace(
    kind='real', threading=_rthreading, queue=_rqueue, futures=_rfutures,
    time=_rtime, random=_rrandom, asyncio=_rasyncio)
SHIM = types.SimpleNamespace(
    kind='shim', threading=vthreading, queue=vqueue, futures=vfutures,
    time=vtime, random=cenv._VRandom, asyncio=vasyncio)

WOULD_BLOCK = 'would-block'   # the real primitive would block for ever here
RACY = 'racy'                 # the real observation depends on thread timing


def norm(v):
  """Values that legitimately differ (reprs, clock readings, identities) are
  reduced to their kind."""
  if v is None or isinstance(v, (bool, int, str)):
    return v
  if isinstance(v, float):
    return 'float'
  if isinstance(v, BaseException):
    return ('exc-obj', type(v).__name__)
  if isinstance(v, (list, tuple)):
    return (type(v).__name__,) + tuple(norm(x) for x in v)
  if isinstance(v, (set, frozenset)):
    return ('set',) + tuple(sorted((norm(x) for x in v), key=repr))
  if isinstance(v, type):
    return ('type', v.__name__)
  return 'obj'


class Prim:

  def __init__(self, name, make, ops, *, depth=None, probe=None, cleanup=None,
               chunk=500, benign=None):
    self.name, self.make, self.ops = name, make, ops
    self.depth = depth or (4 if len(ops) <= 6 else 3)
    self.probe, self.cleanup, self.chunk = probe, cleanup, chunk
    self.benign = benign    # (labels, real_obs, shim_obs) -> reason | None

  def sequences(self):
    n = len(self.ops)
    for d in range(1, self.depth + 1):
      yield from itertools.product(range(n), repeat=d)

  def labels(self, seq):
    return [self.ops[i][0] for i in seq]


def _st(env, o=None, **kw):
  return types.SimpleNamespace(env=env, o=o, n=0, log=[], **kw)


def run_seq(env, prim, seq, obs):
  """Appends one observation per step to obs."""
  try:
    st = prim.make(env)
  except Exception as e:  # pylint: disable=broad-except
    obs.append(('make-exc', type(e).__name__))
    return
  try:
    for i in seq:
      fn = prim.ops[i][1]
      try:
        o = ('ok', norm(fn(st)))
      except Exception as e:  # pylint: disable=broad-except  (not sched.Abort)
        o = ('exc', type(e).__name__)
      if prim.probe is not None:
        try:
          o += (norm(prim.probe(st)),)
        except Exception as e:  # pylint: disable=broad-except
          o += (('probe-exc', type(e).__name__),)
      obs.append(o)
  finally:
    if prim.cleanup is not None:
      try:
        prim.cleanup(st)
      except Exception:  # pylint: disable=broad-except
        pass


def run_real(prim, seqs):
  out = {}
  for seq in seqs:
    obs = out[seq] = []
    run_seq(REAL, prim, seq, obs)
  return out


def run_shim(prim, seqs):
  """All sequences of a chunk run in ONE v-thread of one execution (an
  execution costs milliseconds); a scheduler failure (the shim blocked for
  ever = deadlock) is charged to the sequence in progress."""
  out = {}
  pending = list(seqs)
  while pending:
    chunk, pending = pending[:prim.chunk], pending[prim.chunk:]
    progress = [0]

    def body(chunk=chunk, progress=progress):
      s = sched.cur()
      me = s.current
      for k, seq in enumerate(chunk):
        progress[0] = k
        # one thread repeating the same operation is not a busy-wait loop
        me.spin.clear()
        me.spinning = False
        obs = out[seq] = []
        run_seq(SHIM, prim, seq, obs)
      progress[0] = len(chunk)

    res = sched.execute(body, max_steps=10**9, max_clock=1.0e15)
    vfutures.ThreadPoolExecutor._pools.clear()
    if progress[0] < len(chunk):
      seq = chunk[progress[0]]
      kind = res.failure[0] if res.failure else 'stopped'
      info = res.failure[1] if res.failure else None
      if isinstance(info, BaseException):
        kind += ':' + type(info).__name__
      out.setdefault(seq, []).append(('sched-failure', kind))
      pending = chunk[progress[0] + 1:] + pending
  return out


# ---- alphabets -------------------------------------------------------------------

def _with(guard):
  """`with o:` when it would not block; observes what __enter__/__exit__
  return."""
  def op(st):
    if guard(st):
      return WOULD_BLOCK
    r1 = st.o.__enter__()
    r2 = st.o.__exit__(None, None, None)
    return (r1, r2)
  return op


def _drain(st):
  """Releases until the primitive refuses: the depth to which it was held."""
  n = 0
  while n < 10:
    try:
      st.o.release()
    except RuntimeError:
      break
    n += 1
  return n


def _lock_prims():
  ops = [
      ('acquire(False)', lambda st: st.o.acquire(False)),
      ('acquire(True,0)', lambda st: st.o.acquire(True, 0)),
      ('acquire(False,1)', lambda st: st.o.acquire(False, 1)),
      ('acquire(True,-2)', lambda st: st.o.acquire(True, -2)),
      ('acquire(True,None)', lambda st: st.o.acquire(True, None)),
      ('release', lambda st: st.o.release()),
      ('locked', lambda st: st.o.locked()),
      ('with', _with(lambda st: st.o.locked())),
  ]
  yield Prim('Lock', lambda env: _st(env, env.threading.Lock()), ops, depth=4)
  rops = [
      ('acquire(False)', lambda st: st.o.acquire(False)),
      ('acquire(True,0)', lambda st: st.o.acquire(True, 0)),
      ('acquire(False,1)', lambda st: st.o.acquire(False, 1)),
      ('acquire(True,-2)', lambda st: st.o.acquire(True, -2)),
      ('release', lambda st: st.o.release()),
      ('locked', lambda st: st.o.locked()),
      ('with', _with(lambda st: False)),
      ('_is_owned', lambda st: st.o._is_owned()),
      ('drain', _drain),
  ]
  yield Prim('RLock', lambda env: _st(env, env.threading.RLock()), rops,
             depth=4, chunk=2000)


def _cond_prims():
  def held_elsewhere(st):     # `with cond` over a plain Lock we already hold
    lk = st.o._lock
    return hasattr(lk, 'locked') and not st.rlock and lk.locked()
  ops = [
      ('acquire(False)', lambda st: st.o.acquire(False)),
      ('release', lambda st: st.o.release()),
      ('notify', lambda st: st.o.notify()),
      ('notify_all', lambda st: st.o.notify_all()),
      ('wait(0)', lambda st: st.o.wait(0)),
      ('wait(-1)', lambda st: st.o.wait(-1)),
      ('wait_for(F,0)', lambda st: st.o.wait_for(lambda: False, 0)),
      ('wait_for(T,0)', lambda st: st.o.wait_for(lambda: True, 0)),
      ('with', _with(held_elsewhere)),
      ('_is_owned', lambda st: st.o._is_owned()),
      ('drain', _drain),
  ]
  yield Prim('Condition()',
             lambda env: _st(env, env.threading.Condition(), rlock=True), ops)
  yield Prim('Condition(Lock)',
             lambda env: _st(env, env.threading.Condition(env.threading.Lock()),
                             rlock=False), ops)
  yield Prim('Condition(RLock)',
             lambda env: _st(env, env.threading.Condition(env.threading.RLock()),
                             rlock=True), ops)


def _event_prims():
  ops = [
      ('set', lambda st: st.o.set()),
      ('clear', lambda st: st.o.clear()),
      ('is_set', lambda st: st.o.is_set()),
      ('wait(0)', lambda st: st.o.wait(0)),
      ('wait(-1)', lambda st: st.o.wait(-1)),
  ]
  yield Prim('Event', lambda env: _st(env, env.threading.Event()), ops)


def _sem_prims():
  ops = [
      ('acquire(False)', lambda st: st.o.acquire(False)),
      ('acquire(True,0)', lambda st: st.o.acquire(True, 0)),
      ('acquire(False,1)', lambda st: st.o.acquire(False, 1)),
      ('release', lambda st: st.o.release()),
      ('release(2)', lambda st: st.o.release(2)),
      ('release(0)', lambda st: st.o.release(0)),
      ('with', _with(lambda st: st.o._value <= 0)),
  ]
  probe = lambda st: st.o._value
  for cls, v in (('Semaphore', 0), ('Semaphore', 1), ('BoundedSemaphore', 1),
                 ('BoundedSemaphore', 2)):
    yield Prim(f'{cls}({v})',
               lambda env, cls=cls, v=v: _st(env, getattr(env.threading, cls)(v)),
               ops, probe=probe, depth=4, chunk=2000)


_ITEMS = (5, 3, 8, 1)


def _item(st):
  st.n += 1
  return _ITEMS[(st.n - 1) % 4]


def _queue_prims():
  ops = [
      ('put_nowait', lambda st: st.o.put_nowait(_item(st))),
      ('get_nowait', lambda st: st.o.get_nowait()),
      ('put(timeout=0)', lambda st: st.o.put(_item(st), timeout=0)),
      ('put(block=False)', lambda st: st.o.put(_item(st), block=False)),
      ('get(block=False)', lambda st: st.o.get(block=False)),
      ('get(timeout=0)', lambda st: st.o.get(timeout=0)),
      ('qsize', lambda st: st.o.qsize()),
      ('empty', lambda st: st.o.empty()),
      ('full', lambda st: st.o.full()),
      ('task_done', lambda st: st.o.task_done()),
      ('put(timeout=-1)', lambda st: st.o.put(_item(st), timeout=-1)),
      ('get(timeout=-1)', lambda st: st.o.get(timeout=-1)),
  ]
  for cls, sizes in (('Queue', (0, 1, 2)), ('LifoQueue', (0, 2)),
                     ('PriorityQueue', (0, 2))):
    for m in sizes:
      yield Prim(f'{cls}({m})',
                 lambda env, cls=cls, m=m: _st(env, getattr(env.queue, cls)(m)),
                 ops, chunk=1000)
  sops = [
      ('put', lambda st: st.o.put(_item(st))),
      ('put(False,-5)', lambda st: st.o.put(_item(st), False, -5)),
      ('put_nowait', lambda st: st.o.put_nowait(_item(st))),
      ('get_nowait', lambda st: st.o.get_nowait()),
      ('get(block=False)', lambda st: st.o.get(block=False)),
      ('get(timeout=0)', lambda st: st.o.get(timeout=0)),
      ('get(timeout=-1)', lambda st: st.o.get(timeout=-1)),
      ('qsize', lambda st: st.o.qsize()),
      ('empty', lambda st: st.o.empty()),
      ('full', lambda st: st.o.full()),
      ('task_done', lambda st: st.o.task_done()),
  ]
  yield Prim('SimpleQueue', lambda env: _st(env, env.queue.SimpleQueue()), sops,
             chunk=1000)
  aops = [
      ('put_nowait', lambda st: st.o.put_nowait(_item(st))),
      ('get_nowait', lambda st: st.o.get_nowait()),
      ('qsize', lambda st: st.o.qsize()),
      ('empty', lambda st: st.o.empty()),
      ('full', lambda st: st.o.full()),
  ]
  for m in (0, 1, 2):
    yield Prim(f'asyncio.Queue({m})',
               lambda env, m=m: _st(env, env.asyncio.Queue(m)), aops)


def _add_cb(st, f, tag):
  k = len(st.log)
  st.cbs += 1
  cb_id = st.cbs
  f.add_done_callback(
      lambda fut: st.log.append((tag, cb_id, fut is f, fut.done(),
                                 fut.cancelled())))
  return len(st.log) - k      # 1: the callback ran immediately


def _future_prims():
  ops = [
      ('set_result', lambda st: st.o.set_result(41)),
      ('set_exception', lambda st: st.o.set_exception(KeyError('k'))),
      ('result(0)', lambda st: st.o.result(timeout=0)),
      ('exception(0)', lambda st: st.o.exception(timeout=0)),
      ('cancel', lambda st: st.o.cancel()),
      ('cancelled', lambda st: st.o.cancelled()),
      ('done', lambda st: st.o.done()),
      ('running', lambda st: st.o.running()),
      ('set_running_or_notify_cancel',
       lambda st: st.o.set_running_or_notify_cancel()),
      ('add_done_callback', lambda st: _add_cb(st, st.o, 'f')),
  ]
  yield Prim('Future', lambda env: _st(env, env.futures.Future(), cbs=0), ops,
             probe=lambda st: (tuple(st.log), st.o._state), depth=4,
             chunk=2000)

  def names(st, fs):
    return tuple(sorted('f1' if f is st.f1 else 'f2' for f in fs))

  def wait0(how):
    def op(st):
      r = st.env.futures.wait([st.f1, st.f2, st.f1], timeout=0,
                              return_when=how)
      return (names(st, r.done), names(st, r.not_done))
    return op

  def ac0(st):
    out = []
    try:
      for f in st.env.futures.as_completed([st.f1, st.f2, st.f1], timeout=0):
        out.append('f1' if f is st.f1 else 'f2')
    except TimeoutError:
      return (tuple(sorted(out)), 'TimeoutError')
    return (tuple(sorted(out)), 'exhausted')

  pops = [
      ('f1.set_result', lambda st: st.f1.set_result(1)),
      ('f1.set_exception', lambda st: st.f1.set_exception(KeyError('k'))),
      ('f1.set_running', lambda st: st.f1.set_running_or_notify_cancel()),
      ('f2.cancel', lambda st: st.f2.cancel()),
      ('f2.notify_cancel', lambda st: st.f2.set_running_or_notify_cancel()),
      ('wait0(ALL)', wait0(_rfutures.ALL_COMPLETED)),
      ('wait0(FIRST_COMPLETED)', wait0(_rfutures.FIRST_COMPLETED)),
      ('wait0(FIRST_EXCEPTION)', wait0(_rfutures.FIRST_EXCEPTION)),
      ('as_completed0', ac0),
  ]
  yield Prim('futures.wait/as_completed',
             lambda env: _st(env, f1=env.futures.Future(),
                             f2=env.futures.Future()), pops, depth=4,
             chunk=2000)
  eops = [
      ('wait0([])', lambda st: tuple(map(len, st.env.futures.wait([], timeout=0)))),
      ('as_completed0([])',
       lambda st: len(list(st.env.futures.as_completed([], timeout=0)))),
  ]
  yield Prim('futures.wait/as_completed (no futures)', _st, eops, depth=1)


def _boom():
  raise ZeroDivisionError


def _pool_prims():
  T = 30     # a pooled task is trivial: the result arrives; never a real wait
  def submit_ok(st):
    return st.o.submit(lambda: 7).result(timeout=T)
  def submit_raise(st):
    return st.o.submit(_boom).exception(timeout=T)
  def submit_noncallable(st):
    return st.o.submit(None).exception(timeout=T)
  def shutdown(**kw):
    return lambda st: st.o.shutdown(**kw)
  def with_(st):
    with st.o as p:
      return p is st.o
  ops = [
      ('submit->result', submit_ok),
      ('submit(raises)->exception', submit_raise),
      ('submit(None)->exception', submit_noncallable),
      ('map', lambda st: list(st.o.map(lambda x: 2 * x, [1, 2, 3]))),
      ('map(raises)', lambda st: list(st.o.map(lambda x: 1 // x, [1, 0, 2]))),
      ('map(2 iterables)',
       lambda st: list(st.o.map(lambda x, y: x + y, [1, 2, 3], [10, 20]))),
      ('shutdown', shutdown()),
      ('shutdown(wait=False)', shutdown(wait=False)),
      ('shutdown(cancel_futures=True)', shutdown(cancel_futures=True)),
      ('with', with_),
  ]
  cleanup = lambda st: st.o.shutdown(wait=True)
  probe = lambda st: bool(st.o._shutdown)
  # every sequence costs real threads on both sides: the full alphabet to
  # depth 2, its core (submit / map / the three shutdowns) to depth 3
  core = [ops[0], ops[3], ops[6], ops[7], ops[8]]
  for n in (1, 2):
    mk = lambda env, n=n: _st(env, env.futures.ThreadPoolExecutor(n))
    yield Prim(f'ThreadPoolExecutor({n})', mk, ops, depth=2, probe=probe,
               cleanup=cleanup, chunk=40)
  yield Prim('ThreadPoolExecutor(1) core', lambda env: _st(
      env, env.futures.ThreadPoolExecutor(1)), core, depth=3, probe=probe,
             cleanup=cleanup, chunk=40)

  def ctor(*a, **kw):
    def op(st):
      p = st.env.futures.ThreadPoolExecutor(*a, **kw)
      p.shutdown(wait=True)
      return 'made'
    return op
  cops = [
      ('TPE(0)', ctor(0)),
      ('TPE(-1)', ctor(-1)),
      ('TPE(1)', ctor(1)),
      ('TPE(None)', ctor(None)),
      ('TPE(max_workers=2,thread_name_prefix=x)',
       ctor(max_workers=2, thread_name_prefix='x')),
      ('TPE(1,initializer=3)', ctor(1, initializer=3)),
      ('TPE(1,initializer=callable)', ctor(1, initializer=lambda: None)),
      ('Semaphore(-1)', lambda st: st.env.threading.Semaphore(-1) and 'made'),
      ('BoundedSemaphore(-1)',
       lambda st: st.env.threading.BoundedSemaphore(-1) and 'made'),
      ('Semaphore()', lambda st: st.env.threading.Semaphore()._value),
      ('Queue(-1).full', lambda st: st.env.queue.Queue(-1).full()),
      ('Queue().maxsize', lambda st: st.env.queue.Queue().maxsize),
  ]
  def benign(labels, robs, sobs):
    # modelling decision: the v-pool has no initializer support and refuses
    # one loudly (HarnessError) instead of silently ignoring it
    if (labels[-1] == 'TPE(1,initializer=callable)'
        and sobs[-1] == ('exc', 'HarnessError')):
      return 'initializer= refused by the v-pool'
    return None
  yield Prim('constructors', _st, cops, depth=1, chunk=40, benign=benign)


def _thread_prims():
  def start(st):
    r = st.o.start()
    st.started = True
    return r
  def join(timeout):
    def op(st):
      r = st.o.join(timeout)
      if st.started and timeout is None:
        st.joined = True
      return r
    return op
  def settled(st):
    return not st.started or st.joined
  ops = [
      ('start', start),
      ('join', join(None)),
      ('join(0)', join(0)),
      ('is_alive', lambda st: st.o.is_alive() if settled(st) else RACY),
      ('ident', lambda st: (type(st.o.ident) if settled(st) else RACY)),
      ('daemon', lambda st: st.o.daemon),
  ]
  def cleanup(st):
    if st.started and not st.joined:
      st.o.join()
  yield Prim('Thread',
             lambda env: _st(env, env.threading.Thread(target=lambda: None),
                             started=False, joined=False),
             ops, depth=3, cleanup=cleanup, chunk=40)


def _loop_prims():
  """The v-event-loop (stock BaseEventLoop over a virtual selector/clock)."""
  async def five():
    return 5
  async def timed_out(a):
    return await a.wait_for(a.sleep(3600), 0.001)
  def run(mk):
    def op(st):
      coro = mk(st.env.asyncio)
      try:
        return st.o.run_until_complete(coro)
      finally:
        coro.close()
    return op
  ops = [
      ('run(coro)', run(lambda a: five())),
      ('run(sleep(0))', run(lambda a: a.sleep(0, 'x'))),
      ('run(sleep(0.001))', run(lambda a: a.sleep(0.001, 'y'))),
      ('run(wait_for(never,0.001))',
       run(timed_out)),
      ('run(run_in_executor)', lambda st: st.o.run_until_complete(
          st.o.run_in_executor(None, lambda: 7))),
      ('close', lambda st: st.o.close()),
      ('is_closed', lambda st: st.o.is_closed()),
      ('is_running', lambda st: st.o.is_running()),
      ('time', lambda st: type(st.o.time())),
  ]
  def cleanup(st):
    if not st.o.is_closed():
      st.o.run_until_complete(st.o.shutdown_default_executor())
      st.o.close()
  yield Prim('asyncio event loop',
             lambda env: _st(env, env.asyncio.new_event_loop()), ops, depth=2,
             cleanup=cleanup, chunk=40)
  yield Prim('asyncio event loop (core)',
             lambda env: _st(env, env.asyncio.new_event_loop()),
             [ops[0], ops[2], ops[3], ops[5], ops[6]], depth=3,
             cleanup=cleanup, chunk=40)
  tops = [
      ('run_coroutine_threadsafe(non-coroutine)',
       lambda st: st.env.asyncio.run_coroutine_threadsafe(five, st.o)),
  ]
  yield Prim('asyncio.run_coroutine_threadsafe',
             lambda env: _st(env, env.asyncio.new_event_loop()), tops, depth=1,
             cleanup=cleanup, chunk=40)


def _random_prims():
  def shuffle(data):
    def op(st):
      x = type(data)(data)
      r = st.env.random.shuffle(x)
      return (r, type(x), len(x), sorted(x))
    return op
  def sample(pop, k):
    def op(st):
      r = st.env.random.sample(pop, k)
      members = list(pop)
      for v in r:                 # without replacement
        members.remove(v)
      return (type(r), len(r))
    return op
  def rnd(st):
    r = st.env.random.random()
    return (type(r), 0.0 <= r < 1.0)
  ops = [(f'shuffle({d!r})', shuffle(d))
         for d in ([], [1], [1, 2, 3], (1,), (1, 2))]
  ops += [(f'sample([1,2,3],{k})', sample([1, 2, 3], k)) for k in range(-1, 5)]
  ops += [
      ('sample([],0)', sample([], 0)),
      ('sample([],1)', sample([], 1)),
      ('sample((1,2,3),2)', sample((1, 2, 3), 2)),
      ('sample(range(4),2)', sample(range(4), 2)),
      ("sample('abc',2)", sample('abc', 2)),
      ('sample({1,2},1)', sample({1, 2}, 1)),
      ('sample({1:2},1)', sample({1: 2}, 1)),
      ('sample(iter,1)', lambda st: sample(iter([1, 2]), 1)(st)),
      ('sample([1,2],1.0)', sample([1, 2], 1.0)),
      ('sample([1,2],None)', sample([1, 2], None)),
      ('random()', rnd),
  ]
  yield Prim('random', _st, ops, depth=2)

  def make_cp(env):
    if env.kind == 'shim':
      cenv._VRandom.choice_points = True    # shuffle = an environment choice
    return _st(env)
  def cleanup(st):
    cenv._VRandom.choice_points = False
  yield Prim('random[shuffle as a choice point]', make_cp, ops, depth=1,
             cleanup=cleanup)


def _time_prims():
  def clock(name):
    def op(st):
      t = getattr(st.env.time, name)()
      last = st.last.get(name)
      st.last[name] = t
      return (type(t), last is None or t >= last)
    return op
  def sleep(d):
    def op(st):
      t0 = st.env.time.monotonic()
      r = st.env.time.sleep(d)
      return (r, st.env.time.monotonic() - t0 >= d)
    return op
  ops = [
      ('time', clock('time')),
      ('monotonic', clock('monotonic')),
      ('perf_counter', clock('perf_counter')),
      ('time_ns', clock('time_ns')),
      ('sleep(0)', sleep(0)),
      ('sleep(0.0005)', sleep(0.0005)),
      ('sleep(-1)', sleep(-1)),
      ('sleep(-0.5)', sleep(-0.5)),
      ("sleep('x')", lambda st: st.env.time.sleep('x')),
      ('sleep(None)', lambda st: st.env.time.sleep(None)),
  ]
  yield Prim('time', lambda env: _st(env, last={}), ops, depth=2)
  yield Prim('time (depth 3, core)', lambda env: _st(env, last={}),
             ops[:2] + ops[4:7], depth=3)


def primitives():
  for gen in (_lock_prims, _cond_prims, _event_prims, _sem_prims, _queue_prims,
              _future_prims, _pool_prims, _thread_prims, _loop_prims,
              _random_prims,
              _time_prims):
    yield from gen()


# ---- comparison ------------------------------------------------------------------

class Mismatch:

  def __init__(self, prim, seq, real, shim):
    self.prim, self.seq, self.real, self.shim = prim, seq, real, shim

  def __str__(self):
    return (f'MISMATCH {self.prim.name}: {" ; ".join(self.prim.labels(self.seq))}\n'
            f'    real: {self.real}\n'
            f'    shim: {self.shim}')


def compare(prim, real, shim):
  """Minimal mismatches of one primitive + the count of normalised-away ones."""
  out, waived = [], collections.Counter()
  for seq, robs in real.items():
    sobs = shim.get(seq, [('not-run',)])
    if robs == sobs:
      continue
    first = next((i for i, (a, b) in enumerate(zip(robs, sobs)) if a != b),
                 min(len(robs), len(sobs)))
    if first < len(seq) - 1:
      continue                  # reported by the prefix sequence
    if prim.benign is not None:
      why = prim.benign(prim.labels(seq), robs, sobs)
      if why:
        waived[why] += 1
        continue
    out.append(Mismatch(prim, seq, robs, sobs))
  return out, waived


def run(only=None, verbose=False):
  cases, mismatches = 0, []
  log = logging.getLogger('concurrent.futures')
  was = log.disabled
  log.disabled = True     # set_running_or_notify_cancel logs CRITICAL on misuse
  try:
    for prim in primitives():
      if only and only not in prim.name:
        continue
      t0 = _rtime.time()
      seqs = list(prim.sequences())
      real = run_real(prim, seqs)
      shim = run_shim(prim, seqs)
      bad, waived = compare(prim, real, shim)
      cases += len(seqs)
      mismatches += bad
      if verbose:
        print(f'  {prim.name:42s} ops={len(prim.ops):2d} depth={prim.depth} '
              f'sequences={len(seqs):5d} mismatches={len(bad):4d} '
              f'{_rtime.time() - t0:5.2f}s'
              + ''.join(f'  [benign x{n}: {w}]' for w, n in waived.items()))
  finally:
    log.disabled = was
  return cases, mismatches


def main(argv):
  only = argv[1] if len(argv) > 1 and not argv[1].startswith('-') else None
  show_all = '--all' in argv
  t0 = _rtime.time()
  cases, mismatches = run(only, verbose=True)
  shown = collections.Counter()
  for m in mismatches:
    shown[m.prim.name] += 1
    if show_all or shown[m.prim.name] <= 12:
      print(m)
  for name, n in shown.items():
    if not show_all and n > 12:
      print(f'... {n - 12} more mismatches of {name} (--all shows them)')
  print(f'shimconf: {cases} sequences compared, {len(mismatches)} mismatches, '
        f'{_rtime.time() - t0:.1f}s')
  return 1 if mismatches else 0


if __name__ == '__main__':
  sys.exit(main(sys.argv))
