"""Virtual `time` module: time()/monotonic() read the scheduler's clock,
sleep() is a yield (<= 0) or a timed block that expires at quiescence."""
import time as _rt

from vmc import sched

struct_time = _rt.struct_time
strftime = _rt.strftime
gmtime = _rt.gmtime
localtime = _rt.localtime


def time():
  s = sched._current
  return s.clock if s is not None else 1000.0


monotonic = time
perf_counter = time


def time_ns():
  return int(time() * 1e9)


def sleep(secs):
  if secs < 0:
    raise ValueError('sleep length must be non-negative')
  s = sched._current
  if s is None:
    return
  s.sleep(secs)


def __getattr__(name):
  return getattr(_rt, name)
