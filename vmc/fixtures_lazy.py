"""Importable fixtures for the C17 check (lazy expressions).

They live in an importable module on purpose: cloudpickle pickles functions
and classes of importable modules *by reference*, so the call log and the call
counter below are shared by an expression and its pickled copies.  (Objects
defined in __main__ would be pickled by value and get a forked copy of these
globals.)  Nothing here imports the code under test.
"""

import numpy as np

CALLS = []            # call log: one tuple per call of a fixture callable
STATE = {'n': 0}      # call counter of the stateful callables


def reset():
  del CALLS[:]
  STATE['n'] = 0


def _r(x):
  """Run-independent description of an argument for the call log."""
  if x is None or isinstance(x, (bool, int, float, str)):
    return x
  if isinstance(x, (list, tuple)):
    return [_r(v) for v in x]
  if isinstance(x, dict):
    return {str(k): _r(v) for k, v in x.items()}
  if isinstance(x, Acc):
    return ['Acc', _r(x.a), _r(x.b)]
  if isinstance(x, Tok):
    return ['Tok', x.name]
  if isinstance(x, np.ndarray):
    return ['ndarray', x.tolist()]
  return '<obj>'      # a lazy handle (implementation) / a Handle (mirror)


def _log(name, *args):
  CALLS.append((name,) + tuple(_r(a) for a in args))


def add(x, y):
  _log('add', x, y)
  return x + y


def mul(x, y=2):
  _log('mul', x, y)
  return x * y


def mkdict(p, k=0):
  """The dict builder: the way to put lazily computed values into a container."""
  _log('mkdict', p, k)
  return {'p': p, 'k': k}


def raiser(x):
  _log('raiser', x)
  raise ValueError(f'boom {_r(x)!r}')


def tick(x):
  """Stateful: the value tells how many stateful calls happened before."""
  n = STATE['n']
  STATE['n'] = n + 1
  _log('tick', x, n)
  return x + 100 * n


def stamp(x):
  """Stateful, returns a fresh (identity-carrying) object."""
  n = STATE['n']
  STATE['n'] = n + 1
  _log('stamp', x, n)
  return [x, n]


def nothing(x):
  """Stateful, evaluates to None (an initialiser that is run for its effect).

  None is a value like any other: cached, it is computed once; held through a
  handle, it dereferences to None.
  """
  n = STATE['n']
  STATE['n'] = n + 1
  _log('nothing', x, n)
  return None


def first(x):
  _log('first', x)
  return x[0]


class Acc:
  """A class with attributes, a method and __call__ (no __eq__/__hash__)."""

  def __init__(self, a, b=10):
    _log('Acc.__init__', a, b)
    self.a = a
    self.b = b

  def __call__(self, x):
    _log('Acc.__call__', self.a, x)
    return self.a + x

  def scaled(self, k):
    _log('Acc.scaled', self.a, k)
    return self.a * k


class Scale:
  """Instances are traced directly (`trace(SCALE3)`): callable with attribute."""

  def __init__(self, k):
    self.k = k

  def __call__(self, x):
    _log('Scale.__call__', self.k, x)
    return x * self.k


SCALE3 = Scale(3)


class Tok:
  """A plain object: no __eq__/__hash__, so a copy is not equal to it."""

  def __init__(self, name):
    self.name = name


_OPAQUE = {}


def opaque(name):
  """Unhashable constants that are NOT value-equal across (pickled) copies.

  'toks' / 'tok:<i>'  a list holding plain instances without __eq__
  'dtok'              a dict holding one
  'arr' / 'arr:<i>'   a numpy array (== is elementwise, not a bool)
  One object per name and process (an expression refers to the same constant
  wherever the name occurs); a serialised copy of the expression carries its
  own copy of the constant.
  """
  if name not in _OPAQUE:
    kind, _, i = name.partition(':')
    if kind == 'toks':
      v = [Tok('a'), Tok('b')]
    elif kind == 'tok':
      v = [Tok(int(i))]
    elif kind == 'dtok':
      v = {'t': Tok('d')}
    elif kind == 'arr':
      v = np.array([1, 2, 3]) if not i else np.array([int(i), int(i) + 1])
    else:
      raise KeyError(name)
    _OPAQUE[name] = v
  return _OPAQUE[name]
