"""Stateless DFS over choice sequences (iterative context/deviation bounding).

`explore(make_body, check, ...)`:
  * make_body() returns a fresh zero-argument body (fresh objects per run);
  * every execution is run to completion under `sched.execute`;
  * `check(result, body_state) -> list of (signature, detail)` is the oracle;
  * for every multi-option point after the replayed prefix and every
    alternative whose accumulated cost stays within the budgets, the prefix
    `choices[:i] + [alt]` is explored as well.

The DFS frontier can be split across processes: `Explorer.seed_frontier(n)`
expands breadth-first until at least n open prefixes exist, each of which is an
independent subtree (alternatives are only taken at positions >= len(prefix)).
"""
from __future__ import annotations

import time

from vmc import sched
from vmc.runner import Stats, jsonable


class Harness:
  """Base class of an E1 harness.

  Subclasses define:
    name        short identifier
    params      JSON-able parameters (identify the configuration)
    setup()     per-execution fixture; returns the body callable
    check(res)  -> list[(sig, detail)]
    snapshot()  optional hashable view of the shared data for state counting
    reset()     optional per-execution reset of process-wide state
  """
  name = 'harness'
  params = {}
  mode = 'preempt'
  max_steps = 20000
  keep_events = False
  tick = None
  max_clock = 3.0e4
  pause_focus = None

  def setup(self):
    raise NotImplementedError

  def check(self, res):
    return []

  snapshot = None

  def reset(self):
    pass

  # -- one execution ----------------------------------------------------------
  def run_once(self, prefix, keep_events=False, cache=None):
    self.reset()
    body = self.setup()
    snap = self.snapshot
    return sched.execute(body, prefix, mode=self.mode, max_steps=self.max_steps,
                         keep_events=keep_events or self.keep_events,
                         snapshot=snap, tick=self.tick,
                         max_clock=self.max_clock, cache=cache,
                         pause_focus=self.pause_focus)


class Explorer:

  def __init__(self, harness: Harness, *, pre_bound=2, dev_bound=0,
               max_execs=None, time_limit=None, det_checks=10, hb_cache=False,
               deadline=None):
    self.h = harness
    self.bounds = (pre_bound, dev_bound)
    self.max_execs = max_execs
    self.time_limit = time_limit
    self.deadline = deadline      # absolute wall-clock deadline of the check
    self.det_checks = det_checks
    self.stats = Stats()
    self.execs = 0
    self.t0 = time.time()
    self.capped = False
    self.cache = {} if hb_cache else None
    self.pruned = 0

  # -- running one prefix --------------------------------------------------------
  def _run(self, prefix):
    res = self.h.run_once(prefix, cache=self.cache)
    self.execs += 1
    st = self.stats
    st.transitions += res.steps
    st.states |= res.states
    if res.pruned:
      # the execution reached an already expanded node: nothing new below it
      self.pruned += 1
      st.count('executions_cut_at_cached_node')
      return res
    st.traces += 1
    if res.failure and res.failure[0] == 'divergence':
      raise sched.Divergence(f'{self.h.name} {self.h.params}: '
                             f'{res.failure[1]} prefix={prefix}')
    if self.execs <= self.det_checks:
      again = self.h.run_once(prefix)
      if again.log_digest != res.log_digest or again.choices != res.choices:
        raise sched.HarnessError(
            f'nondeterministic replay in {self.h.name} {self.h.params} '
            f'prefix={prefix}')
    problems = self.h.check(res)
    if len(st.samples) < 2 and any(res.choices):
      st.sample({'harness': self.h.name, 'params': self.h.params,
                 'schedule (choice index at every multi-option point)':
                     res.choices[:80],
                 'steps': res.steps, 'failure': _fail_str(res)})
    st.case((self.h.name, _freeze(self.h.params), tuple(res.choices)))
    st.outcome((self.h.name, self.h.outcome(res)) if hasattr(self.h, 'outcome')
               else (self.h.name, res.failure and res.failure[0], res.steps))
    for sig, detail in problems:
      # a violating execution must be reproducible before it is reported
      again = self.h.run_once(res.choices)
      if again.log_digest != res.log_digest:
        raise sched.HarnessError(
            f'violation not reproducible: {sig} {self.h.name} {self.h.params}')
      st.violation(sig, {'harness': self.h.name, 'params': self.h.params,
                         'choices': res.choices, 'detail': detail,
                         'failure': _fail_str(res)},
                   replay={'harness': self.h.name, 'params': self.h.params,
                           'choices': res.choices, 'mode': self.h.mode})
    return res

  def _alternatives(self, res, start):
    out = []
    for i in range(start, len(res.points)):
      p = res.points[i]
      budget, costs = p.costs
      if budget == 0 and self.bounds[0] < 0:
        continue      # default schedule only: no scheduling alternatives at all
      for alt in range(1, p.n):
        if alt == p.chosen:
          continue
        used = list(p.used)
        used[budget] += costs[alt]
        if used[0] > max(self.bounds[0], 0) or used[1] > self.bounds[1]:
          continue
        out.append(res.choices[:i] + [alt])
    return out

  def _over(self):
    if self.max_execs is not None and self.execs >= self.max_execs:
      return True
    if self.time_limit is not None and time.time() - self.t0 > self.time_limit:
      return True
    if self.deadline is not None and time.time() > self.deadline:
      return True
    return False

  def seed_frontier(self, want):
    """BFS expansion until >= want open prefixes (or the space is exhausted).
    Returns the list of open prefixes; everything shallower is already run."""
    frontier = [[]]
    while frontier and len(frontier) < want:
      prefix = frontier.pop(0)
      res = self._run(prefix)
      frontier.extend(self._alternatives(res, len(prefix)))
    return frontier

  def dfs(self, prefix):
    stack = [list(prefix)]
    while stack:
      if self._over():
        self.capped = True
        self.stats.cap(f'{self.h.name}: exploration budget '
                       f'(max_execs={self.max_execs}, time={self.time_limit}, '
                       f'check deadline={"yes" if self.deadline else "no"})')
        break
      p = stack.pop()
      res = self._run(p)
      stack.extend(reversed(self._alternatives(res, len(p))))
    return self.stats


def _freeze(x):
  if isinstance(x, dict):
    return tuple(sorted((k, _freeze(v)) for k, v in x.items()))
  if isinstance(x, (list, tuple)):
    return tuple(_freeze(v) for v in x)
  return x


def _fail_str(res):
  if not res.failure:
    return None
  kind, info = res.failure
  return [kind, jsonable(info) if not isinstance(info, BaseException)
          else repr(info)]


def replay_once(harness, choices, keep_events=True):
  res = harness.run_once(list(choices), keep_events=keep_events)
  return res, harness.check(res)


# ---- multi-process driver ---------------------------------------------------------
import importlib
import os


def _mk(module, name, params):
  mod = importlib.import_module(module)
  return mod.HARNESSES[name](**params)


def _seed_unit(item):
  module, name, params, bounds, split, limits = item
  ex = Explorer(_mk(module, name, params), pre_bound=bounds[0],
                dev_bound=bounds[1], **limits)
  frontier = ex.seed_frontier(split) if split else [[]]
  st = ex.stats
  st.aux = [(module, name, params, bounds, p, limits) for p in frontier]
  return st


def _dfs_unit(item):
  module, name, params, bounds, prefix, limits = item
  ex = Explorer(_mk(module, name, params), pre_bound=bounds[0],
                dev_bound=bounds[1], det_checks=1, **limits)
  # `prefix` is one prefix or a list of open prefixes of the same configuration;
  # a list shares one happens-before cache (far fewer duplicate subtrees than
  # one cache per prefix)
  prefixes = prefix if prefix and isinstance(prefix[0], list) else [prefix]
  for pre in prefixes:
    st = ex.dfs(pre)
  st.count('execs:' + name, ex.execs)
  if ex.cache is not None:
    st.count('hb_pruned_nodes', ex.pruned)
  return st


def explore_all(ctx, module, configs, *, pre_bound, dev_bound=0, split=0,
                max_execs=None, time_limit=None, hb_cache=False):
  """configs: list of (harness_name, params dict).  Explores every config
  completely within the bounds, using all cores."""
  if time_limit is None and os.environ.get('VERIF_UNIT_TIME_LIMIT'):
    time_limit = float(os.environ['VERIF_UNIT_TIME_LIMIT'])
  limits = {'max_execs': max_execs, 'time_limit': time_limit,
            'hb_cache': hb_cache, 'deadline': getattr(ctx, 'deadline', None)}
  bounds = (pre_bound, dev_bound)
  items = [(module, n, p, bounds, split, limits) for n, p in configs]
  if not split:
    ctx.pmap(_dfs_unit, [(m, n, p, b, [], l) for m, n, p, b, _, l in items])
    return
  subtrees = []
  from vmc.runner import _Caller, NCPU
  import multiprocessing as mp
  if os.environ.get('VERIF_SERIAL') or len(items) == 1:
    for it in items:
      st = _seed_unit(it)
      subtrees += st.aux
      ctx.merge(st)
  else:
    with mp.get_context('fork').Pool(min(NCPU, len(items))) as pool:
      for st in pool.imap_unordered(_seed_unit, items):
        subtrees += st.aux
        ctx.merge(st)
  # group the open prefixes of each configuration into a few work units
  groups = {}
  for it in subtrees:
    groups.setdefault(repr(it[:4]), []).append(it)
  per_cfg = max(2 if len(groups) < 64 else 1,
                (3 * NCPU) // max(1, len(groups)))
  units = []
  for its in groups.values():
    for k in range(per_cfg):
      part = its[k::per_cfg]
      if part:
        m, n, p, b, _, l = part[0]
        units.append((m, n, p, b, [x[4] for x in part], l))
  ctx.pmap(_dfs_unit, ctx.shuffled(units))
