"""Check runner: evidence accounting, violation/finding handling, parallel map.

Every check module in /verif/checks exposes

    PROPERTY = 'C04'
    LEVEL    = 'model_checking' | 'exploration' | 'fault_enumeration'
    def run(ctx):      # enumerate the bounded space, call ctx.case()/ctx.violation()
    def replay(ctx, data):   # optional: re-run one recorded case

The runner owns: tier/seed, counting (evaluations, distinct cases, states,
transitions, traces), sample collection, replay files, the KNOWN_FINDINGS
contract and the exit status.
"""
from __future__ import annotations

import fnmatch
import hashlib
import json
import multiprocessing as mp
import os
import random
import sys
import time
import traceback

ROOT = os.path.dirname(os.path.dirname(os.path.abspath(__file__)))
EVIDENCE_DIR = os.path.join(ROOT, 'evidence')
REPLAY_DIR = os.path.join(ROOT, 'replays')
KNOWN_FILE = os.path.join(ROOT, 'KNOWN_FINDINGS.txt')
NCPU = int(os.environ.get('VERIF_JOBS', '0')) or min(16, os.cpu_count() or 1)


def jsonable(x, depth=0):
  """Best-effort conversion of a case description into JSON data."""
  if depth > 8:
    return repr(x)
  if x is None or isinstance(x, (bool, int, str)):
    return x
  if isinstance(x, float):
    return x if x == x and abs(x) != float('inf') else repr(x)
  if isinstance(x, dict):
    return {str(k): jsonable(v, depth + 1) for k, v in x.items()}
  if isinstance(x, (list, tuple, set, frozenset)):
    return [jsonable(v, depth + 1) for v in x]
  try:
    import numpy as np
    if isinstance(x, np.ndarray):
      return {'ndarray': jsonable(x.tolist(), depth + 1)}
    if isinstance(x, np.generic):
      return jsonable(x.item(), depth + 1)
  except Exception:  # pragma: no cover
    pass
  return repr(x)


def h64(key) -> int:
  if not isinstance(key, (bytes, str)):
    key = repr(key)
  if isinstance(key, str):
    key = key.encode()
  return int.from_bytes(hashlib.blake2b(key, digest_size=8).digest(), 'big')


class Stats:
  """Mergeable counters of one (part of a) run."""

  MAX_SAMPLES = 6
  MAX_VIOLATIONS = 40

  def __init__(self):
    self.evaluations = 0
    self.nontrivial = set()   # 64-bit hashes of distinct non-trivial cases
    self.nontrivial_cnt = 0   # cases that are distinct by construction
    self.states = set()       # 64-bit hashes of distinct states
    self.states_cnt = 0
    self.transitions = 0
    self.traces = 0
    self.samples = []
    self.violations = []      # dicts: sig, detail
    self.extra = {}           # additive integer counters
    self.outcomes = set()     # distinct observed outcomes (vacuity indicator)
    self.capped = []          # list of strings describing caps hit

  # -- recording -----------------------------------------------------------
  def case(self, key=None, nontrivial=True):
    """One evaluated case.  key=None => distinct by construction."""
    self.evaluations += 1
    if nontrivial:
      if key is None:
        self.nontrivial_cnt += 1
      else:
        self.nontrivial.add(h64(key))

  def state(self, key=None):
    if key is None:
      self.states_cnt += 1
    else:
      self.states.add(h64(key))

  def outcome(self, key):
    if len(self.outcomes) < 100000:
      self.outcomes.add(h64(key))

  def sample(self, obj):
    if len(self.samples) < self.MAX_SAMPLES:
      self.samples.append(jsonable(obj))

  def count(self, name, n=1):
    self.extra[name] = self.extra.get(name, 0) + n

  def cap(self, what):
    if what not in self.capped:
      self.capped.append(what)

  def violation(self, sig, detail=None, replay=None):
    """Records a violation.  sig: stable narrow signature string."""
    if len(self.violations) < self.MAX_VIOLATIONS or not any(
        v['sig'] == sig for v in self.violations):
      self.violations.append(
          {'sig': sig, 'detail': jsonable(detail), 'replay': jsonable(replay)})
    self.count('violating_cases')

  # -- merging -------------------------------------------------------------
  def merge(self, other: 'Stats'):
    self.evaluations += other.evaluations
    self.nontrivial |= other.nontrivial
    self.nontrivial_cnt += other.nontrivial_cnt
    self.states |= other.states
    self.states_cnt += other.states_cnt
    self.transitions += other.transitions
    self.traces += other.traces
    for s in other.samples:
      if len(self.samples) < self.MAX_SAMPLES:
        self.samples.append(s)
    seen = {}
    for v in self.violations:
      seen[v['sig']] = seen.get(v['sig'], 0) + 1
    for v in other.violations:
      if seen.get(v['sig'], 0) < 3:
        self.violations.append(v)
        seen[v['sig']] = seen.get(v['sig'], 0) + 1
    for k, v in other.extra.items():
      self.extra[k] = self.extra.get(k, 0) + v
    self.outcomes |= other.outcomes
    for c in other.capped:
      self.cap(c)


def _load_known():
  known, fixed = [], []
  if os.path.exists(KNOWN_FILE):
    for line in open(KNOWN_FILE):
      line = line.strip()
      if not line or line.startswith('#'):
        continue
      if line.startswith('known:'):
        # known: property=C10 sig=<glob> :: <what fails>
        body = line[len('known:'):].strip()
        head, _, desc = body.partition('::')
        fields = dict(f.split('=', 1) for f in head.split() if '=' in f)
        known.append({'property': fields.get('property'),
                      'sig': fields.get('sig'), 'desc': desc.strip()})
      elif line.startswith('fixed:'):
        fixed.append(line)
  return known, fixed


class Ctx(Stats):
  """The object handed to a check's run()."""

  def __init__(self, prop, level, tier, seed):
    super().__init__()
    self.prop, self.level, self.tier, self.seed = prop, level, tier, seed
    self.rng = random.Random(seed)
    self.rule = ''
    self.assumptions = []
    self.notes = {}
    self.exhaustive = True
    self.t0 = time.time()

  def _wall(self):
    return time.time() - self.t0

  @property
  def quick(self):
    return self.tier == 'quick'

  def shuffled(self, items):
    """Seed-dependent *order* of a fully enumerated work list."""
    items = list(items)
    self.rng.shuffle(items)
    return items

  def pmap(self, fn, items, jobs=None, chunksize=1):
    """Runs fn(item)->Stats over items in worker processes and merges."""
    items = list(items)
    jobs = min(jobs or NCPU, max(1, len(items)))
    if jobs <= 1 or os.environ.get('VERIF_SERIAL'):
      for it in items:
        self.merge(_call(fn, it))
      return
    ctxm = mp.get_context('fork')
    with ctxm.Pool(jobs) as pool:
      for st in pool.imap_unordered(_Caller(fn), items, chunksize):
        self.merge(st)

  # -- finishing -----------------------------------------------------------
  def finish(self) -> int:
    known, _ = _load_known()
    known = [k for k in known if k['property'] == self.prop]
    new, hit = [], {}
    for v in self.violations:
      m = next((k for k in known if fnmatch.fnmatchcase(v['sig'], k['sig'])),
               None)
      if m is None:
        new.append(v)
      else:
        hit.setdefault(m['sig'], (m, []))[1].append(v)
    os.makedirs(REPLAY_DIR, exist_ok=True)
    lines = []
    for sig, (m, vs) in sorted(hit.items()):
      lines.append(f'KNOWN-FINDING: property={self.prop} {m["desc"]} '
                   f'[sig={sig}; {len(vs)} case(s) this run]')
    reported = set()
    for v in new:
      if v['sig'] in reported:
        continue
      reported.add(v['sig'])
      name = f'{self.prop}-{h64(v["sig"]):016x}.json'
      path = os.path.join(REPLAY_DIR, name)
      with open(path, 'w') as f:
        json.dump({'property': self.prop, 'tier': self.tier, 'seed': self.seed,
                   'sig': v['sig'], 'detail': v['detail'],
                   'replay': v['replay']}, f, indent=1, default=repr)
      lines.append(f'VIOLATION property={self.prop} replay={path}')
      lines.append(f'  sig={v["sig"]}')
      lines.append('  detail=' + json.dumps(v['detail'], default=repr)[:1500])
    self._write_evidence(new, hit)
    for l in lines:
      print(l)
    sys.stdout.flush()
    return 1 if new else 0

  def _write_evidence(self, new, hit):
    os.makedirs(EVIDENCE_DIR, exist_ok=True)
    distinct = len(self.nontrivial) + self.nontrivial_cnt
    states = len(self.states) + self.states_cnt
    cov = {
        'evaluations': self.evaluations,
        'distinct_nontrivial': distinct,
        'rule': self.rule,
        'samples': self.samples or ['<none recorded>'],
        'exhaustive': bool(self.exhaustive and not self.capped),
        'distinct_outcomes': len(self.outcomes),
    }
    if states or self.transitions or self.traces:
      cov['states'] = states
      cov['transitions'] = self.transitions
      cov['traces_validated_against_impl'] = self.traces
    if self.capped:
      cov['caps_hit'] = self.capped
    cov.update(self.extra)
    cov.update(self.notes)
    ev = {
        'property_id': self.prop,
        'tier': self.tier,
        'seed': self.seed,
        'level': self.level,
        'coverage': cov,
        'assumptions': self.assumptions,
        'wall_s': round(time.time() - self.t0, 3),
        'violations': len(new),
        'known_findings_observed': sorted(hit),
        'violation_signatures': sorted({v['sig'] for v in new}),
    }
    path = os.path.join(EVIDENCE_DIR, f'{self.prop}.json')
    tmp = path + '.tmp'
    with open(tmp, 'w') as f:
      json.dump(ev, f, indent=1, default=repr)
      f.write('\n')
    os.replace(tmp, path)


class _Caller:
  def __init__(self, fn):
    self.fn = fn

  def __call__(self, item):
    return _call(self.fn, item)


def _call(fn, item):
  try:
    st = fn(item)
  except BaseException as e:  # a crashed work unit must never pass silently
    st = Stats()
    st.violation('HARNESS-ERROR:' + type(e).__name__,
                 {'item': jsonable(item), 'tb': traceback.format_exc()[-3000:]})
  if st is None:
    st = Stats()
  return st
