"""Virtual `concurrent.futures`: Future on a v-Condition, a thread pool whose
workers are v-threads and that honours max_workers (queued tasks start late)."""
from __future__ import annotations

import collections
import concurrent.futures as _cf
from concurrent.futures import (ALL_COMPLETED, FIRST_COMPLETED,  # noqa: F401
                                FIRST_EXCEPTION, CancelledError,
                                InvalidStateError, TimeoutError)
from concurrent.futures._base import (CANCELLED, CANCELLED_AND_NOTIFIED,
                                      FINISHED, DoneAndNotDoneFutures)

from vmc import sched
from vmc import vthreading

BrokenExecutor = _cf.BrokenExecutor
Executor = _cf.Executor
ProcessPoolExecutor = _cf.ProcessPoolExecutor


class Future(_cf.Future):

  def __init__(self):
    super().__init__()
    self._condition = vthreading.Condition()

  def __class_getitem__(cls, item):
    return cls


def _done(f):
  # As the real wait()/as_completed(): a future that was cancel()led counts
  # only once a worker has acknowledged it (set_running_or_notify_cancel ->
  # CANCELLED_AND_NOTIFIED).  A bare CANCELLED future never wakes a waiter.
  return f._state in (CANCELLED_AND_NOTIFIED, FINISHED)


def wait(fs, timeout=None, return_when=ALL_COMPLETED):
  fs = set(fs)
  s = sched.cur()

  def ready():
    done = [f for f in fs if _done(f)]
    if len(done) == len(fs):
      return True
    if return_when == FIRST_COMPLETED:
      return bool(done)
    if return_when == FIRST_EXCEPTION:
      return any(f._state == FINISHED and f._exception is not None
                 for f in done)
    return False

  s.point('fut-wait', '')
  if not ready():
    deadline = None if timeout is None else s.clock + timeout
    s.block(ready, deadline, 'fut-wait-block', '')
  done = {f for f in fs if _done(f)}
  for f in sorted(done, key=lambda f: f._condition.name):
    s.note('fut-seen', f._condition.name)
  return DoneAndNotDoneFutures(done, fs - done)


def as_completed(fs, timeout=None):
  fs = list(dict.fromkeys(fs))
  s = sched.cur()
  end = None if timeout is None else s.clock + timeout
  pending = list(fs)
  while pending:
    s.point('as-completed', '')
    ready = [f for f in pending if _done(f)]
    if not ready:
      if not s.block(lambda: any(_done(f) for f in pending), end,
                     'as-completed-block', ''):
        raise TimeoutError(f'{len(pending)} (of {len(fs)}) futures unfinished')
      ready = [f for f in pending if _done(f)]
    for f in ready:
      pending.remove(f)
      s.note('fut-seen', f._condition.name)
      yield f


class ThreadPoolExecutor(_cf.Executor):
  """max_workers v-threads; extra tasks wait in a FIFO until a worker frees."""

  _pools = []   # pools created during the current execution (for oracles)

  def __init__(self, max_workers=None, thread_name_prefix='', initializer=None,
               initargs=()):
    if max_workers is None:
      max_workers = 20
    if max_workers <= 0:
      raise ValueError('max_workers must be greater than 0')
    if initializer is not None:
      if not callable(initializer):
        raise TypeError('initializer must be a callable')
      # not modelled (the library passes none): refuse instead of ignoring it
      raise sched.HarnessError('ThreadPoolExecutor(initializer=) is not modelled')
    self._max_workers = max_workers
    self._prefix = thread_name_prefix or 'pool'
    self._queue = collections.deque()
    self._workers = []     # vthreading.Thread objects ever started
    self._busy = 0
    self._shutdown = False
    self._nthreads = 0
    ThreadPoolExecutor._pools.append(self)

  def submit(self, fn, /, *args, **kwargs):
    s = sched.cur()
    if self._shutdown:
      raise RuntimeError('cannot schedule new futures after shutdown')
    f = Future()
    self._queue.append((f, fn, args, kwargs))
    if self._busy < self._max_workers:
      self._busy += 1
      self._nthreads += 1
      t = vthreading.Thread(target=self._worker,
                            name=f'{self._prefix}_{self._nthreads - 1}')
      self._workers.append(t)
      t.start()
    else:
      s.point('submit-queued', self._prefix)
    return f

  def _worker(self):
    try:
      while self._queue:
        f, fn, args, kwargs = self._queue.popleft()
        if not f.set_running_or_notify_cancel():
          continue
        try:
          result = fn(*args, **kwargs)
        except sched.Abort:
          raise
        except BaseException as e:  # pylint: disable=broad-except
          f.set_exception(e)
        else:
          f.set_result(result)
    finally:
      self._busy -= 1

  def shutdown(self, wait=True, *, cancel_futures=False):
    s = sched.cur()
    s.point('pool-shutdown', self._prefix)
    self._shutdown = True
    if cancel_futures:
      while self._queue:
        f = self._queue.popleft()[0]
        f.cancel()
    if wait:
      for t in list(self._workers):
        t.join()

  # inspection helpers for oracles
  def alive_workers(self):
    return [t.name for t in self._workers if t.is_alive()]
