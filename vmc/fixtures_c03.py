"""Importable fixtures for C03 (pickled / resolved by reference).

Records are batches: dicts of equally long column lists.  Every function is
row-wise (column in, column out), so that no cut of the data into batches,
shards or workers can legitimately change a row.
"""
from __future__ import annotations


# ---- row-wise operator functions ---------------------------------------------

def bump(a, v):
  """apply: keeps a, v -> 2v+1 (does not commute with `plus`)."""
  return list(a), [2 * x + 1 for x in v]


def double(v):
  return [2 * x for x in v]


def plus(a, v):
  return [x + y for x, y in zip(a, v)]


def keep(v):
  """filter predicate of a whole record (a record is kept or dropped)."""
  return v[0] % 4 != 1


def ident2(a, v):
  return a, v


# ---- transparent aggregates ---------------------------------------------------

def _rows(cols):
  cols = [list(c) for c in cols]
  return tuple(zip(*cols))


MAX_STATE_ROWS = 20000    # no enumerated dataset has more than ~500 rows


def _bounded(n):
  """A state far larger than any dataset is a runaway (e.g. a state merged
  with itself once per record doubles every time): fail instead of filling
  the memory of the machine."""
  if n > MAX_STATE_ROWS:
    raise OverflowError(
        f'aggregation state of {n} rows: more than any dataset has')


class Rows:
  """The sorted rows of a long result as ONE leaf value.  The library walks a
  list-valued result element by element every time it assembles `agg_result`
  (tree.copy_and_update: ~0.1 s for 300 rows), which is irrelevant to C03; an
  object that is neither a Sequence nor a Mapping is a leaf to it."""
  __slots__ = ('rows',)

  def __init__(self, rows):
    self.rows = tuple(rows)

  def __eq__(self, other):
    return isinstance(other, Rows) and self.rows == other.rows

  def __hash__(self):
    return hash(self.rows)

  def __repr__(self):
    return 'Rows%r' % (self.rows,)


LIST_RESULT_MAX = 16      # every dataset of <= 7 records has <= 10 rows


def _result(rows):
  rows = sorted(rows)
  return rows if len(rows) <= LIST_RESULT_MAX else Rows(rows)


class Bag:
  """Immutable state: the tuple of every row seen; result = sorted rows (a
  list up to LIST_RESULT_MAX rows, one `Rows` leaf beyond)."""

  def create_state(self):
    return ()

  def update_state(self, state, *cols):
    return state + _rows(cols)

  def merge_states(self, states):
    out = ()
    for s in states:
      _bounded(len(out) + len(s))
      out = out + tuple(s)
    return out

  def get_result(self, state):
    return _result(state)


class BagInPlace(Bag):
  """Same, but the state is a list that is updated in place (as many real
  metrics do): sharing a state between two iterators double counts."""

  def create_state(self):
    return []

  def update_state(self, state, *cols):
    state.extend(_rows(cols))
    return state

  def merge_states(self, states):
    out = []
    for s in states:
      _bounded(len(out) + len(s))
      out.extend(s)
    return out


def _point(kind, obj):
  """A visible step of fixture code (scheduling point under E1)."""
  from vmc import sched
  s = sched._current
  if s is not None and not s.aborting:
    s.point(kind, obj)


class _RacyState:

  def __init__(self):
    self.rows = ()


class BagRacy(Bag):
  """An aggregate that is not thread-safe (as none has to be): reading the
  state and writing it back are two visible steps.  Callers must serialise
  update_state - two unsynchronised updates lose one."""

  def create_state(self):
    return _RacyState()

  def update_state(self, state, *cols):
    _point('rd', 'BagRacy.rows')
    old = state.rows
    _point('wr', 'BagRacy.rows')
    state.rows = old + _rows(cols)
    return state

  def merge_states(self, states):
    out = _RacyState()
    for s in states:
      _bounded(len(out.rows) + len(s.rows))
      out.rows = out.rows + s.rows
    return out

  def get_result(self, state):
    return _result(state.rows)


class BagMetric:
  """A MergeableMetric (add / merge / result), used through as_agg_fn."""

  def __init__(self):
    self.rows = []
    self.batches = 0

  def add(self, *cols):
    self.rows.extend(_rows(cols))
    self.batches += 1

  def merge(self, other):
    _bounded(len(self.rows) + len(other.rows))
    self.rows.extend(other.rows)
    self.batches += other.batches

  def result(self):
    return _result(self.rows)


# ---- data sources ---------------------------------------------------------------

class Stream:
  """A re-iterable, non-shardable data source whose iterator has a visible
  scheduling point between reading and advancing its position - the model of
  any source that is not thread-safe (a generator doing I/O, a file reader).
  Correct callers serialise `next` (the library wraps it in a lock)."""

  def __init__(self, records):
    self.records = list(records)

  def __iter__(self):
    return _StreamIterator(self.records)


class _StreamIterator:

  def __init__(self, records):
    self.records = records
    self.i = 0

  def __iter__(self):
    return self

  def __next__(self):
    from vmc import sched
    s = sched._current
    if s is not None and not s.aborting:
      s.point('rd', 'Stream.i')
    i = self.i
    if i >= len(self.records):
      raise StopIteration
    if s is not None and not s.aborting:
      s.point('wr', 'Stream.i')
    self.i = i + 1
    return self.records[i]
