"""Bounded-exhaustive enumerators (E3).  All generators are deterministic."""
from __future__ import annotations

import itertools as itt


def compositions(n, min_part=1, max_parts=None):
  """All ordered ways to write n as a sum of parts >= min_part (tuples)."""
  if n == 0:
    yield ()
    return
  if max_parts is not None and max_parts <= 0:
    return
  for first in range(max(min_part, 1) if min_part > 0 else 0, n + 1):
    if first == 0:
      continue
    nxt = None if max_parts is None else max_parts - 1
    for rest in compositions(n - first, min_part, nxt):
      yield (first,) + rest


def weak_compositions(n, k):
  """All k-tuples of non-negative ints summing to n (empty parts allowed)."""
  if k == 0:
    if n == 0:
      yield ()
    return
  if k == 1:
    yield (n,)
    return
  for first in range(n + 1):
    for rest in weak_compositions(n - first, k - 1):
      yield (first,) + rest


def cut(seq, sizes):
  """Cuts seq into consecutive pieces of the given sizes."""
  out, i = [], 0
  for s in sizes:
    out.append(seq[i:i + s])
    i += s
  assert i == len(seq), (i, len(seq), sizes)
  return out


def two_level_compositions(n, max_shards, allow_empty_shards=True):
  """Yields (shard_sizes, [batch_sizes per shard]).

  Every way to cut n rows into 1..max_shards contiguous shards (empty shards
  allowed when allow_empty_shards) and every shard into >= 1 non-empty batches
  (an empty shard has no batch).
  """
  for s in range(1, max_shards + 1):
    gen = weak_compositions(n, s) if allow_empty_shards else (
        c for c in compositions(n) if len(c) == s)
    for shard_sizes in gen:
      per_shard = [list(compositions(m)) if m else [()] for m in shard_sizes]
      for batches in itt.product(*per_shard):
        yield shard_sizes, batches


def sequences(alphabet, max_len, min_len=0):
  for n in range(min_len, max_len + 1):
    yield from itt.product(alphabet, repeat=n)


def subsets(items, max_size=None, min_size=0):
  items = list(items)
  hi = len(items) if max_size is None else min(max_size, len(items))
  for k in range(min_size, hi + 1):
    yield from itt.combinations(items, k)


def bracketings(k):
  """All full binary bracketings of operand indices 0..k-1 as nested tuples."""
  def rec(lo, hi):
    if hi - lo == 1:
      yield lo
      return
    for mid in range(lo + 1, hi):
      for l in rec(lo, mid):
        for r in rec(mid, hi):
          yield (l, r)
  yield from rec(0, k)


def merge_trees(k):
  """All bracketings x all permutations of k operands."""
  for perm in itt.permutations(range(k)):
    for b in bracketings(k):
      yield _relabel(b, perm)


def _relabel(b, perm):
  if isinstance(b, tuple):
    return (_relabel(b[0], perm), _relabel(b[1], perm))
  return perm[b]


def set_partitions(items):
  items = list(items)
  if not items:
    yield []
    return
  first, rest = items[0], items[1:]
  for part in set_partitions(rest):
    for i in range(len(part)):
      yield part[:i] + [[first] + part[i]] + part[i + 1:]
    yield [[first]] + part


def chunks(items, n):
  """Splits a list into n nearly equal interleaved work units."""
  items = list(items)
  return [items[i::n] for i in range(n) if items[i::n]]
