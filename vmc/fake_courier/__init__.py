"""In-process replacement for the `courier` RPC package (E2).

Installed as `sys.modules['courier']` *before* ml_metrics' courier modules are
imported.  Surface used by ml-metrics:

  Server(name, port=).{Bind, Unbind, Start, Stop, address, has_started}
  Client(address, call_timeout=).futures.<method>(*args, **kwargs) -> Future

A call becomes a request that is executed by the *real bound handler* on a
fresh v-thread of the server (thread per request, like a large gRPC pool).
When a request is issued the environment answers from a fault menu through
`sched.choose` (budget: deviations):

  OK               deliver, execute, reply                       (default)
  DEADLINE_BEFORE  request dropped; deadline error after call_timeout
  DEADLINE_AFTER   handler runs, reply dropped; deadline error after call_timeout
  KILL             the server dies now: this and all later requests get no
                   answer (deadline error if the client has a call_timeout)

Handler exceptions travel back as a non-deadline StatusError carrying the text.
"""
from __future__ import annotations

from vmc import sched, vfutures, vthreading, vtime

OK, DEADLINE_BEFORE, DEADLINE_AFTER, KILL = 'ok', 'deadline-before', 'deadline-after', 'kill'
KILL_OTHER = 'kill-other'
RESTART = 'restart'      # a killed server comes up again (fresh process, same address)
SLOW = 'slow-reply'      # not a fault: the reply arrives late (after quiescence)
SLOW_SECS = 5.0


class StatusError(Exception):
  """Mimics pybind11_abseil.status.StatusNotOk."""

  def __init__(self, code, message):
    super().__init__(message)
    self.code = code
    self.message = message

  def __reduce__(self):
    return (StatusError, (self.code, self.message))


DEADLINE_EXCEEDED, UNKNOWN, UNAVAILABLE = 4, 2, 14


class Net:
  """The network: address -> server, fault plan, call log."""

  def __init__(self):
    self.reset()

  def reset(self):
    self.servers = {}        # address -> Server (started or not)
    self.dead = set()        # addresses whose server was killed
    self.menu = {}           # method -> list of extra fault kinds on the menu
    self.fault_filter = None  # callable(address, method, nth) -> bool
    self.calls = []          # (address, method, answer)
    self.ncalls = {}         # (address, method) -> count
    self.on_kill = None      # callable(address) run when a server is killed
    self.factories = {}      # address -> callable() building + starting a fresh server
    self.handler_threads = []
    self.exclude_methods = ('heartbeat',)

  def faults_for(self, address, method):
    kinds = [k for k in self.menu.get(method, self.menu.get('*', []))
             if k not in (KILL_OTHER, RESTART)]
    if not kinds:
      return []
    n = self.ncalls.get((address, method), 0)
    if self.fault_filter is not None and not self.fault_filter(address, method, n):
      return []
    return list(kinds)


NET = Net()


def reset():
  NET.reset()


class Server:

  def __init__(self, name=None, port=None, **_):
    self._name = name
    self._port = port
    self._handlers = {}
    self._started = False
    self._stopped = False
    self._address = name if name else f'localhost:{port or 10000 + len(NET.servers)}'
    NET.servers[self._address] = self
    NET.dead.discard(self._address)

  @property
  def address(self):
    return self._address

  @property
  def has_started(self):
    return self._started

  def Bind(self, method, fn):
    self._handlers[method] = fn

  def Unbind(self, method):
    self._handlers.pop(method, None)

  def Start(self):
    self._started = True

  def Stop(self):
    self._started = False
    self._stopped = True

  def Join(self):
    pass


class _Futures:

  def __init__(self, client):
    self._client = client

  def __getattr__(self, method):
    if method.startswith('_'):
      raise AttributeError(method)
    client = self._client

    def call(*args, **kwargs):
      return client._call(method, args, kwargs)
    return call


class Client:

  def __init__(self, address, call_timeout=None, **_):
    self.address = address
    # courier treats 0 / None as "no timeout"
    self.call_timeout = call_timeout or None
    self.futures = _Futures(self)

  def __getattr__(self, method):
    if method.startswith('_'):
      raise AttributeError(method)

    def call(*args, **kwargs):
      return self._call(method, args, kwargs).result()
    return call

  def _call(self, method, args, kwargs):
    s = sched.cur()
    fut = vfutures.Future()
    addr = self.address
    s.point('rpc', f'{addr}.{method}')
    kinds = [OK]
    timeout = self.call_timeout
    for k in NET.faults_for(addr, method):
      if k in (DEADLINE_BEFORE, DEADLINE_AFTER) and not timeout:
        continue
      kinds.append(k)
    # a worker may also die at a moment that is not one of its own calls: at
    # any RPC boundary every other live worker may be killed
    if KILL_OTHER in NET.menu.get('*', []):
      for a in sorted(NET.servers):
        if (a != addr and a.startswith('w') and a not in NET.dead
            and NET.servers[a]._started):
          kinds.append(KILL_OTHER + ':' + a)
    # a killed worker may rejoin (a fresh server under the same address) at any
    # RPC boundary
    if RESTART in NET.menu.get('*', []):
      for a in sorted(NET.dead):
        if a in NET.factories:
          kinds.append(RESTART + ':' + a)
    NET.ncalls[(addr, method)] = NET.ncalls.get((addr, method), 0) + 1
    idx = s.choose(len(kinds), kind=f'rpc:{method}') if len(kinds) > 1 else 0
    answer = kinds[idx]
    NET.calls.append((addr, method, answer))
    if answer == KILL:
      kill(addr)
    elif answer.startswith(KILL_OTHER + ':'):
      kill(answer.split(':', 1)[1])
      answer = OK
    elif answer.startswith(RESTART + ':'):
      a = answer.split(':', 1)[1]
      restart(a, NET.factories[a])
      answer = OK
    server = NET.servers.get(addr)
    alive = (server is not None and server._started
             and addr not in NET.dead)
    if method == 'heartbeat' and args and args[0] in NET.dead:
      alive = False      # a dead server pushes no heartbeats any more
    if not alive or answer == DEADLINE_BEFORE:
      self._expire(fut, timeout, f'{method} to {addr}: no answer')
      return fut
    handler = server._handlers.get(method)
    if handler is None:
      fut.set_exception(StatusError(UNKNOWN, f'method {method} not found'))
      return fut
    drop_reply = answer == DEADLINE_AFTER
    slow = answer == SLOW
    if drop_reply:
      self._expire(fut, timeout, f'{method} to {addr}: reply lost')

    def handle():
      try:
        result = handler(*args, **kwargs)
      except sched.Abort:
        raise
      except BaseException as e:  # pylint: disable=broad-except
        if drop_reply or addr in NET.dead and server is not NET.servers.get(addr):
          return
        if not fut.done():
          fut.set_exception(StatusError(
              UNKNOWN, f'{type(e).__module__}.{type(e).__qualname__}: {e}'
              if type(e).__module__ != 'builtins'
              else f'{type(e).__qualname__}: {e}'))
        return
      if drop_reply or server._killed_flag():
        return
      if slow:
        vtime.sleep(SLOW_SECS)
      if not fut.done():
        fut.set_result(result)

    t = vthreading.Thread(target=handle, name=f'h:{addr}.{method}')
    NET.handler_threads.append(t)
    t.start()
    return fut

  def _expire(self, fut, timeout, msg):
    if not timeout:
      return        # never answered: only liveness detection can save the caller
    def fire():
      vtime.sleep(timeout)
      if not fut.done():
        fut.set_exception(StatusError(DEADLINE_EXCEEDED, 'Deadline Exceeded: ' + msg))
    t = vthreading.Thread(target=fire, name='deadline')
    t._service = True
    t.start()


def _killed_flag(self):
  return getattr(self, '_killed', False)


Server._killed_flag = _killed_flag


def kill(address):
  """The server process dies: no request is answered any more."""
  server = NET.servers.get(address)
  NET.dead.add(address)
  if server is not None:
    server._killed = True
    server._started = False
  if NET.on_kill is not None:
    NET.on_kill(address)


def restart(address, factory):
  """A fresh server comes up under the same address."""
  NET.dead.discard(address)
  return factory()
