"""E1+E2 harnesses for the courier-based layers (C06, C14, C15, C16, C20)."""
from __future__ import annotations

import collections

from vmc import cenv, explorer, fake_courier, fixtures_c as fx, hooks
from vmc import sched, vthreading
from vmc.qharness import _info, _stuck


def _m():
  return cenv.prepare()


class _CHarness(explorer.Harness):
  max_steps = 30000

  def reset(self):
    cenv.reset()


# ===========================================================================
# C15: the prefetching generator protocol
# ===========================================================================

class Prefetch(_CHarness):
  """A real PrefetchedCourierServer on the fake transport; the client follows
  a script of protocol operations.

  params:
    n, ret, fail_at : the generator (fx.gen) that is initialised first
    ps              : prefetch_size of the server
    k               : requested batch size of every next call
    script          : extra operations inserted after `at` elements:
                      None | ['reinit', n2] | ['stop'] | ['shutdown']
                      | ['async-next-then-reinit', n2]
                      | ['shutdown-pending']  (rpc only): the generator is
                        endless and slow; a next request is pending when the
                        shutdown request arrives; the pending request must be
                        answered (elements so far + a retriable error) and
                        the prefetch thread must end
    at              : number of elements consumed before the scripted operation
  """
  name = 'prefetch'

  def __init__(self, n=2, fail_at=None, ps=1, k=1, script=None, at=0,
               mode='preempt', direct=False, prop='C15'):
    self.params = dict(n=n, fail_at=fail_at, ps=ps, k=k, script=script, at=at,
                       mode=mode, direct=direct, prop=prop)
    self.mode = mode
    if script and script[0] == 'shutdown-pending':
      self.max_clock = 3000.0     # the generator is endless: a short horizon
    m = _m()
    hooks.instrument(m.courier_server.PrefetchedCourierServer)

  def setup(self):
    m = _m()
    p = self.params
    lf = m.lazy_fns
    self.responses = []     # (generator tag at issue time, list payload)
    self.pending_answer = None
    self.pending_from = 0
    self.log = []
    self.end = None

    def decode(fut, patient=True):
      if not patient:
        # after a shutdown the server may be gone: a request to a stopped
        # server is never answered by the transport, which is not the
        # protocol's business; wait a bounded virtual time
        from vmc import vtime
        waited = 0
        while not fut.done() and waited < 300:
          vtime.sleep(30)
          waited += 30
        if not fut.done():
          return [TimeoutError('no answer from a stopped server (harness)')]
      return lf.maybe_make(fut.result())

    class _Now:
      def __init__(self, v):
        self.v = v

      def result(self):
        return self.v

    class _Later:
      """A handler call running on its own v-thread (direct mode)."""

      def __init__(self, fn, *a, **k):
        self.v = None
        self.t = vthreading.Thread(target=self._run, args=(fn, a, k),
                                   name='handler')
        self.t.start()

      def _run(self, fn, a, k):
        self.v = fn(*a, **k)

      def result(self):
        self.t.join()
        return self.v

    class DirectClient:
      """Calls the bound handlers of the server object directly (no
      transport, no heartbeats): the narrowest seam of the protocol."""

      def __init__(self, server):
        self.s = server

      def wait_until_alive(self):
        pass

      def call(self, *args, courier_method='', **kwargs):
        args = [lf.pickler.dumps(a) for a in args]
        fn = {'init_generator': self.s._init_iterator,
              'stop_prefetch': self.s._stop_prefetch}[courier_method]
        return _Now(fn(*args, **kwargs))

      def next_batch_from_generator(self, k, later=False):
        if later:
          return _Later(self.s._next_batch, k)
        return _Now(self.s._next_batch(k))

      def shutdown(self):
        self.s._request_shutdown()
        self.s._stop_prefetch()     # what _shutdown_server does via callback
        return _Now(None)

    def body():
      server = m.courier_server.PrefetchedCourierServer(
          'w0', prefetch_size=p['ps'])
      self.server = server
      if p['direct']:
        client = DirectClient(server)
      else:
        server.start()
        client = m.courier_utils.CourierClient('w0')
      client.wait_until_alive()
      pending = bool(p['script']) and p['script'][0] == 'shutdown-pending'
      first = (lf.trace(fx.slow_gen)('g1') if pending else
               lf.trace(fx.gen)(p['n'], 'R1', p['fail_at'], 'g1'))
      r = client.call(first, courier_method='init_generator').result()
      self.log.append(('init', r))
      cur = 'g1'
      consumed = 0
      done = False
      scripted = p['script'] is None
      self.script_ran = False
      guard = 0
      while not done and guard < 12:
        guard += 1
        if not scripted and consumed >= p['at']:
          scripted = True
          self.script_ran = True
          op = p['script'][0]
          if op == 'reinit':
            r = client.call(lf.trace(fx.gen)(p['script'][1], 'R2', None, 'g2'),
                            courier_method='init_generator').result()
            self.log.append(('reinit', r))
            cur = 'g2'
          elif op == 'async-next-then-reinit':
            if p['direct']:
              f1 = client.next_batch_from_generator(p['k'], later=True)
            else:
              f1 = client.next_batch_from_generator(p['k'])
            r = client.call(lf.trace(fx.gen)(p['script'][1], 'R2', None, 'g2'),
                            courier_method='init_generator').result()
            self.log.append(('reinit', r))
            self.responses.append(('g1|g2', decode(f1)))
            cur = 'g2'
          elif op == 'stop':
            client.call(courier_method='stop_prefetch').result()
            self.log.append(('stop',))
            cur = 'stopped'
          elif op == 'shutdown':
            client.shutdown().result()
            self.log.append(('shutdown',))
            cur = 'stopped'
          elif op == 'shutdown-pending':
            self.pending_from = consumed
            f1 = client.next_batch_from_generator(p['k'])
            if p['script'][1:] == ['signal']:
              # SIGTERM on the server process (or another client's request):
              # this client's pending call stays pending
              server._request_shutdown()
            else:
              client.shutdown().result()   # cancels this client's pendings
            self.log.append(('shutdown',))
            try:
              self.pending_answer = decode(f1)
            except sched.Abort:
              raise
            except BaseException as e:  # pylint: disable=broad-except
              # the transport may drop a call that is in flight when the
              # server stops: a loud, retriable outcome for the client
              self.pending_answer = ('transport-error', type(e).__name__)
            cur = 'stopped'
            break
        batch = decode(client.next_batch_from_generator(p['k']),
                       patient=not (cur == 'stopped' and not p['direct']))
        self.responses.append((cur, batch))
        for e in batch:
          if isinstance(e, BaseException):
            done = True
          else:
            consumed += 1
      self.end = 'done' if done or pending else 'guard'
      if not p['direct']:
        server.stop().join()
      # every prefetch thread (also the one of a replaced generator) and every
      # handler thread must finish eventually
      sched.cur().join_all()
    return body

  def outcome(self, res):
    pa = getattr(self, 'pending_answer', None)
    return (res.failure and res.failure[0],
            tuple((t, tuple(map(_e, b))) for t, b in self.responses),
            tuple(map(_e, pa)) if pa is not None else None)

  def _cfg(self):
    p = self.params
    s = '-'.join(map(str, p['script'])) if p['script'] and p['script'][0] == \
        'shutdown-pending' else p['script'][0] if p['script'] else 'plain'
    f = 'fail' if p['fail_at'] is not None else 'ok'
    d = 'direct' if p['direct'] else 'rpc'
    return f'{d}:{s}:{f}:ps{p["ps"]}:k{p["k"]}'

  def check(self, res):
    p = self.params
    cfg = self._cfg()
    out = []
    if res.failure:
      kind, info = res.failure
      out.append((f'{p["prop"]}:prefetch:{kind}{_stuck(kind, info)}:{cfg}',
                  {'failure': kind, 'info': _info(info), 'log': repr(self.log),
                   'responses': repr(self.responses)}))
      return out
    if self.end != 'done':
      out.append((f'{p["prop"]}:prefetch:no-end-marker:{cfg}',
                  {'responses': repr(self.responses)}))
    if self.log and self.log[0] != ('init', None):
      out.append((f'{p["prop"]}:prefetch:init-failed:{cfg}', {'log': repr(self.log)}))
    # per generator: elements in order, each once
    seqs = collections.defaultdict(list)
    markers = []
    after_marker = False
    for tag, batch in self.responses:
      for i, e in enumerate(batch):
        if isinstance(e, BaseException):
          markers.append((tag, e))
          if i != len(batch) - 1:
            out.append((f'{p["prop"]}:prefetch:marker-not-last-in-batch:{cfg}',
                        {'batch': repr(batch)}))
        else:
          if not (isinstance(e, tuple) and len(e) == 2):
            out.append((f'{p["prop"]}:prefetch:invented-element:{cfg}',
                        {'batch': repr(batch)}))
            continue
          seqs[e[0]].append(e[1])
          if tag == 'g2' and e[0] == 'g1':
            out.append((f'{p["prop"]}:prefetch:old-generator-element-after-{tag}:{cfg}',
                        {'responses': repr(self.responses)}))
      non_exc = [e for e in batch if not isinstance(e, BaseException)]
      if len(non_exc) > p['k']:
        out.append((f'{p["prop"]}:prefetch:batch-larger-than-requested:{cfg}',
                    {'batch': repr(batch)}))
    lim1 = p['n'] if p['fail_at'] is None else min(p['n'], p['fail_at'])
    for tag, seq in seqs.items():
      if seq != list(range(len(seq))):
        out.append((f'{p["prop"]}:prefetch:order-or-duplicate:{cfg}',
                    {'tag': tag, 'seq': seq}))
      lim = lim1 if tag == 'g1' else (p['script'][1] if p['script'] else 0)
      if len(seq) > lim:
        out.append((f'{p["prop"]}:prefetch:more-elements-than-generated:{cfg}',
                    {'tag': tag, 'seq': seq}))
    script = p['script'][0] if p['script'] else None
    if script == 'shutdown-pending':
      ans = getattr(self, 'pending_answer', None)
      # answered in full before the shutdown took effect | the elements so far
      # + a retriable error | dropped loudly by the stopping transport
      elems = [e for e in ans if not isinstance(e, BaseException)] if isinstance(
          ans, list) else []
      ok = (isinstance(ans, tuple) and ans[0] == 'transport-error') or (
          isinstance(ans, list) and elems == [('g1', i) for i in range(
              self.pending_from, self.pending_from + len(elems))] and (
                  (len(ans) == len(elems) == p['k']) or
                  (len(ans) == len(elems) + 1 and len(elems) <= p['k'] and
                   isinstance(ans[-1], TimeoutError))))
      if not ok:
        out.append((f'{p["prop"]}:prefetch:pending-request-not-answered-with-timeout-at-'
                    f'shutdown:{cfg}', {'answer': repr(ans)}))
      if res.leftover:
        out.append((f'{p["prop"]}:prefetch:threads-left:{cfg}',
                    {'left': [t for t in res.leftover]}))
      return out
    if script is not None and not getattr(self, 'script_ran', False):
      script = None      # the stream ended before the scripted operation
    final = markers[-1][1] if markers else None
    if script is None:
      # the plain protocol: all elements, then exactly one marker
      if seqs.get('g1', []) != list(range(lim1)):
        out.append((f'{p["prop"]}:prefetch:elements-missing:{cfg}',
                    {'got': seqs.get('g1'), 'expected': lim1}))
      if len(markers) != 1:
        out.append((f'{p["prop"]}:prefetch:marker-count:{cfg}',
                    {'markers': repr(markers)}))
      elif p['fail_at'] is None:
        if not (isinstance(final, StopIteration) and final.value == 'R1'):
          out.append((f'{p["prop"]}:prefetch:end-marker-value:{cfg}',
                      {'marker': repr(final)}))
      else:
        if not (isinstance(final, ValueError) and 'g1@' in str(final)):
          out.append((f'{p["prop"]}:prefetch:failure-not-delivered:{cfg}',
                      {'marker': repr(final)}))
    elif script in ('reinit', 'async-next-then-reinit'):
      n2 = p['script'][1]
      if seqs.get('g2', []) != list(range(n2)):
        out.append((f'{p["prop"]}:prefetch:new-generator-elements:{cfg}',
                    {'got': seqs.get('g2'), 'expected': n2}))
      if not (isinstance(final, StopIteration) and final.value == 'R2'):
        out.append((f'{p["prop"]}:prefetch:end-marker-value:{cfg}',
                    {'marker': repr(final)}))
    else:   # stop / shutdown: the stream ends with an error, never silently
      if isinstance(final, StopIteration) and len(seqs.get('g1', [])) < lim1:
        out.append((f'{p["prop"]}:prefetch:clean-end-after-{script}:{cfg}',
                    {'responses': repr(self.responses)}))
    if res.leftover:
      left = [t for t in res.leftover]
      out.append((f'{p["prop"]}:prefetch:threads-left:{cfg}', {'left': left}))
    return out


def _e(x):
  if isinstance(x, BaseException):
    return (type(x).__name__, str(getattr(x, 'value', '')) or str(x)[:40])
  return x


HARNESSES = {'prefetch': Prefetch}


# ===========================================================================
# C06 (a): tasks on a worker pool under timeouts and worker deaths
# ===========================================================================

class AsCompleted(_CHarness):
  """orchestrate.as_completed / WorkerPool.run over real CourierServers on the
  fake transport with a fault menu.

  params:
    W, T:     number of workers / tasks
    bad:      index of a task that raises ValueError (None: all succeed)
    ignore:   ignore_failures
    menu:     fault kinds offered for every maybe_make call ([] = fault free)
    driver:   'as_completed' | 'run' | 'call_and_wait'
    timeout:  call_timeout of the pool's workers
  """
  name = 'as_completed'
  tick = 15.0
  max_steps = 60000

  def __init__(self, W=2, T=2, bad=None, ignore=False, menu=(),
               driver='as_completed', timeout=60, mode='preempt', push=True,
               pause=False, bad_kind='raise', shuffle=False):
    self.params = dict(W=W, T=T, bad=bad, ignore=ignore, menu=list(menu),
                       driver=driver, timeout=timeout, mode=mode, push=push,
                       pause=pause, bad_kind=bad_kind, shuffle=shuffle)
    if pause:
      self.pause_focus = ('_as_completed', 'as_completed', 'run',
                          'call_and_wait', 'next_idle_worker', 'submit')
    self.mode = mode
    _m()

  def setup(self):
    m = _m()
    p = self.params
    lf = m.lazy_fns
    self.results, self.end = [], None
    self.after = None

    def body():
      clients = ()
      host = None
      if p['push']:
        # the environment of the upstream tests: a 'host' server lives in the
        # client process and the workers push heartbeats to it every 60 s
        host = m.courier_server.CourierServer('host')
        host.start()
        clients = ('host',)
      servers = [m.courier_server.CourierServer(f'w{i}', clients=clients)
                 for i in range(p['W'])]
      for s in servers:
        s.start()
      pool = m.courier_worker.WorkerPool(
          [f'w{i}' for i in range(p['W'])], call_timeout=p['timeout'])
      self.pool = pool
      pool.wait_until_alive(minimum_num_workers=p['W'])
      fake_courier.NET.menu = {'maybe_make': [
          k for k in p['menu'] if k != fake_courier.RESTART]}
      if fake_courier.RESTART in p['menu']:
        fake_courier.NET.menu['*'] = [fake_courier.RESTART]

      def factory(i):
        def make():
          _forget_server(m, f'w{i}')
          s = m.courier_server.CourierServer(f'w{i}', clients=clients)
          s.start()
          servers.append(s)
          return s
        return make
      fake_courier.NET.factories = {f'w{i}': factory(i) for i in range(p['W'])}
      # random.shuffle of the candidate workers as an environment choice (any
      # rotation, one deviation each) instead of the identity
      cenv._VRandom.choice_points = bool(p.get('shuffle'))
      tasks = []
      for i in range(p['T']):
        if p['bad'] == i and p.get('bad_kind') == 'unpicklable':
          # cannot be sent at all: submit()/call() fail on the client side
          tasks.append(lf.trace(fx.identity)(fx.Unpicklable(f'task{i}')))
        elif p['bad'] == i:
          tasks.append(lf.trace(fx.raiser)(f'task{i}'))
        else:
          tasks.append(lf.trace(fx.task_id)(i))
      try:
        if p['driver'] == 'as_completed':
          for r in m.orchestrate.as_completed(pool, tasks,
                                              ignore_failures=p['ignore']):
            self.results.append(r)
        elif p['driver'] == 'run':
          for t in tasks:
            self.results.append(pool.run(t))
        else:
          self.results.extend(pool.call_and_wait(tasks[0]))
        self.end = ('ok',)
      except sched.Abort:
        raise
      except BaseException as e:  # pylint: disable=broad-except
        self.end = ('exc', e)
      fake_courier.NET.menu = {}
      self.after = dict(
          acquired=[w.address for w in pool.acquired_workers],
          locked=[w.address for w in pool.all_workers if w.is_locked()],
          calls=list(fake_courier.NET.calls))
      for s in servers + ([host] if host else []):
        if s.has_started:
          s.stop()
    return body

  def outcome(self, res):
    return (res.failure and res.failure[0], tuple(sorted(map(repr, self.results))),
            self.end and self.end[0], tuple(self.after['locked']) if self.after else None)

  def _cfg(self):
    p = self.params
    bad = ('unpicklable-task' if p.get('bad_kind') == 'unpicklable'
           else 'bad-task')
    return (f'{p["driver"]}:W{p["W"]}:'
            f'{bad if p["bad"] is not None else "good-tasks"}'
            f'{"-ignored" if p["ignore"] else ""}:'
            f'{"push" if p["push"] else "pull"}-heartbeats')

  def check(self, res):
    p = self.params
    cfg = self._cfg()
    out = []
    if res.failure:
      kind, info = res.failure
      out.append((f'C06:tasks:{kind}{_stuck(kind, info)}:{cfg}',
                  {'failure': kind, 'info': _info(info)}))
      return out
    faults = [c for c in self.after['calls'] if c[2] != 'ok']
    fault = faults[0][2].split(':')[0] if faults else 'none'
    killed = {c[0] for c in faults if c[2] == 'kill'}
    usable = p['W'] - len(killed)
    expected = [('done', i) for i in range(p['T']) if i != p['bad']]
    if p['driver'] == 'call_and_wait':
      expected = [('done', 0)] * p['W'] if p['bad'] != 0 else []
    dup = [r for r, c in collections.Counter(self.results).items() if c > 1]
    if dup and p['driver'] != 'call_and_wait':
      out.append((f'C06:tasks:result-delivered-twice:{fault}:{cfg}',
                  {'results': self.results}))
    if set(self.results) - set(expected):
      out.append((f'C06:tasks:invented-result:{fault}:{cfg}',
                  {'results': self.results}))
    must_raise = p['bad'] is not None and not p['ignore']
    if p['driver'] == 'call_and_wait':
      must_raise = p['bad'] == 0
    if p['bad'] is not None and p.get('bad_kind') == 'unpicklable':
      must_raise = True     # a task that cannot be sent is a loud client error
    if self.end == ('ok',):
      if must_raise:
        out.append((f'C06:tasks:task-error-silently-dropped:{fault}:{cfg}',
                    {'results': self.results}))
      elif sorted(self.results) != sorted(expected):
        out.append((f'C06:tasks:results-missing:{fault}:{cfg}',
                    {'results': self.results, 'expected': expected}))
    else:
      e = self.end[1]
      if must_raise:
        if not (isinstance(e, Exception) and 'task' in str(e)
                and 'Timeout' not in type(e).__name__):
          # with faults a retriable error may surface first only if no worker
          # stayed usable; run()/call_and_wait() never retry, so there a
          # time-out style error is a legitimate (loud) outcome under a fault
          timeoutish = getattr(e, 'code', 0) == 4 or isinstance(e, TimeoutError)
          if usable > 0 and not (p['driver'] != 'as_completed' and faults
                                 and timeoutish):
            if p['driver'] == 'as_completed' and 'All workers timeout' in str(e):
              # same failure as in the good-task configurations: one signature
              out.append((f'C06:tasks:all-workers-timeout-although-a-worker-is-'
                          f'usable:{cfg}', {'end': repr(e)}))
            else:
              out.append((f'C06:tasks:wrong-error-for-failing-task:{fault}:{cfg}',
                          {'end': repr(e)}))
      elif p['driver'] != 'as_completed':
        # run()/call_and_wait() do not retry: a retriable transport error may
        # surface, but only as a time-out style error, never silently
        if not (getattr(e, 'code', 0) == 4 or isinstance(e, TimeoutError)):
          out.append((f'C06:tasks:wrong-error-under-fault:{fault}:{cfg}',
                      {'end': repr(e)}))
      elif usable > 0 and 'All workers timeout' in str(e):
        out.append((f'C06:tasks:all-workers-timeout-although-a-worker-is-usable:{cfg}',
                    {'end': repr(e), 'results': self.results,
                     'calls': self.after['calls']}))
      elif usable > 0:
        out.append((f'C06:tasks:unexpected-error-with-usable-worker:{fault}:{cfg}',
                    {'end': repr(e), 'results': self.results,
                     'calls': self.after['calls']}))
      elif not isinstance(e, (TimeoutError, RuntimeError, ValueError)):
        out.append((f'C06:tasks:wrong-error-when-no-worker-usable:{fault}:{cfg}',
                    {'end': repr(e)}))
    if self.after['acquired'] or self.after['locked']:
      how = 'after-error' if self.end != ('ok',) else 'after-success'
      out.append((f'C06:tasks:workers-left-acquired:{how}:{cfg}',
                  {'acquired': self.after['acquired'],
                   'locked': self.after['locked'], 'end': repr(self.end)}))
    return out


HARNESSES['as_completed'] = AsCompleted


# ===========================================================================
# C20 (b): worker ownership between pools
# ===========================================================================

class Ownership(_CHarness):
  """Two (three) WorkerPools over the same address share one Worker object
  (Worker is a singleton per configuration).  Each thread drives one pool
  through a short program of acquire/release operations.

  params:
    progs: one program per pool/thread, each a list of operations from
           'acq'      pool.next_idle_worker(maybe_acquire=True)
           'acq_all'  pool._acquire_all()
           'rel_all'  pool.release_all()
           'rel_list' pool.release_all(<explicit list of all its workers>)
           'rel_one'  worker.release() if the pool believes it owns the worker
    nworkers: 1 | 2 shared workers
  """
  name = 'ownership'
  max_steps = 8000

  def __init__(self, progs=(('acq',), ('acq',)), nworkers=1, mode='preempt'):
    self.params = dict(progs=[list(p) for p in progs], nworkers=nworkers,
                       mode=mode)
    self.mode = mode
    m = _m()
    hooks.instrument(m.courier_worker.Worker)

  def setup(self):
    m = _m()
    p = self.params
    self.violations = []
    self.beliefs = {}      # address -> pool index that believes it owns it
    self.trace = []

    def body():
      from vmc import vtime
      addrs = [f'w{i}' for i in range(p['nworkers'])]
      for a in addrs:
        m.courier_utils.worker_registry().register(a, vtime.time())
      pools = [m.courier_worker.WorkerPool(addrs) for _ in p['progs']]
      self.pools = pools
      assert all(x is y for x, y in zip(pools[0].all_workers,
                                        pools[1].all_workers))

      def claim(i, worker):
        a = worker.address
        other = self.beliefs.get(a)
        if other is not None and other != i:
          self.violations.append(
              ('two-owners', f'pool{i} acquired {a} while pool{other} owns it'))
        self.beliefs[a] = i

      def run(i):
        pool = pools[i]
        for op in p['progs'][i]:
          if op == 'acq':
            w = pool.next_idle_worker(maybe_acquire=True)
            self.trace.append((i, op, w and w.address))
            if w is not None:
              claim(i, w)
          elif op == 'acq_all':
            ws = pool._acquire_all()
            self.trace.append((i, op, [w.address for w in ws]))
            for w in ws:
              claim(i, w)
          elif op == 'rel_all':
            # ownership ends when the release starts (the release of several
            # workers is not one atomic step)
            mine = [a for a, o in self.beliefs.items() if o == i]
            for a in mine:
              del self.beliefs[a]
            pool.release_all()
            self.trace.append((i, op, mine))
          elif op == 'rel_list':
            # release_all with an explicit worker list (as as_completed passes
            # its unused workers): only what the pool owns may be released
            mine = [a for a, o in self.beliefs.items() if o == i]
            for a in mine:
              del self.beliefs[a]
            pool.release_all(list(pool.all_workers))
            self.trace.append((i, op, mine))
          elif op == 'rel_one':
            mine = [w for w in pool.all_workers
                    if self.beliefs.get(w.address) == i]
            if mine:
              del self.beliefs[mine[0].address]
              mine[0].release()
            self.trace.append((i, op, [w.address for w in mine[:1]]))
          # a pool that owns a worker must still hold it, whatever the others did
          for w in pool.all_workers:
            if self.beliefs.get(w.address) == i and not w.is_locked(pool):
              self.violations.append(
                  ('ownership-lost', f'pool{i} owns {w.address} but it is '
                   f'locked={w.is_locked()} by-me={w.is_locked(pool)}'))

      ts = [vthreading.Thread(target=run, args=(i,), name=f'pool{i}')
            for i in range(len(pools))]
      for t in ts:
        t.start()
      for t in ts:
        t.join()
      # final consistency: locked <=> exactly one believed owner
      for w in pools[0].all_workers:
        owner = self.beliefs.get(w.address)
        if w.is_locked() != (owner is not None):
          self.violations.append(
              ('locked-without-owner' if w.is_locked() else 'owner-without-lock',
               f'{w.address}: locked={w.is_locked()} believed-owner={owner}'))
        if owner is not None and w.worker_pool is not pools[owner]:
          self.violations.append(
              ('recorded-owner-differs',
               f'{w.address}: recorded pool is not pool{owner}'))
    return body

  def outcome(self, res):
    return (res.failure and res.failure[0], tuple(map(repr, self.trace)),
            tuple(v[0] for v in self.violations))

  def check(self, res):
    p = self.params
    cfg = '|'.join('+'.join(x) for x in p['progs']) + f':W{p["nworkers"]}'
    if res.failure:
      kind, info = res.failure
      return [(f'C20:ownership:{kind}{_stuck(kind, info)}:{cfg}',
               {'failure': kind, 'info': _info(info)})]
    out = []
    for kind in sorted({v[0] for v in self.violations}):
      ops = sorted({o for prog in p['progs'] for o in prog})
      out.append((f'C20:ownership:{kind}:ops={"+".join(ops)}',
                  {'violations': [v for v in self.violations if v[0] == kind][:3],
                   'trace': repr(self.trace), 'progs': p['progs']}))
    return out


HARNESSES['ownership'] = Ownership


# ===========================================================================
# C20 (a): liveness bookkeeping of a CourierClient over event histories
# ===========================================================================

LIVENESS_OPS = ('poll', 'tick30', 'tick200', 'push', 'push-dead', 'call', 'kill',
                'shutdown')


class Liveness(_CHarness):
  """One CourierClient + one CourierServer on the fake transport, driven
  sequentially through a history of liveness events (virtual time).

  params: ops - list of operations from LIVENESS_OPS; the harness appends a
  final 'poll'.  Observations after every operation: is the worker reported
  alive, the recorded heartbeat, the virtual time.
  """
  name = 'liveness'
  tick = 15.0
  max_steps = 20000
  THRESHOLD = 180.0

  def __init__(self, ops=(), mode='preempt', rejoin=False):
    self.params = dict(ops=list(ops), mode=mode, rejoin=rejoin)
    self.mode = mode
    _m()

  def setup(self):
    m = _m()
    p = self.params
    self.obs = []

    def body():
      from vmc import vtime
      server = m.courier_server.CourierServer('w0')
      server.start()
      client = m.courier_worker.Worker('w0', call_timeout=20,
                                       heartbeat_threshold_secs=self.THRESHOLD)
      reg = m.courier_utils.worker_registry()
      for op in list(p['ops']) + ['poll']:
        alive = None
        if op == 'poll':
          alive = client.is_alive
        elif op == 'tick30':
          vtime.sleep(30)
        elif op == 'tick200':
          vtime.sleep(200)
        elif op == 'push':
          # what the host server's heartbeat handler does for a pushed heartbeat
          server._heartbeat('w0', True)
        elif op == 'push-dead':
          server._heartbeat('w0', False)
        elif op == 'call':
          client.call(m.lazy_fns.trace(fx.add)(1, 2))
        elif op == 'kill':
          fake_courier.kill('w0')
        elif op == 'shutdown':
          client.shutdown()
        # let in-flight RPCs finish or expire before observing
        vtime.sleep(0.5)
        self.obs.append((op, alive, reg.get('w0'), vtime.time(),
                         reg.data.get('w0', 'absent') is None))
      if server.has_started:
        server.stop()
    return body

  def outcome(self, res):
    return (res.failure and res.failure[0],
            tuple((o[0], o[1], o[4]) for o in self.obs))

  def check(self, res):
    if res.failure:
      kind, info = res.failure
      return [(f'C20:liveness:{kind}{_stuck(kind, info)}',
               {'failure': kind, 'info': _info(info), 'ops': self.params['ops']})]
    out = []
    dead = False          # declared dead (shutdown / pushed not-alive)
    prev_hb = 0.0
    for i, (op, alive, hb, now, is_none) in enumerate(self.obs):
      if op in ('shutdown', 'push-dead'):
        dead = True
      elif op == 'push':
        dead = False
      if self.params.get('rejoin') and op == 'push' and not (
          hb and now - hb < 2.0):
        # C06 (workers may rejoin): a worker that announces itself alive again
        # - a fresh announcement, not a late reply - is recorded as alive
        out.append(('C06:rejoin:announced-alive-but-not-recorded',
                    {'ops': self.params['ops'], 'at': i, 'obs': self.obs}))
      if dead and (hb != 0 or not is_none):
        out.append(('C20:liveness:dead-worker-has-a-heartbeat-again',
                    {'ops': self.params['ops'], 'at': i, 'obs': self.obs}))
      if dead and alive:
        out.append(('C20:liveness:dead-worker-reported-alive',
                    {'ops': self.params['ops'], 'at': i, 'obs': self.obs}))
      if not dead and hb < prev_hb:
        out.append(('C20:liveness:heartbeat-moved-backwards',
                    {'ops': self.params['ops'], 'at': i, 'obs': self.obs}))
      if alive is not None:
        # liveness is a function of the recorded heartbeat and the threshold
        # (the poll itself takes < 1 s of virtual time)
        expect = (now - hb) < self.THRESHOLD
        near = abs((now - hb) - self.THRESHOLD) < 1.0
        if alive != expect and not near:
          out.append(('C20:liveness:alive-not-a-function-of-last-heartbeat',
                      {'ops': self.params['ops'], 'at': i, 'obs': self.obs}))
      prev_hb = 0.0 if dead else hb
    return out


HARNESSES['liveness'] = Liveness


# ===========================================================================
# C14: remote evaluation == local evaluation
# ===========================================================================

def c14_expressions(depth):
  """All lazy expressions of the C14 grammar up to a depth, as (name, builder)
  where builder(lf) returns the traced expression."""
  def ints(d):
    if d == 0:
      return [('1', lambda lf: 1), ('2', lambda lf: 2)]
    prev = ints(d - 1)
    sub = prev if d == 1 else prev[:6]
    out = []
    for (na, a) in sub:
      for (nb, b) in sub[:3]:
        out.append((f'add({na},{nb})',
                    lambda lf, a=a, b=b: lf.trace(fx.add)(a(lf), b(lf))))
        out.append((f'mul({na},b={nb})',
                    lambda lf, a=a, b=b: lf.trace(fx.mul)(a(lf), b=b(lf))))
        out.append((f'Box({na})({nb})',
                    lambda lf, a=a, b=b: lf.trace(fx.Box)(a(lf))(b(lf))))
        out.append((f'Box({na}).plus({nb}).v',
                    lambda lf, a=a, b=b: lf.trace(fx.Box)(a(lf)).plus(b(lf)).v))
      out.append((f"Box({na})['a']",
                  lambda lf, a=a: lf.trace(fx.Box)(a(lf))['a']))
      out.append((f"Box({na})['b'][1]",
                  lambda lf, a=a: lf.trace(fx.Box)(a(lf))['b'][1]))
      out.append((f'Box({na}).v', lambda lf, a=a: lf.trace(fx.Box)(a(lf)).v))
    return out

  exprs = []
  for d in range(1, depth + 1):
    exprs += ints(d)
  base = ints(1)[:4]
  for (na, a) in base:
    exprs.append((f'Box({na})', lambda lf, a=a: lf.trace(fx.Box)(a(lf))))
    exprs.append((f'make_list({na})',
                  lambda lf, a=a: lf.trace(fx.make_list)(a(lf))))
    exprs.append((f"identity(dict(p={na}))",
                  lambda lf, a=a: lf.trace(fx.identity)({'p': a(lf)})))
    # errors: same exception type and message
    exprs.append((f'add(raiser(),{na})',
                  lambda lf, a=a: lf.trace(fx.add)(lf.trace(fx.raiser)('e1'),
                                                  a(lf))))
    exprs.append((f"Box({na})['zz']",
                  lambda lf, a=a: lf.trace(fx.Box)(a(lf))['zz']))
    exprs.append((f'Box({na}).nope',
                  lambda lf, a=a: lf.trace(fx.Box)(a(lf)).nope))
    exprs.append((f"add({na},'s')",
                  lambda lf, a=a: lf.trace(fx.add)(a(lf), 's')))
  exprs.append(('raiser(m)', lambda lf: lf.trace(fx.raiser)('m')))
  exprs.append(('key_raiser(k)', lambda lf: lf.trace(fx.key_raiser)('k')))
  # exception classes a transport or client might treat specially
  for kind in fx.EXC_KINDS:
    args = ('m', 7) if kind == 'AppError' else ('m',)
    exprs.append((f'raise_kind({kind})', lambda lf, kind=kind, args=args:
                  lf.trace(fx.raise_kind)(kind, *args)))
    exprs.append((f'add(1,raise_kind({kind}))', lambda lf, kind=kind, args=args:
                  lf.trace(fx.add)(1, lf.trace(fx.raise_kind)(kind, *args))))
  for kind in ('TimeoutError', 'LockWaitTimeout', 'RuntimeError'):
    exprs.append((f'Busy().read({kind})', lambda lf, kind=kind:
                  lf.trace(fx.Busy)().read(kind)))
  # cached calls (at the root and nested), evaluated twice in a row
  cached = []
  for (na, a) in ints(1)[:6]:
    for flag in ('root', 'nested'):
      def build(lf, a=a, flag=flag):
        if flag == 'root':
          return lf.trace(fx.add)(a(lf), 1, cache_result_=True)
        return lf.trace(fx.add)(
            lf.trace(fx.mul)(a(lf), 2, cache_result_=True), 1)
      cached.append((f'add[{flag}-cached]({na},1)#cached', build))
      cached.append((f'add[{flag}-cached]({na},1)#cached', build))
  # arguments whose == is not a plain bool (numpy arrays), cached, and sent
  # several times as the same object
  import numpy as np
  arrays = []
  for flag in (False, True):
    tag = '#cached#same-object' if flag else '#same-object'
    arrays.append((f'add(arr,arr){tag}', lambda lf, flag=flag: lf.trace(fx.add)(
        np.array([1, 2]), np.array([3, 4]), cache_result_=flag)))
    arrays.append((f'identity(dict(a=arr)){tag}',
                   lambda lf, flag=flag: lf.trace(fx.identity)(
                       {'a': np.array([1.5, 2.5])}, cache_result_=flag)))
    arrays.append((f'mul(arr,b=2){tag}', lambda lf, flag=flag: lf.trace(fx.mul)(
        np.array([[1, 2], [3, 4]]), b=2, cache_result_=flag)))
  return exprs + cached + arrays


def _deep_equal(a, b):
  import numpy as np
  if type(a) is not type(b):
    return False
  if isinstance(a, np.ndarray):
    return a.shape == b.shape and a.dtype == b.dtype and bool(np.array_equal(a, b))
  if isinstance(a, dict):
    return a.keys() == b.keys() and all(_deep_equal(a[k], b[k]) for k in a)
  if isinstance(a, (list, tuple)):
    return len(a) == len(b) and all(_deep_equal(x, y) for x, y in zip(a, b))
  try:
    return bool(a == b)
  except Exception:  # pylint: disable=broad-except
    return False


def _same(a, b):
  import numpy as np
  if isinstance(a, BaseException) or isinstance(b, BaseException):
    return (type(a) is type(b) or
            # handler errors travel as text: compare type name and message
            False)
  try:
    return bool(a == b) and type(a) is type(b)
  except Exception:  # pylint: disable=broad-except
    return False


class RemoteEval(_CHarness):
  """params:
    part:   'exprs' (chunk i of n of the expression list) | 'remote-object' |
            'iterators' | 'shutdown' | 'two-clients'
    depth, chunk, nchunks: expression selection
    at:     shutdown position in a 3-call history
  """
  name = 'remote_eval'
  tick = 15.0
  max_steps = 200000

  def __init__(self, part='exprs', depth=2, chunk=0, nchunks=1, at=0,
               how='stop', mode='preempt'):
    self.params = dict(part=part, depth=depth, chunk=chunk, nchunks=nchunks,
                       at=at, how=how, mode=mode)
    self.mode = mode
    _m()

  def setup(self):
    m = _m()
    p = self.params
    lf = m.lazy_fns
    self.rows = []     # (name, local outcome, remote outcome)
    self.extra = []

    def local(expr):
      try:
        return ('ok', lf.maybe_make(expr))
      except sched.Abort:
        raise
      except BaseException as e:  # pylint: disable=broad-except
        return ('exc', type(e).__name__, str(e))

    def remote(client, expr):
      try:
        return ('ok', client.get_result(expr))
      except sched.Abort:
        raise
      except BaseException as e:  # pylint: disable=broad-except
        return ('exc', type(e).__name__, str(e))

    def body():
      server = m.courier_server.CourierServer('w0')
      server.start()
      client = m.courier_utils.CourierClient('w0', call_timeout=30)
      client.wait_until_alive()
      part = p['part']
      if part == 'exprs':
        exprs = c14_expressions(p['depth'])[p['chunk']::p['nchunks']]
        for name, build in exprs:
          expr = build(lf)
          self.rows.append((name, local(build(lf)), remote(client, expr)))
          if name.endswith('#same-object'):
            # the very same expression object (same persistent id) sent again:
            # the server finds it in its cache
            for k in (2, 3):
              self.rows.append((f'{name}#{k}', local(build(lf)),
                                remote(client, expr)))
      elif part == 'remote-object':
        ro = client.get_result(lf.trace(fx.Box)(3, lazy_result_=True))
        self.extra.append(('type', type(ro).__name__))
        import pickle
        blob = m.lazy_fns.pickler.dumps(ro)
        self.extra.append(('pickle-has-object', b'Box' in blob and b'items' in blob))
        box = fx.Box(3)
        for name, r, l in (
            ('v', lambda: ro.v.result_(), lambda: box.v),
            ('call', lambda: ro(5).result_(), lambda: box(5)),
            ('plus.v', lambda: ro.plus(2).v.result_(), lambda: box.plus(2).v),
            ('plus.call', lambda: ro.plus(2)(5).result_(), lambda: box.plus(2)(5)),
            ("['a']", lambda: ro['a'].result_(), lambda: box['a']),
            ("['b'][1]", lambda: ro['b'][1].result_(), lambda: box['b'][1]),
            ("['zz']", lambda: ro['zz'].result_(), lambda: box['zz']),
            ('nope', lambda: ro.nope.result_(), lambda: box.nope),
            ('self', lambda: ro.result_(), lambda: box)):
          def run(f):
            try:
              return ('ok', f())
            except sched.Abort:
              raise
            except BaseException as e:  # pylint: disable=broad-except
              return ('exc', type(e).__name__, str(e))
          self.rows.append((name, run(l), run(r)))
      elif part == 'iterators':
        for n in (0, 1, 3):
          ro = client.get_result(lf.trace(fx.make_list)(n, lazy_result_=True))
          got, ends = [], 0
          it = iter(ro)
          for _ in range(n + 3):
            try:
              got.append(next(it))
            except StopIteration:
              ends += 1
          self.rows.append((f'iter(list {n})', ('ok', (list(range(n)), 3)),
                            ('ok', (got, ends))))
          gen = client.get_result(lf.trace(fx.gen)(n, 'R', lazy_result_=True))
          it = m.courier_utils.RemoteIterator(gen)
          got, end = [], None
          try:
            while True:
              got.append(next(it))
          except StopIteration as e:
            end = e.value
          self.rows.append((f'RemoteIterator(gen {n})',
                            ('ok', ([('g', i) for i in range(n)], 'R')),
                            ('ok', (got, end))))
          # the async faces: __anext__ / async_get / async_get_batch
          from vmc import vasyncio
          loop = vasyncio.new_event_loop()

          async def drain(nxt):
            got = []
            try:
              while True:
                got.append(await nxt())
            except StopAsyncIteration as e:
              return got, tuple(e.args)

          gen2 = client.get_result(lf.trace(fx.gen)(n, 'AR', lazy_result_=True))
          ait = m.courier_utils.RemoteIterator(gen2)
          got, args = loop.run_until_complete(drain(ait.__anext__))
          self.rows.append((f'RemoteIterator.__anext__(gen {n})',
                            ('ok', ([('g', i) for i in range(n)], ('AR',))),
                            ('ok', (got, args))))
          aq = m.iter_utils.IteratorQueue(2, name='arq')
          aq.enqueue_from_iterator(fx.gen(min(n, 2), 'AQR'))
          arq = m.courier_utils.RemoteIteratorQueue.new(aq, server_addr=client)
          got, args = loop.run_until_complete(drain(arq.async_get))
          self.rows.append((f'RemoteIteratorQueue.async_get({n})',
                            ('ok', ([('g', i) for i in range(min(n, 2))], ('AQR',))),
                            ('ok', (got, args))))
          bq = m.iter_utils.IteratorQueue(2, name='brq')
          bq.enqueue_from_iterator(fx.gen(min(n, 2), 'BQR'))
          brq = m.courier_utils.RemoteIteratorQueue.new(bq, server_addr=client)
          got, args = loop.run_until_complete(drain(brq.async_get_batch))
          self.rows.append((f'RemoteIteratorQueue.async_get_batch({n})',
                            ('ok', ([('g', i) for i in range(min(n, 2))], ('BQR',))),
                            ('ok', ([x for b in got for x in b], args))))
          loop.close()
          # a remote queue fed on the server
          q = m.iter_utils.IteratorQueue(2, name='rq')
          q.enqueue_from_iterator(fx.gen(min(n, 2), 'QR'))
          rq = m.courier_utils.RemoteIteratorQueue.new(q, server_addr=client)
          got, end = [], None
          try:
            while True:
              got.append(rq.get())
          except StopIteration as e:
            end = e.value
          self.rows.append((f'RemoteIteratorQueue({n})',
                            ('ok', ([('g', i) for i in range(min(n, 2))], 'QR')),
                            ('ok', (got, end))))
      elif part == 'shutdown' and p['how'] == 'mid-call':
        # the shutdown request arrives while call `at` is being served
        calls = [lf.trace(fx.add)(1, 2), lf.trace(fx.mul)(2, 3),
                 lf.trace(fx.add)(3, 4)]
        mid = (lf.trace(fx.shutdown_then_raise)('w0') if p['at'] % 2 == 0 else
               lf.trace(fx.shutdown_then_return)('w0', 42))
        calls.insert(p['at'] // 2, mid)
        for i, expr in enumerate(calls):
          if expr is mid:
            want = (('exc', 'TimeoutError', None) if p['at'] % 2 == 0
                    else ('ok', 42))
            self.rows.append((f'call{i}@mid-call', want, remote(client, expr)))
            self.mid_index = i
          else:
            self.rows.append((f'call{i}@mid-call', local(expr),
                              remote(client, expr)))
      elif part == 'shutdown':
        calls = [lf.trace(fx.add)(1, 2), lf.trace(fx.mul)(2, 3),
                 lf.trace(fx.raiser)('late')]
        for i, expr in enumerate(calls):
          if i == p['at']:
            if p['how'] == 'stop':
              server.stop()
            elif p['how'] == 'client-shutdown':
              client.shutdown()
            else:
              server._request_shutdown()
          self.rows.append((f'call{i}@shutdown{p["at"]}', local(calls[i]),
                            remote(client, expr)))
      elif part == 'restart':
        # the same server object is stopped and started again (upstream:
        # test_shutdown_and_restart): afterwards it evaluates like a fresh one
        def exprs(tag):
          return [(f'add@{tag}', lf.trace(fx.add)(1, 2)),
                  (f'raiser@{tag}', lf.trace(fx.raiser)(tag)),
                  (f'Box(2)(3)@{tag}', lf.trace(fx.Box)(2)(3)),
                  (f'cached-mul@{tag}', lf.trace(fx.mul)(2, 3, cache_result_=True)),
                  (f'item-error@{tag}', lf.trace(fx.make_list)(2)[5])]
        for gen in range(p.get('at', 1) + 1):
          if gen:
            server.stop().join()
            server.start()
            client.wait_until_alive()
          for name, expr in exprs(f'gen{gen}'):
            self.rows.append((name, local(expr), remote(client, expr)))
      elif part == 'two-clients':
        c2 = m.courier_utils.CourierClient('w0', call_timeout=31)
        c2.wait_until_alive()

        def worker(c, tag):
          for name, build, want in (
              ('cached-add', lambda: lf.trace(fx.add)(1, 2, cache_result_=True), 3),
              ('Box(2)(3)', lambda: lf.trace(fx.Box)(2)(3), 6),
              ('raiser', lambda: lf.trace(fx.raiser)('both'),
               ('exc', 'ValueError', 'both'))):
            exp = want if isinstance(want, tuple) else ('ok', want)
            self.rows.append((f'{tag}:{name}', exp, remote(c, build())))
        ts = [vthreading.Thread(target=worker, args=(client, 'A'), name='clientA'),
              vthreading.Thread(target=worker, args=(c2, 'B'), name='clientB')]
        for t in ts:
          t.start()
        for t in ts:
          t.join()
      if server.has_started:
        server.stop()
    return body

  def outcome(self, res):
    return (res.failure and res.failure[0],
            tuple((n, r[0], r[1] if r[0] == 'exc' else repr(r[1])[:30])
                  for n, _, r in self.rows))

  def check(self, res):
    p = self.params
    if res.failure:
      kind, info = res.failure
      return [(f'C14:{p["part"]}:{kind}{_stuck(kind, info)}',
               {'failure': kind, 'info': _info(info), 'rows': repr(self.rows)[-600:]})]
    out = []
    for name, loc, rem in self.rows:
      if p['part'] == 'shutdown' and p['how'] == 'mid-call':
        i = int(name[4])
        mid = getattr(self, 'mid_index', 0)
        if i < mid:
          ok = self._agree(loc, rem)
        elif i == mid:
          # a call that fails while the server is shutting down is answered
          # with the retriable time-out error; one that succeeds keeps its value
          ok = (rem[0] == 'exc' and rem[1] == 'TimeoutError') if loc[0] == 'exc' \
              else (self._agree(loc, rem) or (
                  rem[0] == 'exc' and rem[1] == 'TimeoutError'))
        else:
          ok = self._agree(loc, rem) or (
              rem[0] == 'exc' and rem[1] in ('TimeoutError', 'RuntimeError',
                                             'StatusError'))
        if not ok:
          what = 'failing-call' if loc[0] == 'exc' and i == mid else 'call'
          out.append((f'C14:shutdown:mid-call:{what}-not-answered-with-timeout-or-value',
                      {'call': name, 'expected': repr(loc), 'remote': repr(rem)}))
        continue
      if p['part'] == 'shutdown':
        at = p['at']
        i = int(name[4])
        if i < at:
          ok = self._agree(loc, rem)
        else:
          # during/after shutdown: the right answer, or a retriable error
          ok = self._agree(loc, rem) or (
              rem[0] == 'exc' and rem[1] in ('TimeoutError', 'RuntimeError',
                                             'StatusError'))
        if not ok:
          out.append((f'C14:shutdown:{p["how"]}:wrong-answer',
                      {'call': name, 'local': repr(loc), 'remote': repr(rem)}))
        continue
      if not self._agree(loc, rem):
        kind = ('value' if loc[0] == rem[0] == 'ok' else
                'exception' if loc[0] == rem[0] == 'exc' else 'ok-vs-exception')
        shape = name.split('(')[0].split('[')[0].split('#')[0]
        cached = '#cached' if name.endswith('#cached') else ''
        out.append((f'C14:{p["part"]}:{kind}-differs:{shape}{cached}',
                    {'expr': name, 'local': repr(loc), 'remote': repr(rem)}))
    for k, v in self.extra:
      if k == 'type' and v != 'RemoteObject':
        out.append(('C14:remote-object:lazy-result-not-a-RemoteObject', {'type': v}))
      if k == 'pickle-has-object' and v:
        out.append(('C14:remote-object:pickle-contains-the-object', {}))
    return out

  @staticmethod
  def _agree(loc, rem):
    if loc[0] != rem[0]:
      return False
    if loc[0] == 'ok':
      return _deep_equal(loc[1], rem[1])
    # same exception type and message
    return loc[1] == rem[1] and loc[2] == rem[2]


HARNESSES['remote_eval'] = RemoteEval


# ===========================================================================
# C16 / C06 (b): pipelines on a worker pool
# ===========================================================================

class ShardedPipelines(_CHarness):
  """orchestrate.sharded_pipelines_as_iterator over PrefetchedCourierServers.

  params: W workers, S shards, total rows, batch size, ibs iterate_batch_size,
  fuse, menu (fault kinds for the generator RPCs), retry_threshold, agg
  """
  name = 'sharded'
  tick = 15.0
  max_steps = 150000
  max_clock = 2500.0

  def __init__(self, W=1, S=1, total=4, batch=2, ibs=1, fuse=True, menu=(),
               retry=None, agg=True, timeout=60, mode='preempt', push=True,
               slow=0, pause=False, sliced=False, shuffle=False):
    self.params = dict(W=W, S=S, total=total, batch=batch, ibs=ibs, fuse=fuse,
                       menu=list(menu), retry=retry, agg=agg, timeout=timeout,
                       mode=mode, push=push, slow=slow, pause=pause,
                       sliced=sliced, shuffle=shuffle)
    if pause:
      # the orchestrating loop may be arbitrarily slow at any one of its lines
      self.pause_focus = ('iterate', 'sharded_pipelines_as_iterator',
                          'compute_result', 'iterate_agg_state')
    self.mode = mode
    _m()

  def setup(self):
    m = _m()
    p = self.params
    from vmc import vqueue
    self.batches, self.end, self.results, self.after = [], None, [], None

    def body():
      clients = ()
      host = None
      if p['push']:
        host = m.courier_server.CourierServer('host')
        host.start()
        clients = ('host',)
      servers = [m.courier_server.PrefetchedCourierServer(
          f'w{i}', clients=clients, prefetch_size=2) for i in range(p['W'])]
      for s in servers:
        s.start()
      pool = m.courier_worker.WorkerPool(
          [f'w{i}' for i in range(p['W'])], call_timeout=p['timeout'],
          iterate_batch_size=p['ibs'])
      pool.wait_until_alive(minimum_num_workers=p['W'])
      per_call = [k for k in p['menu'] if k != fake_courier.KILL_OTHER]
      fake_courier.NET.menu = {'next_batch_from_generator': per_call,
                               'init_generator': per_call}
      per_call = [k for k in per_call if k != fake_courier.RESTART]
      fake_courier.NET.menu = {'next_batch_from_generator': per_call,
                               'init_generator': per_call}
      star = [k for k in (fake_courier.KILL_OTHER, fake_courier.RESTART)
              if k in p['menu']]
      if star:
        fake_courier.NET.menu['*'] = star

      def factory(i):
        def make():
          _forget_server(m, f'w{i}')
          s = m.courier_server.PrefetchedCourierServer(
              f'w{i}', clients=clients, prefetch_size=2)
          s.start()
          servers.append(s)
          return s
        return make
      fake_courier.NET.factories = {f'w{i}': factory(i) for i in range(p['W'])}
      cenv._VRandom.choice_points = bool(p.get('shuffle'))
      rq = vqueue.SimpleQueue() if p['agg'] else None
      kw = {}
      if p['retry'] is not None:
        kw['retry_threshold'] = p['retry']
      try:
        define = fx.sliced_pipeline if p['sliced'] else fx.sharded_pipeline
        for b in m.orchestrate.sharded_pipelines_as_iterator(
            pool, define, total=p['total'], batch_size=p['batch'],
            num_shards=p['S'], fuse=p['fuse'], agg=p['agg'], result_queue=rq,
            **kw):
          self.batches.append(b)
          if p['slow'] and len(self.batches) == 1:
            # a slow consumer: the workers run ahead (and may finish and die)
            # while the caller holds the first batch
            from vmc import vtime
            vtime.sleep(p['slow'])
        self.end = ('ok',)
      except sched.Abort:
        raise
      except BaseException as e:  # pylint: disable=broad-except
        self.end = ('exc', e)
      fake_courier.NET.menu = {}
      if rq is not None and self.end == ('ok',):
        from vmc import vtime
        waited = 0
        while rq.qsize() == 0 and waited < 50:
          vtime.sleep(1.0)
          waited += 1
        while rq.qsize():
          self.results.append(rq.get_nowait())
      self.after = dict(
          acquired=[w.address for w in pool.acquired_workers],
          locked=[w.address for w in pool.all_workers if w.is_locked()],
          calls=[c for c in fake_courier.NET.calls
                 if c[1] != 'heartbeat' or c[2] != 'ok'])
      for s in servers + ([host] if host else []):
        if s.has_started:
          s.stop()
    return body

  def reference(self):
    p = self.params
    define = fx.sliced_pipeline if p.get('sliced') else fx.sharded_pipeline
    it = define(p['total'], p['batch'], fuse=p['fuse'],
                agg=p['agg']).make().iterate()
    batches = [b for b in it]
    return batches, (it.agg_result if p['agg'] else None)

  def outcome(self, res):
    return (res.failure and res.failure[0], len(self.batches),
            self.end and self.end[0],
            tuple(repr(getattr(r, 'agg_result', r)) for r in self.results))

  def _cfg(self):
    p = self.params
    return (f'W{p["W"]}:S{p["S"]}:{"fused" if p["fuse"] else "unfused"}:'
            f'ibs{p["ibs"]}{":sliced" if p.get("sliced") else ""}')

  def check(self, res):
    p = self.params
    cfg = self._cfg()
    out = []
    if res.failure:
      kind, info = res.failure
      calls = [c for c in fake_courier.NET.calls
               if c[1] != 'heartbeat' or c[2] != 'ok']
      killed = _killed(calls)
      if kind == 'horizon' and len(killed) >= p['W']:
        # no worker stays usable: outside the property's precondition (the
        # driver polls for ever; the virtual-time horizon ends the run)
        return []
      prop = 'C06' if p['menu'] else 'C16'
      fault = next((c[2] for c in calls if c[2] != 'ok'), 'none')
      return [(f'{prop}:sharded:{kind}{_stuck(kind, info)}:{fault}:{cfg}',
               {'failure': kind, 'info': _info(info), 'calls': calls})]
    faults = [c for c in self.after['calls'] if c[2] != 'ok']
    prop = 'C06' if faults or p['menu'] else 'C16'
    fault = faults[0][2].split(':')[0] if faults else 'none'
    ref_batches, ref_agg = self.reference()
    norm = lambda b: repr(b)
    want = collections.Counter(map(norm, ref_batches))
    got = collections.Counter(map(norm, [b for b in self.batches]))
    killed = _killed(faults)
    usable = p['W'] - len(killed)
    if self.end == ('ok',):
      if set(got) - set(want):
        out.append((f'{prop}:sharded:invented-batch:{fault}:{cfg}',
                    {'got': sorted(got), 'want': sorted(want)}))
      missing = set(want) - set(got)
      if missing:
        out.append((f'{prop}:sharded:batch-not-delivered:{fault}:{cfg}',
                    {'missing': sorted(missing)}))
      if not faults and got != want:
        out.append((f'{prop}:sharded:batch-multiset-differs:{fault}:{cfg}',
                    {'got': sorted(got.items()), 'want': sorted(want.items())}))
      if p['agg']:
        if len(self.results) != 1:
          out.append((f'{prop}:sharded:aggregate-result-count:{fault}:{cfg}',
                      {'results': repr(self.results)}))
        else:
          r = self.results[0]
          val = getattr(r, 'agg_result', None)
          if not _agg_equal(val, ref_agg):
            out.append((f'{prop}:sharded:aggregate-differs:{fault}:{cfg}',
                        {'got': repr(val), 'want': repr(ref_agg)}))
    else:
      e = self.end[1]
      # The statement covers runs in which the retry budget is NOT exhausted.
      # One dead worker can cost several retries (the task is re-sent to it
      # until it is detected dead), so with a small budget a kill exhausts it;
      # which error the driver raises then is outside the statement (observed:
      # TimeoutError('Too many Timeouts') or, when the timed-out call could be
      # cancelled, concurrent.futures.CancelledError).
      exhausted = p['retry'] is not None and (
          len(faults) > p['retry'] or bool(killed))
      if usable > 0 and not exhausted:
        out.append((f'{prop}:sharded:unexpected-error-with-usable-worker:{fault}:{cfg}',
                    {'end': repr(e), 'calls': self.after['calls']}))
    if self.after['acquired'] or self.after['locked']:
      out.append((f'{prop}:sharded:workers-left-acquired:{cfg}',
                  {'after': self.after}))
    return out


def _killed(calls):
  """Workers that were killed at some point (a worker that rejoins later is
  still counted: 'one worker stays usable' is about the others)."""
  out = set()
  for c in calls:
    if c[2] == 'kill':
      out.add(c[0])
    elif c[2].startswith('kill-other:'):
      out.add(c[2].split(':', 1)[1])
  return out


def _forget_server(m, name):
  """The process behind `name` is gone: drop the singleton entry so that the
  next construction yields a fresh server object."""
  inst = m.courier_server._CourierServerSingleton._instances
  for k in [k for k in list(inst) if getattr(k, 'server_name', None) == name]:
    del inst[k]


def _agg_equal(a, b):
  try:
    if a is None or b is None:
      return a is b
    da = dict(a.items()) if hasattr(a, 'items') else a
    db = dict(b.items()) if hasattr(b, 'items') else b
    return da == db
  except Exception:  # pylint: disable=broad-except
    return False


HARNESSES['sharded'] = ShardedPipelines


class Interleaved(_CHarness):
  """orchestrate.run_pipeline_interleaved: stages of a chained pipeline run
  concurrently, connected by (Async)IteratorQueues; optionally the 'apply'
  stage runs on a worker pool fed through a RemoteIteratorQueue.

  params: total, batch, fuse, pool (bool), W, buf, nworkers (cap), threads
  """
  name = 'interleaved'
  tick = 15.0
  max_steps = 150000
  max_clock = 2500.0

  def __init__(self, total=4, batch=2, fuse=True, pool=False, W=1, buf=0,
               nworkers=None, mode='preempt', pause=False, menu=(),
               shuffle=False):
    self.params = dict(total=total, batch=batch, fuse=fuse, pool=pool, W=W,
                       buf=buf, nworkers=nworkers, mode=mode, pause=pause,
                       menu=list(menu), shuffle=shuffle)
    if pause:
      self.pause_focus = ('iterate_with_worker_pool', 'iterate_in_process',
                          'wait', 'wait_and_maybe_raise')
    self.mode = mode
    _m()

  def setup(self):
    m = _m()
    p = self.params
    self.batches, self.end, self.returned = [], None, None
    self.after = None

    def body():
      servers, host, master, pool = [], None, None, None
      if p['pool']:
        host = m.courier_server.CourierServer('host')
        host.start()
        servers = [m.courier_server.PrefetchedCourierServer(
            f'w{i}', clients=('host',)) for i in range(p['W'])]
        for s in servers:
          s.start()
        pool = m.courier_worker.WorkerPool([f'w{i}' for i in range(p['W'])])
        master = m.courier_server.CourierServer('master', clients=('host',))
      pipeline = fx.sharded_pipeline(p['total'], p['batch'], fuse=p['fuse'],
                                     num_threads=0)
      if p['menu']:
        fake_courier.NET.menu = {'maybe_make': list(p['menu'])}
      cenv._VRandom.choice_points = bool(p.get('shuffle'))
      res = {'datasource': m.orchestrate.RunnerResource(buffer_size=p['buf'])}
      if pool is not None:
        kw = {}
        if p['nworkers']:
          kw['num_workers'] = p['nworkers']
        res['apply'] = m.orchestrate.RunnerResource(worker_pool=pool,
                                                    buffer_size=p['buf'], **kw)
      try:
        with m.orchestrate.run_pipeline_interleaved(
            pipeline, master_server=master, resources=res,
            aggregate_only=False) as runner:
          for b in runner.result_queue:
            self.batches.append(b)
        self.returned = list(runner.result_queue.returned)
        self.end = ('ok',)
      except sched.Abort:
        raise
      except BaseException as e:  # pylint: disable=broad-except
        self.end = ('exc', e)
      fake_courier.NET.menu = {}
      if pool is not None:
        self.after = dict(
            acquired=[w.address for w in pool.acquired_workers],
            locked=[w.address for w in pool.all_workers if w.is_locked()])
      for s in servers + [x for x in (host, master) if x is not None]:
        if s.has_started:
          s.stop()
    return body

  def reference(self):
    p = self.params
    it = fx.sharded_pipeline(p['total'], p['batch'], fuse=p['fuse']).make().iterate()
    batches = [b for b in it]
    return batches, it.agg_result

  def outcome(self, res):
    return (res.failure and res.failure[0], tuple(map(repr, self.batches)),
            self.end and self.end[0], repr(self.returned)[:80])

  def check(self, res):
    p = self.params
    cfg = (f'{"pool" if p["pool"] else "in-process"}:'
           f'{"fused" if p["fuse"] else "unfused"}:buf{"0" if not p["buf"] else "N"}')
    prop = 'C16' if p['pool'] else 'C03'
    if res.failure:
      kind, info = res.failure
      return [(f'{prop}:interleaved:{kind}{_stuck(kind, info)}:{cfg}',
               {'failure': kind, 'info': _info(info)})]
    out = []
    if self.end != ('ok',):
      return [(f'{prop}:interleaved:raised:{cfg}', {'end': repr(self.end)})]
    ref_batches, ref_agg = self.reference()
    want = collections.Counter(map(repr, ref_batches))
    got = collections.Counter(map(repr, self.batches))
    if got != want:
      out.append((f'{prop}:interleaved:batch-multiset-differs:{cfg}',
                  {'got': sorted(got.items()), 'want': sorted(want.items())}))
    if not self.returned or len(self.returned) != 1:
      out.append((f'{prop}:interleaved:aggregate-result-count:{cfg}',
                  {'returned': repr(self.returned)}))
    else:
      val = getattr(self.returned[0], 'agg_result', None)
      if not _agg_equal(val, ref_agg):
        out.append((f'{prop}:interleaved:aggregate-differs:{cfg}',
                    {'got': repr(val), 'want': repr(ref_agg)}))
    if self.after and (self.after['acquired'] or self.after['locked']):
      out.append((f'{prop}:interleaved:workers-left-acquired:{cfg}',
                  {'after': self.after}))
    if res.leftover:
      left = [t for t in res.leftover if not t.startswith('h:')]
      if left:
        out.append((f'{prop}:interleaved:threads-left:{cfg}', {'left': left}))
    return out


HARNESSES['interleaved'] = Interleaved


# ===========================================================================
# C20 (a'): concurrent registry operations are linearizable w.r.t. the dict model
# ===========================================================================

def _reg_model(state, op):
  """Sequential reference: state = dict addr -> float | None."""
  kind, a = op[0], op[1]
  if kind == 'register':
    state[a] = op[2]
    return None
  if kind == 'refresh':
    if state.get(a, 0) is not None:
      state[a] = max(state.get(a, 0), op[2])
    return None
  if kind == 'unregister':
    state[a] = None
    return None
  return float(state.get(a, 0) or 0)


class RegistryRace(_CHarness):
  """params: init - list of ops applied sequentially first; progs - one list of
  registry operations per thread.  Oracle: returned values and the final
  registry content equal those of some interleaving of the programs on the
  sequential dict model (linearizability by brute force)."""
  name = 'registry_race'
  max_steps = 4000

  def __init__(self, init=(), progs=((), ()), mode='preempt'):
    self.params = dict(init=[list(o) for o in init],
                       progs=[[list(o) for o in p] for p in progs], mode=mode)
    self.mode = mode
    m = _m()
    hooks.instrument(m.courier_utils.WorkerRegistry, extra=('data',))

  def setup(self):
    m = _m()
    p = self.params
    self.results = [[None] * len(prog) for prog in p['progs']]
    self.final = None

    def apply(reg, op):
      kind, a = op[0], op[1]
      if kind == 'register':
        return reg.register(a, op[2])
      if kind == 'refresh':
        return reg.refresh(a, op[2])
      if kind == 'unregister':
        return reg.unregister(a)
      return reg.get(a)

    def body():
      reg = m.courier_utils.WorkerRegistry()
      for op in p['init']:
        apply(reg, op)

      def run(i):
        for k, op in enumerate(p['progs'][i]):
          r = apply(reg, op)
          self.results[i][k] = float(r) if r is not None else None
      ts = [vthreading.Thread(target=run, args=(i,), name=f'reg{i}')
            for i in range(len(p['progs']))]
      for t in ts:
        t.start()
      for t in ts:
        t.join()
      self.final = {k: v for k, v in object.__getattribute__(reg, 'data').items()}
    return body

  def outcome(self, res):
    return (res.failure and res.failure[0], repr(self.results), repr(self.final))

  def _sequential_outcomes(self):
    p = self.params
    progs = p['progs']
    outs = set()

    def rec(pos, state, results):
      if all(pos[i] == len(progs[i]) for i in range(len(progs))):
        outs.add((repr(results), repr(sorted(state.items(), key=str))))
        return
      for i in range(len(progs)):
        if pos[i] < len(progs[i]):
          st2 = dict(state)
          r = _reg_model(st2, progs[i][pos[i]])
          res2 = [list(x) for x in results]
          res2[i][pos[i]] = r
          pos2 = list(pos)
          pos2[i] += 1
          rec(pos2, st2, res2)
    state = {}
    for op in p['init']:
      _reg_model(state, op)
    rec([0] * len(progs), state, [[None] * len(x) for x in progs])
    return outs

  def check(self, res):
    p = self.params
    if res.failure:
      kind, info = res.failure
      return [(f'C20:registry-race:{kind}{_stuck(kind, info)}',
               {'failure': kind, 'info': _info(info), 'progs': p['progs']})]
    got = (repr(self.results), repr(sorted(self.final.items(), key=str)))
    if got not in self._sequential_outcomes():
      kinds = sorted({o[0] for prog in p['progs'] for o in prog})
      return [(f'C20:registry-race:not-linearizable:ops={"+".join(kinds)}',
               {'init': p['init'], 'progs': p['progs'], 'results': self.results,
                'final': repr(self.final)})]
    return []


HARNESSES['registry_race'] = RegistryRace
