"""Canonical structural fingerprint of live Python objects (for explicit-state BFS).

`fingerprint(*roots)` walks the object graph below the roots (dataclass /
__dict__ / __slots__ objects, dict, list, tuple, set, Counter, ndarray, numpy
Generator, scalars) and returns a string that is equal for two graphs iff they
have the same values (floats rounded to 10 significant digits) **and the same
sharing pattern between mutable objects** (an array or list referenced from
two places is numbered once and referred to by its number).  Two histories of
a deterministic object that lead to equal fingerprints have equal futures, so
deduplicating BFS states by fingerprint is sound; in particular a state in
which two accumulators alias one buffer is *not* merged with the state where
they hold equal but separate buffers, and a state with a filled result cache is
not merged with the same state without it.

Nothing run-dependent (ids, addresses) enters the fingerprint.
"""
from __future__ import annotations

import collections
import dataclasses
import enum
import math
import types

import numpy as np


def _f(x):
  if isinstance(x, float):
    if math.isnan(x):
      return 'nan'
    return '%.10g' % x
  return repr(x)


def _slots(obj):
  names = []
  for klass in type(obj).__mro__:
    s = klass.__dict__.get('__slots__', ())
    if isinstance(s, str):
      s = (s,)
    for n in s:
      if n not in ('__dict__', '__weakref__') and n not in names:
        names.append(n)
  return names


def _walk(x, memo, out, depth):
  if depth > 40:
    out.append('<deep>')
    return
  if x is None or isinstance(x, (bool, int, str, bytes)):
    out.append(repr(x) if not isinstance(x, enum.Enum) else str(x))
    return
  if isinstance(x, float):
    out.append(_f(x))
    return
  if isinstance(x, np.generic):
    out.append('np:' + _f(x.item()))
    return
  if isinstance(x, (types.FunctionType, types.BuiltinFunctionType,
                    types.MethodType, type, types.ModuleType)):
    out.append('<fn %s>' % getattr(x, '__qualname__', getattr(x, '__name__', '?')))
    return
  if isinstance(x, tuple):
    out.append('(')
    for v in x:
      _walk(v, memo, out, depth + 1)
      out.append(',')
    out.append(')')
    return
  # ---- mutable / identity-carrying objects: number them at first visit ----
  oid = id(x)
  if oid in memo:
    out.append('<ref %d>' % memo[oid][0])
    return
  memo[oid] = (len(memo), x)   # keep x alive so that ids stay unique
  tag = '#%d' % memo[oid][0]
  if isinstance(x, np.ndarray):
    out.append('%snd%s%s[' % (tag, x.dtype.kind, x.shape))
    if x.dtype.kind == 'O':
      for v in x.ravel().tolist():
        _walk(v, memo, out, depth + 1)
        out.append(',')
    else:
      out.append(','.join(_f(v) for v in x.ravel().tolist()))
    out.append(']')
    return
  if isinstance(x, np.random.Generator):
    out.append('%srng%r' % (tag, x.bit_generator.state))
    return
  if isinstance(x, dict):
    out.append('%s%s{' % (tag, type(x).__name__))
    items = list(x.items())
    if not isinstance(x, collections.OrderedDict):
      items.sort(key=lambda kv: repr(kv[0]))
    for k, v in items:
      _walk(k, memo, out, depth + 1)
      out.append(':')
      _walk(v, memo, out, depth + 1)
      out.append(',')
    out.append('}')
    return
  if isinstance(x, list):
    out.append('%s[' % tag)
    for v in x:
      _walk(v, memo, out, depth + 1)
      out.append(',')
    out.append(']')
    return
  if isinstance(x, (set, frozenset)):
    out.append('%sset{%s}' % (tag, ','.join(sorted(repr(v) for v in x))))
    return
  # ---- generic object ------------------------------------------------------
  fields = {}
  if hasattr(x, '__dict__'):
    fields.update(vars(x))
  for n in _slots(x):
    if hasattr(x, n):
      fields[n] = getattr(x, n)
  if not fields and not dataclasses.is_dataclass(x) and not hasattr(x, '__dict__'):
    out.append('%s<%s>' % (tag, type(x).__name__))
    return
  out.append('%s%s(' % (tag, type(x).__name__))
  for k in sorted(fields):
    out.append(k + '=')
    _walk(fields[k], memo, out, depth + 1)
    out.append(',')
  out.append(')')


def fingerprint(*roots) -> str:
  memo, out = {}, []
  for r in roots:
    _walk(r, memo, out, 0)
    out.append('|')
  return ''.join(out)
