"""Reference interpreter for C12: a pipeline that drops exactly the failing work.

Plain lists and dicts; imports nothing from the library under test.

A stream element is an int (scalar mode) or a list of ints (a batch of rows).
A row value encodes its origin: value % STAGE // 10 is the index of the stream
element it came from (streams of up to STAGE / 10 elements, so that sources
longer than the reader's internal windows fit), so "belongs to a failing
element" is decidable wherever the row travels.  A record starts as
{'x': element}; ops[0] is always the apply that produces that record (k = 0),
further ops follow:

  apply   fresh record {'x': x + STAGE k}; with fbs the rows are regrouped into
          chunks of fbs before the call, with bs the results are regrouped into
          batches of bs
  assign  record + {'y<k>': x + STAGE k}                 (one call per record)
  filter  keep the record iff element_of(first row) % 4 != 3
  sink    write x, forward the record

At most one stage `fail_at` (index into ops, or None) raises when its call sees
a row of an element in `failing`; the work of that call is dropped, everything
else is delivered once, in order.

A data source may be cut into `k` contiguous shards (`shard_range`): the first
n mod k shards hold one element more; shard i of k delivers exactly the
elements of its range, whatever the source is assembled from.
"""

STAGE = 100000


def rows_of(x):
  return x if isinstance(x, list) else [x]


def element_of(row):
  return row % STAGE // 10


def add(x, k):
  return [r + STAGE * k for r in x] if isinstance(x, list) else x + STAGE * k


def keep(x):
  return element_of(rows_of(x)[0]) % 4 != 3


def _chunks(rows, size):
  return [rows[i:i + size] for i in range(0, len(rows), size)]


def run(elements, ops, fail_at, failing):
  """-> (output records, {op index: [written x, ...]}, did any call fail?)."""
  recs, written, failed = [{'x': e} for e in elements], {}, []
  for i, op in enumerate(ops):

    def bad(x, i=i):
      hit = i == fail_at and any(element_of(r) in failing for r in rows_of(x))
      failed.extend([i] if hit else [])
      return hit

    k, xs = op.get('k'), [r['x'] for r in recs]
    if op['kind'] == 'apply':
      calls = _chunks([r for x in xs for r in x], op['fbs']) if op['fbs'] else xs
      outs = [add(c, k) for c in calls if not bad(c)]
      if op['bs']:
        outs = _chunks([r for o in outs for r in o], op['bs'])
      recs = [{'x': x} for x in outs]
    elif op['kind'] == 'assign':
      recs = [dict(r, **{'y%d' % k: add(r['x'], k)})
              for r in recs if not bad(r['x'])]
    elif op['kind'] == 'filter':
      recs = [r for r in recs if not bad(r['x']) and keep(r['x'])]
    else:
      recs = [r for r in recs if not bad(r['x'])]
      written[i] = [r['x'] for r in recs]
  return recs, written, bool(failed)


def first_failure(elements, ops, fail_at, failing):
  """Smallest m such that processing elements[:m] makes a call fail, or None."""
  # no call can fail before a row of a failing element is in the stream
  first = next((j for j, e in enumerate(elements)
                if any(element_of(r) in failing for r in rows_of(e))), None)
  if fail_at is None or first is None or not run(
      elements, ops, fail_at, failing)[2]:
    return None   # (a failure met by a prefix is met by every longer stream)
  for m in range(first + 1, len(elements) + 1):
    if run(elements[:m], ops, fail_at, failing)[2]:
      return m
  return None


def shard_range(n, i, k):
  """[lo, hi) of shard i of k over n elements (documented contiguous split)."""
  q, r = divmod(n, k)
  lo = i * q + min(i, r)
  return lo, lo + q + (1 if i < r else 0)
