"""Catalogue of every shipped mergeable accumulator (shared by C01 and C11).

One `Entry` per (class, configuration).  An entry knows

* how to make a fresh accumulator (`factory`) and, where the class offers one,
  its AggregateFn (`aggfn_factory`),
* its *row alphabet* - three or four rows chosen to collide (NaN entries,
  ragged rankings, bin-edge values, repeated tokens, ...),
* how a tuple of rows becomes the positional arguments of one `add()` call,
* how a `result()` becomes plain comparable data (`canon`; dict of named
  components so that a mismatch can be attributed to a component),
* flags: order_carrying, randomized, cheap, empty_batch_ok, row_at_a_time,
* its *null rows* (C11): rows that advance a counter / denominator / "seen"
  component of the state without contributing to its main table, so that a
  state built from them alone is empty in one component and not in another
  (texts too short for an n-gram, an all-NaN row, a ranking without a hit, a
  value outside the histogram range, a zero, ...).  Indices >= len(alphabet)
  address them in `rows()`; a null row may repeat an alphabet row (1-d NaN,
  PatternFrequency 'xyz').  Entries without `null_rows` keep no such second
  component (Counter, samplers, value accumulators, MinMaxAndCount, confusion
  matrices: every row lands in the one table).

The library is only imported inside the factories; everything that *judges*
(plain(), diff(), the sampler oracle) is plain Python on lists/dicts/floats.

Drivers give C01/C11 one vocabulary for both public APIs:
    fresh() -> s ; add(s, rows) -> s ; merge(a, b) -> a' ; merge_all([s..]) -> s
    observe(s) -> canonical plain result
"""
from __future__ import annotations

import collections
import dataclasses
import math
from typing import Any, Callable

import numpy as np

NAN = float('nan')
RTOL, ATOL = 1e-9, 1e-12


# --------------------------------------------------------------------------
# plain data + comparison (the judging part; no library imports)
# --------------------------------------------------------------------------

def plain(x, depth=0):
  """Converts a result into nested dict/list of python scalars."""
  if depth > 12:
    return repr(x)
  if x is None or isinstance(x, (bool, str, bytes)):
    return x
  if isinstance(x, (int, float)):
    return x
  if isinstance(x, np.generic):
    return x.item()
  if isinstance(x, np.ndarray):
    return plain(x.tolist(), depth + 1)
  if isinstance(x, collections.Counter):
    return {'Counter': sorted(([plain(k, depth + 1), plain(v, depth + 1)]
                               for k, v in x.items()), key=repr)}
  if isinstance(x, dict):
    return {str(k): plain(v, depth + 1) for k, v in x.items()}
  if isinstance(x, tuple) and hasattr(x, '_fields'):
    return {f: plain(v, depth + 1) for f, v in zip(x._fields, x)}
  if isinstance(x, (list, tuple)):
    return [plain(v, depth + 1) for v in x]
  return repr(x)


def _num(x):
  return isinstance(x, (int, float)) and not isinstance(x, bool)


def close(a, b, rtol=RTOL, atol=ATOL):
  if _num(a) and _num(b):
    fa, fb = float(a), float(b)
    if math.isnan(fa) or math.isnan(fb):
      return math.isnan(fa) and math.isnan(fb)
    if math.isinf(fa) or math.isinf(fb):
      return fa == fb
    return abs(fa - fb) <= atol + rtol * abs(fb)
  return None


def diff(a, b, path='', rtol=RTOL, atol=ATOL):
  """First path at which two plain values differ, else None."""
  c = close(a, b, rtol, atol)
  if c is not None:
    return None if c else (path or '.')
  if type(a) is not type(b) and not (_num(a) and _num(b)):
    if isinstance(a, (list, tuple)) and isinstance(b, (list, tuple)):
      pass
    else:
      return (path or '.') + ':type'
  if isinstance(a, dict):
    if sorted(a) != sorted(b):
      return (path or '.') + ':keys'
    for k in a:
      d = diff(a[k], b[k], f'{path}/{k}', rtol, atol)
      if d:
        return d
    return None
  if isinstance(a, (list, tuple)):
    if len(a) != len(b):
      return (path or '.') + ':len'
    for i, (x, y) in enumerate(zip(a, b)):
      d = diff(x, y, f'{path}[{i}]', rtol, atol)
      if d:
        return d
    return None
  return None if a == b else (path or '.')


def diff_components(a, b, rtol=RTOL, atol=ATOL):
  """Names of the top-level components (dict keys) that differ; [] if equal.

  Non-dict values, or dicts with different key sets, give ['.'].
  """
  if isinstance(a, dict) and isinstance(b, dict) and sorted(a) == sorted(b):
    return [k for k in sorted(a)
            if diff(a[k], b[k], '', rtol, atol) is not None]
  return [] if diff(a, b, '', rtol, atol) is None else ['.']


def digest(x):
  """Stable rounded text of a plain value (for outcome counting / dedup)."""
  if isinstance(x, float):
    if math.isnan(x):
      return 'nan'
    return '%.10g' % x
  if isinstance(x, dict):
    return '{' + ','.join(f'{k}:{digest(v)}' for k, v in sorted(x.items())) + '}'
  if isinstance(x, (list, tuple)):
    return '[' + ','.join(digest(v) for v in x) + ']'
  return repr(x)


class Raised:
  """Outcome of an operation that raised."""

  def __init__(self, op, exc):
    self.op = op
    self.kind = type(exc).__name__
    self.msg = str(exc)[:300]

  def plain(self):
    return {'raised': self.kind, 'in': self.op}


# --------------------------------------------------------------------------
# entries and drivers
# --------------------------------------------------------------------------

def _default_canon(result, state):
  del state
  p = plain(result)
  return p if isinstance(p, dict) else {'value': p}


@dataclasses.dataclass
class Entry:
  name: str                    # class name
  cfg: str                     # configuration label
  family: str
  alphabet: tuple              # rows (plain hashable data)
  to_batch: Callable[[tuple], tuple]        # rows -> positional args of add()
  factory: Callable[[], Any] | None = None  # fresh metric (metric API)
  aggfn_factory: Callable[[], Any] | None = None
  canon: Callable[[Any, Any], dict] = _default_canon
  order_carrying: bool = False   # result keeps the order of the rows
  randomized: bool = False       # reservoir sampler: only size/membership fixed
  cheap: bool = False            # scalar family: N = 5 in the thorough tier
  empty_batch_ok: bool = False   # add() of an empty batch is part of the domain
  row_at_a_time: bool = False    # one add() call per row (no batch notion)
  custom_add: Callable[[Any, tuple], Any] | None = None  # for states without add()
  per_example: Callable[[Any, int], dict] | None = None  # add() output -> row i
  sig_tag: str = ''              # coarse configuration class used in signatures
  classify: Callable[[tuple], str] | None = None  # dataset -> narrow input class
  bfs_batches: tuple | None = None   # (b1, b2) as tuples of alphabet indices
  randomized_oracle: Callable[[dict, tuple], list] | None = None
  tol: dict | None = None        # component -> (rtol, atol); default RTOL, ATOL
  offset: bool = False           # large-offset alphabet (C01 only)
  noncanon: bool = False         # non-canonical list-valued config (C01 only)
  null_rows: tuple = ()          # counter-only rows (see module docstring)

  def _tol(self, comp):
    return (self.tol or {}).get(comp, (RTOL, ATOL))

  def diff_components(self, a, b):
    """diff_components() with this entry's per-component tolerances."""
    if not self.tol:
      return diff_components(a, b)
    if isinstance(a, dict) and isinstance(b, dict) and sorted(a) == sorted(b):
      return [k for k in sorted(a)
              if diff(a[k], b[k], '', *self._tol(k)) is not None]
    return diff_components(a, b)

  def diff(self, a, b):
    comps = self.diff_components(a, b)
    if not comps or comps == ['.']:
      return diff(a, b) if comps else None
    k = comps[0]
    return diff(a[k], b[k], f'/{k}', *self._tol(k))

  @property
  def key(self):
    return f'{self.name}[{self.cfg}]'

  @property
  def signame(self):
    # no [] in signatures: they are matched with fnmatch globs
    return self.name + (f'({self.sig_tag})' if self.sig_tag else '')

  def rows(self, idx):
    pool = self.alphabet + self.null_rows if self.null_rows else self.alphabet
    return tuple(pool[i] for i in idx)

  def drivers(self):
    out = []
    if self.factory is not None:
      out.append(MetricDriver(self))
    if self.aggfn_factory is not None:
      out.append(AggFnDriver(self))
    return out

  def driver(self, api):
    return MetricDriver(self) if api == 'metric' else AggFnDriver(self)

  def input_class(self, rows):
    return self.classify(rows) if self.classify else ''


class MetricDriver:
  """metric.add / merge / result."""
  api = 'metric'

  def __init__(self, entry):
    self.e = entry

  def fresh(self):
    return self.e.factory()

  def add(self, s, rows):
    e = self.e
    if e.custom_add is not None:
      e.custom_add(s, rows)
    elif e.row_at_a_time:
      for r in rows:
        s.add(*e.to_batch((r,)))
    else:
      s.add(*e.to_batch(rows))
    return s

  def add_raw(self, s, rows):
    """add() of one batch, returning what add() returned."""
    return s.add(*self.e.to_batch(rows))

  def merge(self, a, b):
    a.merge(b)
    return a

  def merge_all(self, states):
    acc = states[0]
    for s in states[1:]:
      acc.merge(s)
    return acc

  def observe(self, s):
    return self.e.canon(s.result(), s)


class AggFnDriver:
  """AggregateFn.create_state / update_state / merge_states / get_result."""
  api = 'aggfn'

  def __init__(self, entry):
    self.e = entry
    self.fn = entry.aggfn_factory()

  def fresh(self):
    return self.fn.create_state()

  def add(self, s, rows):
    e = self.e
    if e.row_at_a_time:
      for r in rows:
        s = self.fn.update_state(s, *e.to_batch((r,)))
      return s
    return self.fn.update_state(s, *e.to_batch(rows))

  def merge(self, a, b):
    return self.fn.merge_states([a, b])

  def merge_all(self, states):
    return self.fn.merge_states(list(states))

  def observe(self, s):
    return self.e.canon(self.fn.get_result(s), s)


# --------------------------------------------------------------------------
# batch builders / canonicalisers
# --------------------------------------------------------------------------

def col(rows):
  """rows of scalars -> one list argument."""
  return (list(rows),)


def arr2d(width):
  def f(rows):
    return (np.asarray(rows, dtype=float).reshape(len(rows), width),)
  return f


def cols(n):
  """rows of n-tuples -> n list arguments (column-wise)."""
  def f(rows):
    return tuple([r[i] for r in rows] for i in range(n))
  return f


def cols_list(n):
  """like cols(), but every cell becomes a list (ragged rankings)."""
  def f(rows):
    return tuple([list(r[i]) for r in rows] for i in range(n))
  return f


def _has_nan_class(rows):
  flat = []
  for r in rows:
    flat.extend(r if isinstance(r, tuple) else (r,))
  return 'nan-entries' if any(isinstance(v, float) and v != v for v in flat) else 'finite'


def _canon_mean(result, state):
  del state
  return {'mean': plain(result)}


def _canon_mv(result, state):
  del state
  return {'count': plain(result.count), 'mean': plain(result.mean),
          'var': plain(result.var)}


def _canon_var(result, state):
  del state
  return {'var': plain(result)}


def _canon_minmax(result, state):
  del state
  return {'count': plain(result.count), 'min': plain(result.min),
          'max': plain(result.max)}


def _canon_sampler(result, state):
  return {'reservoir': plain(result),
          'reviewed': plain(getattr(state, 'num_samples_reviewed', None))}


def _sampler_oracle(max_size):
  def check(got, rows):
    problems = []
    res = got.get('reservoir')
    if not isinstance(res, list) or len(res) != min(max_size, len(rows)):
      problems.append('size')
    else:
      have = collections.Counter(rows)
      if collections.Counter(res) - have:
        problems.append('membership')
    if got.get('reviewed') != len(rows):
      problems.append('reviewed-count')
    return problems
  return check


def _canon_cm_obj(cm):
  out = {'tp': plain(cm.tp), 'tn': plain(cm.tn), 'fp': plain(cm.fp),
         'fn': plain(cm.fn)}
  out['k'] = plain(cm.k) if hasattr(cm, 'k') else 'absent'
  return out


def _canon_cm_result(result, state):
  del state
  out = {}
  if not isinstance(result, dict):
    result = {'value': result}
  for k, v in result.items():
    k = str(k)
    if hasattr(v, 'tp') and hasattr(v, 'fn'):
      for kk, vv in _canon_cm_obj(v).items():
        out[f'{k}.{kk}'] = vv
    else:
      out[k] = plain(v)
  return out


def _canon_dict(result, state):
  del state
  if isinstance(result, dict):
    return {str(k): plain(v) for k, v in result.items()}
  return {'value': plain(result)}


def _canon_value_acc_flat(result, state):
  """ValueAccumulator without concat_fn: one stored value per add() call."""
  del state
  return {'value': plain(result)}


def _extend_last(vals, n):
  vals = list(vals)
  if vals and len(vals) < n:
    vals = vals + [vals[-1]] * (n - len(vals))
  return vals


def _topk_per_example(k_list):
  nk = len(k_list) if k_list else 1
  def f(add_out, i):
    # Appendix B: a k beyond the longest prediction repeats the last value.
    return {str(m): _extend_last(plain(np.asarray(v)[i]), nk)
            for m, v in add_out.items()}
  return f


def _samplewise_per_example(add_out, i):
  return {str(m): plain(np.asarray(v)[i]) for m, v in add_out.items()}


# --------------------------------------------------------------------------
# the catalogue
# --------------------------------------------------------------------------

def _score2(batch):
  return np.asarray(batch, dtype=float) * 2 + 1


def _build():
  E = []

  def add(**kw):
    E.append(Entry(**kw))

  def rs():
    from ml_metrics._src.aggregates import rolling_stats
    return rolling_stats

  def agg_of(factory):
    return lambda: factory().as_agg_fn()

  # ---- rolling stats: Mean / MeanAndVariance / Var -------------------------
  one_d = (NAN, 1.0, 3.0)
  two_d = ((NAN, 1.0), (2.0, NAN), (2.0, 5.0))
  for cls, canon in (('Mean', _canon_mean), ('MeanAndVariance', _canon_mv),
                     ('Var', _canon_var)):
    def mk(cls=cls, **kw):
      return lambda: getattr(rs(), cls)(**kw)
    add(name=cls, cfg='1d', family='rolling', alphabet=one_d, to_batch=col,
        factory=mk(), aggfn_factory=agg_of(mk()), canon=canon, cheap=True,
        classify=_has_nan_class, null_rows=(NAN,))
    add(name=cls, cfg='2d', family='rolling', alphabet=two_d,
        to_batch=arr2d(2), factory=mk(), aggfn_factory=agg_of(mk()),
        canon=canon, classify=_has_nan_class, null_rows=((NAN, NAN),))
    add(name=cls, cfg='1d,batch_score_fn', family='rolling', alphabet=one_d,
        to_batch=col, factory=mk(batch_score_fn=_score2),
        aggfn_factory=agg_of(mk(batch_score_fn=_score2)), canon=canon,
        cheap=True, classify=_has_nan_class, null_rows=(NAN,))

  # ---- MinMaxAndCount (non-negative data: documented as counts) -----------
  def mmc(**kw):
    return lambda: rs().MinMaxAndCount(**kw)
  add(name='MinMaxAndCount', cfg='axis=None', family='rolling',
      alphabet=(0.0, 2.0, 5.0), to_batch=col, factory=mmc(),
      aggfn_factory=agg_of(mmc()), canon=_canon_minmax, cheap=True)
  add(name='MinMaxAndCount', cfg='axis=None,batch_score_fn', family='rolling',
      alphabet=(0.0, 2.0, 5.0), to_batch=col,
      factory=mmc(batch_score_fn=_score2),
      aggfn_factory=agg_of(mmc(batch_score_fn=_score2)),
      canon=_canon_minmax, cheap=True)
  add(name='MinMaxAndCount', cfg='axis=0,2d', family='rolling',
      alphabet=((0.0, 4.0), (2.0, 1.0), (3.0, 3.0)), to_batch=arr2d(2),
      factory=mmc(axis=0), aggfn_factory=agg_of(mmc(axis=0)),
      canon=_canon_minmax, sig_tag='axis=0')

  # ---- Histogram (explicit range or edges: required for merging) ----------
  def hist(**kw):
    return lambda: rs().Histogram(**kw)
  add(name='Histogram', cfg='range=(0,4),bins=2', family='rolling',
      alphabet=(NAN, 0.5, 2.0, 4.0), to_batch=col,
      factory=hist(range=(0, 4), bins=2),
      aggfn_factory=agg_of(hist(range=(0, 4), bins=2)), cheap=True,
      empty_batch_ok=True, null_rows=(9.0,))
  add(name='Histogram', cfg='edges=(0,1,3,4)', family='rolling',
      alphabet=(0.5, 1.0, 4.0), to_batch=col,
      factory=hist(bins=(0, 1, 3, 4)),
      aggfn_factory=agg_of(hist(bins=(0, 1, 3, 4))), cheap=True,
      empty_batch_ok=True, null_rows=(9.0,))
  add(name='Histogram', cfg='range=(0,4),bins=2,weights', family='rolling',
      alphabet=((0.5, 2.0), (2.0, 0.5), (4.0, 1.0)), to_batch=cols(2),
      factory=hist(range=(0, 4), bins=2),
      aggfn_factory=agg_of(hist(range=(0, 4), bins=2)), cheap=True,
      null_rows=((0.5, 0.0), (9.0, 1.0)))

  # ---- Counter / samplers / ValueAccumulator ------------------------------
  add(name='Counter', cfg='default', family='rolling',
      alphabet=('a', 'b', 7), to_batch=col,
      factory=lambda: rs().Counter(),
      aggfn_factory=agg_of(lambda: rs().Counter()), cheap=True,
      empty_batch_ok=True)
  add(name='UnboundedSampler', cfg='single-input', family='rolling',
      alphabet=(1, 2, 'x'), to_batch=col,
      factory=lambda: rs().UnboundedSampler(),
      aggfn_factory=agg_of(lambda: rs().UnboundedSampler()),
      order_carrying=True, cheap=True, empty_batch_ok=True)
  add(name='UnboundedSampler', cfg='two-inputs', family='rolling',
      alphabet=((1, 'p'), (2, 'q'), (1, 'q')), to_batch=cols(2),
      factory=lambda: rs().UnboundedSampler(),
      aggfn_factory=agg_of(lambda: rs().UnboundedSampler()),
      order_carrying=True, cheap=True)
  for ms in (1, 2, 3):
    def fss(ms=ms):
      return lambda: rs().FixedSizeSample(max_size=ms, seed=0)
    add(name='FixedSizeSample', cfg=f'max_size={ms},seed=0', family='rolling',
        alphabet=(1, 2, 3), to_batch=col, factory=fss(),
        aggfn_factory=agg_of(fss()), canon=_canon_sampler, randomized=True,
        randomized_oracle=_sampler_oracle(ms), cheap=True, empty_batch_ok=True)

  def _concat(x, y):
    return x + y

  def va(*a):
    return lambda: rs().ValueAccumulator(*a)
  add(name='ValueAccumulator', cfg='default(one value per add)',
      family='rolling', alphabet=(1, 2, 'x'), to_batch=lambda rows: (rows[0],),
      factory=va(), aggfn_factory=agg_of(va()), canon=_canon_value_acc_flat,
      order_carrying=True, row_at_a_time=True, cheap=True)
  add(name='ValueAccumulator', cfg='concat_fn=list+', family='rolling',
      alphabet=(1, 2, 'x'), to_batch=col, factory=va(_concat),
      aggfn_factory=agg_of(va(_concat)), canon=_canon_value_acc_flat,
      order_carrying=True, cheap=True, empty_batch_ok=True)
  add(name='ValueAccumulator', cfg='concat_fn=list+,two-inputs',
      family='rolling', alphabet=((1, 'p'), (2, 'q'), (1, 'q')),
      to_batch=cols(2), factory=va(_concat), aggfn_factory=agg_of(va(_concat)),
      canon=_canon_value_acc_flat, order_carrying=True, cheap=True)
  fns = {'sum': sum, 'len': len, 'first': lambda xs: xs[0]}
  add(name='ValueAccumulator', cfg='concat_fn=list+,metric_fns', family='rolling',
      alphabet=(1.0, 2.0, 4.0), to_batch=col, factory=va(_concat, fns),
      aggfn_factory=agg_of(va(_concat, fns)), canon=_canon_dict,
      order_carrying=True, cheap=True)

  # ---- Tjur R^2, r-regression, symmetric prediction difference ------------
  tjur = ((1, 0.75), (0, 0.25), (0, 0.5))
  for cls in ('R2Tjur', 'R2TjurRelative'):
    def mk(cls=cls):
      return lambda: getattr(rs(), cls)()
    add(name=cls, cfg='default', family='rolling', alphabet=tjur,
        to_batch=cols(2), factory=mk(), aggfn_factory=agg_of(mk()), cheap=True,
        empty_batch_ok=True, null_rows=((1, 0.0), (0, 0.0)))
  for center in (True, False):
    def rr(center=center):
      return lambda: rs().RRegression(center=center)
    add(name='RRegression', cfg=f'center={center},x-1d', family='rolling',
        alphabet=((1.0, 2.0), (2.0, 1.0), (4.0, 5.0)),
        to_batch=lambda rows: (np.asarray([r[0] for r in rows], dtype=float),
                               np.asarray([r[1] for r in rows], dtype=float)),
        factory=rr(), aggfn_factory=agg_of(rr()), cheap=True,
        null_rows=((0.0, 0.0),))
    add(name='RRegression', cfg=f'center={center},x-2d', family='rolling',
        alphabet=(((1.0, 0.0), 2.0), ((2.0, 3.0), 1.0), ((4.0, 1.0), 5.0)),
        to_batch=lambda rows: (
            np.asarray([r[0] for r in rows], dtype=float).reshape(len(rows), 2),
            np.asarray([r[1] for r in rows], dtype=float)),
        factory=rr(), aggfn_factory=agg_of(rr()),
        null_rows=(((0.0, 0.0), 0.0),))
  add(name='SymmetricPredictionDifference', cfg='default', family='rolling',
      alphabet=((1.0, 3.0), (0.0, 0.0), (2.0, -2.0)), to_batch=cols(2),
      factory=lambda: rs().SymmetricPredictionDifference(),
      aggfn_factory=agg_of(lambda: rs().SymmetricPredictionDifference()),
      cheap=True, empty_batch_ok=True, null_rows=((0.0, 0.0),))

  # ---- helpers (aggregates/utils.py) --------------------------------------
  def ut():
    from ml_metrics._src.aggregates import utils
    return utils
  add(name='MeanState', cfg='scalar', family='helpers',
      alphabet=(1.0, 2.0, 4.0), to_batch=col,
      factory=lambda: ut().MeanState(), cheap=True, empty_batch_ok=True,
      null_rows=(0.0,))
  add(name='MeanState', cfg='vector', family='helpers',
      alphabet=((1.0, 0.0), (2.0, 2.0), (4.0, 1.0)), to_batch=arr2d(2),
      factory=lambda: ut().MeanState(), null_rows=((0.0, 0.0),))
  add(name='TupleMeanState', cfg='two-inputs', family='helpers',
      alphabet=((1.0, 8.0), (2.0, 2.0), (4.0, 1.0)), to_batch=cols(2),
      factory=lambda: ut().TupleMeanState(), cheap=True,
      null_rows=((0.0, 0.0),))

  def freq_add(s, rows):
    # a row None is an item that was reviewed but has no key (null row)
    s.merge(ut().FrequencyState(
        counter=collections.Counter(r for r in rows if r is not None),
        count=len(rows)))
  add(name='FrequencyState', cfg='default', family='helpers',
      alphabet=('a', 'b', 'c'), to_batch=col,
      factory=lambda: ut().FrequencyState(), custom_add=freq_add, cheap=True,
      empty_batch_ok=True, null_rows=(None,))

  # ---- classification ------------------------------------------------------
  def cl():
    from ml_metrics._src.aggregates import classification
    return classification
  CM_METRICS = ('confusion_matrix', 'precision', 'recall', 'f1_score',
                'specificity', 'binary_accuracy')
  binary = ((1, 1), (1, 0), (0, 1), (0, 0))
  binary_s = (('Y', 'Y'), ('Y', 'N'), ('N', 'Y'), ('N', 'N'))
  mclass = (('a', 'a'), ('b', 'c'), ('c', 'a'))
  moutput = ((('a',), ('a', 'b')), (('b', 'c'), ('c',)),
             (('a', 'c'), ('b', 'a', 'c')))
  indic3 = (((1, 0, 0), (1, 0, 0)), ((0, 1, 0), (0, 0, 1)),
            ((0, 0, 1), (1, 0, 0)))
  indic2 = (((1, 0), (1, 0)), ((0, 1), (1, 0)), ((1, 0), (0, 1)))
  vocab = {'a': 0, 'b': 1, 'c': 2}
  dummy_vocab = {0: 0, 1: 1}

  def arr_cols(rows):
    return (np.asarray([r[0] for r in rows]), np.asarray([r[1] for r in rows]))

  def cmfn(**kw):
    return lambda: cl().ConfusionMatrixAggFn(metrics=CM_METRICS, **kw)
  cm_cfgs = [
      ('binary/binary', binary, cols(2), dict(), ''),
      ('binary/binary,pos_label=Y', binary_s, cols(2), dict(pos_label='Y'), ''),
      ('binary/micro', binary, cols(2), dict(average='micro'), ''),
      ('binary/macro+vocab', binary, cols(2),
       dict(average='macro', vocab=dummy_vocab), ''),
      ('multiclass/micro+vocab', mclass, cols(2),
       dict(input_type='multiclass', average='micro', vocab=vocab), ''),
      ('multiclass/macro+vocab', mclass, cols(2),
       dict(input_type='multiclass', average='macro', vocab=vocab), ''),
      ('multiclass/micro,no-vocab', mclass, cols(2),
       dict(input_type='multiclass', average='micro'), 'micro,no-vocab'),
      ('multioutput/micro+vocab', moutput, cols_list(2),
       dict(input_type='multiclass-multioutput', average='micro', vocab=vocab),
       ''),
      ('multioutput/macro+vocab', moutput, cols_list(2),
       dict(input_type='multiclass-multioutput', average='macro', vocab=vocab),
       ''),
      ('indicator/micro', indic3, arr_cols,
       dict(input_type='multiclass-indicator', average='micro'), ''),
      ('indicator/macro+vocab', indic3, arr_cols,
       dict(input_type='multiclass-indicator', average='macro',
            vocab=dummy_vocab), ''),
      ('indicator/binary', indic2, arr_cols,
       dict(input_type='multiclass-indicator', average='binary'), ''),
  ]
  for cfg, alpha, tb, kw, tag in cm_cfgs:
    add(name='ConfusionMatrixAggFn', cfg=cfg, family='classification',
        alphabet=alpha, to_batch=tb, aggfn_factory=cmfn(**kw),
        canon=_canon_cm_result, sig_tag=tag)

  def topkcm(**kw):
    return lambda: cl().TopKConfusionMatrixAggFn(metrics=CM_METRICS, **kw)
  for cfg, alpha, tb, kw in [
      ('multioutput/micro+vocab,k=(1,2)', moutput, cols_list(2),
       dict(input_type='multiclass-multioutput', average='micro', vocab=vocab,
            k_list=(1, 2))),
      ('multioutput/macro+vocab,k=(1,3)', moutput, cols_list(2),
       dict(input_type='multiclass-multioutput', average='macro', vocab=vocab,
            k_list=(1, 3))),
      ('multiclass/micro+vocab,k=(1,2)', mclass, cols(2),
       dict(input_type='multiclass', average='micro', vocab=vocab,
            k_list=(1, 2))),
  ]:
    add(name='TopKConfusionMatrixAggFn', cfg=cfg, family='classification',
        alphabet=alpha, to_batch=tb, aggfn_factory=topkcm(**kw),
        canon=_canon_cm_result)

  SW_METRICS = ('precision', 'recall', 'f1_score', 'accuracy')

  def sw(**kw):
    return lambda: cl().SamplewiseClassification(**kw)
  for cfg, alpha, tb, kw, tag in [
      ('multiclass+vocab', mclass, cols(2),
       dict(metrics=SW_METRICS, input_type='multiclass', vocab=vocab), ''),
      ('multioutput+vocab', moutput, cols_list(2),
       dict(metrics=SW_METRICS, input_type='multiclass-multioutput',
            vocab=vocab), ''),
      ('multioutput,no-vocab', moutput, cols_list(2),
       dict(metrics=SW_METRICS, input_type='multiclass-multioutput'), ''),
      ('multioutput,no-vocab,tn-metrics', moutput, cols_list(2),
       dict(metrics=('specificity', 'binary_accuracy'),
            input_type='multiclass-multioutput'), 'no-vocab'),
      ('indicator', indic3, arr_cols,
       dict(metrics=SW_METRICS + ('specificity',),
            input_type='multiclass-indicator'), ''),
      ('multioutput+vocab,metrics=str', moutput, cols_list(2),
       dict(metrics='precision', input_type='multiclass-multioutput',
            vocab=vocab), ''),
  ]:
    pe = None if isinstance(kw['metrics'], str) else _samplewise_per_example
    add(name='SamplewiseClassification', cfg=cfg, family='classification',
        alphabet=alpha, to_batch=tb, factory=sw(**kw),
        aggfn_factory=agg_of(sw(**kw)), canon=_canon_dict, per_example=pe,
        sig_tag=tag)

  def mc():
    from ml_metrics._src.metrics import classification
    return classification

  def clsfn(**kw):
    return lambda: mc().ClassificationAggFn(**kw)
  add(name='ClassificationAggFn', cfg='binary/binary', family='classification',
      alphabet=binary, to_batch=cols(2),
      aggfn_factory=clsfn(metrics=CM_METRICS), canon=_canon_cm_result)
  add(name='ClassificationAggFn', cfg='multioutput/samples+vocab',
      family='classification', alphabet=moutput, to_batch=cols_list(2),
      aggfn_factory=clsfn(metrics=SW_METRICS, average='samples', vocab=vocab,
                          input_type='multiclass-multioutput'),
      canon=_canon_dict)
  add(name='ClassificationAggFn', cfg='multioutput/micro+vocab,k=(1,2)',
      family='classification', alphabet=moutput, to_batch=cols_list(2),
      aggfn_factory=clsfn(metrics=('precision', 'recall'), average='micro',
                          vocab=vocab, input_type='multiclass-multioutput',
                          k_list=(1, 2)),
      canon=_canon_cm_result)

  calib = ((1.0, 0.75), (0.0, 0.25), (1.0, 0.5), (0.0, 1.0))
  for bins in (2, 4):
    add(name='CalibrationHistogram', cfg=f'bins={bins}', family='classification',
        alphabet=calib,
        to_batch=lambda rows: (np.asarray([r[0] for r in rows], dtype=float),
                               np.asarray([r[1] for r in rows], dtype=float)),
        factory=(lambda bins=bins: mc().CalibrationHistogram(bins=bins)),
        cheap=True, null_rows=((0.0, 0.0),))

  # ---- retrieval -------------------------------------------------------------
  def rt():
    from ml_metrics._src.aggregates import retrieval
    return retrieval
  # rankings of length 1..3 over 3 ids; row 0 has more labels than predictions
  ragged = ((('a', 'b'), ('b',)), (('a', 'b'), ('c', 'a')),
            (('b',), ('a', 'b', 'c')))
  len3 = ((('a',), ('a', 'b', 'c')), (('a', 'b'), ('c', 'a', 'b')),
          (('b', 'c', 'a'), ('b', 'a', 'c')))

  def ragged_class(rows):
    lens = {len(r[1]) for r in rows}
    return 'ragged-predictions' if len(lens) > 1 else 'equal-length-predictions'

  # rankings without a single hit: every MeanState count advances, (nearly)
  # every total stays 0
  no_hit = {'ragged': ((('c',), ('a', 'b')),),
            'len3': ((('d',), ('a', 'b', 'c')),)}

  def topk(**kw):
    return lambda: rt().TopKRetrieval(**kw)
  for kl in (None, (1,), (1, 2), (1, 3), (2, 5)):
    for label, alpha in (('ragged', ragged), ('len3', len3)):
      add(name='TopKRetrieval', cfg=f'k_list={kl},{label}', family='retrieval',
          alphabet=alpha, to_batch=cols_list(2), factory=topk(k_list=kl),
          aggfn_factory=agg_of(topk(k_list=kl)), canon=_canon_dict,
          per_example=_topk_per_example(kl), classify=ragged_class,
          null_rows=no_hit[label])
  add(name='TopKRetrieval', cfg='k_list=(1,2),metrics=str,len3',
      family='retrieval', alphabet=len3, to_batch=cols_list(2),
      factory=topk(k_list=(1, 2), metrics='precision'),
      aggfn_factory=agg_of(topk(k_list=(1, 2), metrics='precision')),
      canon=_canon_dict, classify=ragged_class, null_rows=no_hit['len3'])

  thr_rows = ((('a', 'b'), ('a', 'c', 'b'), (0.9, 0.8, 0.3)),
              (('c',), ('c',), (0.6,)),
              (('a',), ('b', 'a'), (0.7, 0.2)))
  for th in ((0.0,), (0.0, 0.5)):
    add(name='ThresholdedRetrieval', cfg=f'thresholds={th}', family='retrieval',
        alphabet=thr_rows, to_batch=cols_list(3),
        factory=(lambda th=th: rt().ThresholdedRetrieval(thresholds=th)),
        canon=_canon_dict,
        null_rows=((('a',), ('b',), (0.9,)), (('c',), ('b', 'a'), (0.1, 0.1))))

  # ---- text ----------------------------------------------------------------
  def tx():
    from ml_metrics._src.aggregates import text
    return text
  texts = ('a b a', 'b c', 'A b.')
  for kw in (dict(k=1, n=1), dict(k=2, n=1), dict(k=1, n=2), dict(k=2, n=2),
             dict(k=2, n=1, use_first_ngram_only=True),
             dict(k=2, n=1, count_duplicate=False)):
    label = ','.join(f'{k}={v}' for k, v in kw.items())
    # texts that are counted but yield no n-gram: fewer than n words, no letter
    short = ('zz', '7.') if kw['n'] > 1 else ('7.', '')
    add(name='TopKWordNGrams', cfg=label, family='text', alphabet=texts,
        to_batch=col, factory=(lambda kw=kw: tx().TopKWordNGrams(**kw)),
        aggfn_factory=agg_of(lambda kw=kw: tx().TopKWordNGrams(**kw)),
        empty_batch_ok=True, null_rows=short)
  for cd in (True, False):
    add(name='PatternFrequency', cfg=f'count_duplicate={cd}', family='text',
        alphabet=('abab', 'b', 'xyz'), to_batch=col,
        factory=(lambda cd=cd: tx().PatternFrequency(
            patterns=('ab', 'b'), count_duplicate=cd)),
        aggfn_factory=agg_of(lambda cd=cd: tx().PatternFrequency(
            patterns=('ab', 'b'), count_duplicate=cd)),
        empty_batch_ok=True, null_rows=('xyz',))
  return E


# --------------------------------------------------------------------------
# large-offset alphabets (C01): |value| >> spread
# --------------------------------------------------------------------------
#
# The property holds "up to floating-point rounding".  The alphabets above are
# small integers, for which every formula is exact; a merge formula that is
# algebraically right but cancels catastrophically (raw second moments,
# E[x^2] - mean^2) is only visible when the values are far from zero compared
# with their spread.  Every accumulator whose result is a numeric statistic is
# therefore listed a second time over rows offset + {0, 1, 3} (offset 1e8) and
# offset + {0.1, 2.7, 5.3} (offset 1.7e9, epoch seconds; not dyadic, so sums
# do round), 2-D with a large-offset
# column next to a small column and NaN entries and a negative offset.
#
# Tolerances: what a numerically sane implementation meets, measured on the
# unchanged tree (worst observed relative deviation from the one-batch result
# over the whole enumerated space, see TOL_* below), plus >= 2 orders of
# magnitude; a cancelling formula is off by >= 1e-1 relative on these rows.

OFF_A = 1e8
OFF_B = 1.7e9
# mean of values ~1e8..1.7e9: observed <= 2.0e-16 relative to the mean
TOL_MEAN = (1e-13, 0.0)
# var: observed <= 9.93e-8 relative to the one-batch var (column -3e8 + {0,
# 0.3}: var 0.0225, ulp of the values 6e-8); where the one-batch var is 0 up
# to rounding (equal rows) observed <= 5.7e-14 absolute (= ulp(1.7e9)^2).
TOL_VAR = (1e-5, 1e-9)
TOL_EXACT = (0.0, 0.0)


def _build_offset():
  E = []

  def add(**kw):
    E.append(Entry(offset=True, sig_tag='large-offset', **kw))

  def rs():
    from ml_metrics._src.aggregates import rolling_stats
    return rolling_stats

  def ut():
    from ml_metrics._src.aggregates import utils
    return utils

  def agg_of(factory):
    return lambda: factory().as_agg_fn()

  a1 = (OFF_A, OFF_A + 1.0, OFF_A + 3.0)
  b1 = (OFF_B + 0.1, OFF_B + 2.7, OFF_B + 5.3)   # not dyadic: sums do round
  # large-offset column | small column with NaN | negative offset with NaN
  mixed = ((OFF_A, 1.0, -3e8), (OFF_A + 1.0, NAN, -3e8 + 0.3),
           (OFF_A + 3.0, 5.0, NAN))
  mv_tol = {'mean': TOL_MEAN, 'var': TOL_VAR, 'count': TOL_EXACT}
  for cls, canon in (('Mean', _canon_mean), ('MeanAndVariance', _canon_mv),
                     ('Var', _canon_var)):
    def mk(cls=cls):
      return lambda: getattr(rs(), cls)()
    for cfg, alpha, tb in (('1d,offset=1e8', a1, col),
                           ('1d,offset=1.7e9', b1, col),
                           ('2d,offset=(1e8|small+nan|-3e8+nan)', mixed,
                            arr2d(3))):
      add(name=cls, cfg=cfg, family='rolling', alphabet=alpha, to_batch=tb,
          factory=mk(), aggfn_factory=agg_of(mk()), canon=canon,
          classify=_has_nan_class, tol=mv_tol)

  def mmc(**kw):
    return lambda: rs().MinMaxAndCount(**kw)
  exact3 = {'count': TOL_EXACT, 'min': TOL_EXACT, 'max': TOL_EXACT}
  add(name='MinMaxAndCount', cfg='axis=None,offset=1.7e9', family='rolling',
      alphabet=b1, to_batch=col, factory=mmc(), aggfn_factory=agg_of(mmc()),
      canon=_canon_minmax, tol=exact3)
  add(name='MinMaxAndCount', cfg='axis=0,2d,offset=(1e8|1.7e9)',
      family='rolling',
      alphabet=((OFF_A, OFF_B + 5.0), (OFF_A + 1.0, OFF_B),
                (OFF_A + 3.0, OFF_B + 2.0)),
      to_batch=arr2d(2), factory=mmc(axis=0), aggfn_factory=agg_of(mmc(axis=0)),
      canon=_canon_minmax, tol=exact3)

  def hist(**kw):
    return lambda: rs().Histogram(**kw)
  add(name='Histogram', cfg='range=(1e8,1e8+4),bins=2', family='rolling',
      alphabet=(OFF_A + 0.5, OFF_A + 2.0, OFF_A + 4.0), to_batch=col,
      factory=hist(range=(OFF_A, OFF_A + 4), bins=2),
      aggfn_factory=agg_of(hist(range=(OFF_A, OFF_A + 4), bins=2)),
      empty_batch_ok=True)
  add(name='Histogram', cfg='range=(1.7e9,1.7e9+6),bins=3,weights',
      family='rolling',
      alphabet=((OFF_B, 2.0), (OFF_B + 2.0, 0.5), (OFF_B + 5.0, 1.0)),
      to_batch=cols(2), factory=hist(range=(OFF_B, OFF_B + 6), bins=3),
      aggfn_factory=agg_of(hist(range=(OFF_B, OFF_B + 6), bins=3)))

  # pointwise 2|x-y|/|x+y| ~ 1e-8: sum / n
  add(name='SymmetricPredictionDifference', cfg='offset=(1e8,1.7e9)',
      family='rolling',
      alphabet=((OFF_A + 1.0, OFF_A + 3.0), (OFF_A, OFF_A),
                (OFF_B + 2.0, OFF_B - 3.0)),
      to_batch=cols(2),
      factory=lambda: rs().SymmetricPredictionDifference(),
      aggfn_factory=agg_of(lambda: rs().SymmetricPredictionDifference()),
      empty_batch_ok=True, tol={'value': (1e-12, 0.0)})

  # reflective correlation sum(xy)/sqrt(sum(xx) sum(yy)): no cancellation.
  # (center=True is E[xy]-E[x]E[y] by construction, in one batch as well: its
  # one-batch result is itself noise at this offset, nothing to compare with.)
  add(name='RRegression', cfg='center=False,x-1d,offset=1e8', family='rolling',
      alphabet=((OFF_A, 2.0), (OFF_A + 1.0, 1.0), (OFF_A + 3.0, 5.0)),
      to_batch=lambda rows: (np.asarray([r[0] for r in rows], dtype=float),
                             np.asarray([r[1] for r in rows], dtype=float)),
      factory=lambda: rs().RRegression(center=False),
      aggfn_factory=agg_of(lambda: rs().RRegression(center=False)),
      tol={'value': (1e-12, 0.0)})

  add(name='MeanState', cfg='scalar,offset=1.7e9', family='helpers',
      alphabet=b1, to_batch=col, factory=lambda: ut().MeanState(),
      empty_batch_ok=True, tol={'value': TOL_MEAN})
  add(name='MeanState', cfg='vector,offset=(1e8|small)', family='helpers',
      alphabet=((OFF_A, 0.0), (OFF_A + 1.0, 2.0), (OFF_A + 3.0, 1.0)),
      to_batch=arr2d(2), factory=lambda: ut().MeanState(),
      tol={'value': TOL_MEAN})
  add(name='TupleMeanState', cfg='two-inputs,offset=(1e8,1.7e9)',
      family='helpers',
      alphabet=((OFF_A, OFF_B + 5.0), (OFF_A + 1.0, OFF_B), (OFF_A + 3.0, OFF_B + 2.0)),
      to_batch=cols(2), factory=lambda: ut().TupleMeanState(),
      tol={'value': TOL_MEAN})
  return E


# --------------------------------------------------------------------------
# non-canonical list-valued configurations (C01)
# --------------------------------------------------------------------------
#
# The property quantifies over "all metric configurations (k-list, vocabulary,
# bins)".  The entries above give every list-valued configuration in its
# canonical form (ascending, duplicate-free k_list / thresholds, a vocabulary
# whose insertion order is its index order, patterns and metric names in the
# default order).  An accumulator that normalises its configuration per batch
# (sorted(k_list), set(k_list), sorted(thresholds), vocab[label]) and then
# truncates / pads it by the batch's longest prediction only produces a batch
# dependent *column order* when the configuration is not already canonical.
# Every accumulator with a list- or mapping-valued configuration is therefore
# listed again with that configuration
#   * permuted with a larger value before a smaller one among the non-maximal
#     values ((2,1,3)), descending ((3,1), (2,1)), with a value beyond the
#     longest prediction after an inversion ((2,1,5)), and with duplicates
#     ((2,2,1), thresholds (0.65,0.25,0,0.25));
#   * vocabulary {'c':0,'a':2,'b':1}: neither alphabetical nor in index order;
#   * metric-name lists in a non-default order (names stay unique: a repeated
#     name is not a configuration the property quantifies over, and
#     TopKRetrieval.merge folds the state of a repeated name twice);
#   * patterns in non-sorted order,
# over the same colliding row alphabets (ragged rankings of length 1..3, so
# the longest prediction differs between the batches and shards of a history).
# Histogram edges must be increasing (numpy raises otherwise), PatternFrequency
# patterns must be unique (the constructor raises): outside the domain.
# TopKRetrieval keeps an empty sig_tag on purpose: the known per-batch-k
# findings (threat_score / mean_average_precision / ndcg_score over ragged
# predictions) are the same defects under these configurations.

NONCANON_K_LISTS = ((2, 1, 3), (2, 2, 1), (3, 1), (2, 1, 5))
NONCANON_VOCAB = {'c': 0, 'a': 2, 'b': 1}


def _build_noncanon():
  E = []

  def add(**kw):
    E.append(Entry(noncanon=True, **kw))

  def agg_of(factory):
    return lambda: factory().as_agg_fn()

  def rt():
    from ml_metrics._src.aggregates import retrieval
    return retrieval

  def cl():
    from ml_metrics._src.aggregates import classification
    return classification

  def mc():
    from ml_metrics._src.metrics import classification
    return classification

  def tx():
    from ml_metrics._src.aggregates import text
    return text

  # the alphabets of _build()
  ragged = ((('a', 'b'), ('b',)), (('a', 'b'), ('c', 'a')),
            (('b',), ('a', 'b', 'c')))
  len3 = ((('a',), ('a', 'b', 'c')), (('a', 'b'), ('c', 'a', 'b')),
          (('b', 'c', 'a'), ('b', 'a', 'c')))
  mclass = (('a', 'a'), ('b', 'c'), ('c', 'a'))
  moutput = ((('a',), ('a', 'b')), (('b', 'c'), ('c',)),
             (('a', 'c'), ('b', 'a', 'c')))
  binary = ((1, 1), (1, 0), (0, 1), (0, 0))
  no_hit = {'ragged': ((('c',), ('a', 'b')),),
            'len3': ((('d',), ('a', 'b', 'c')),)}

  def ragged_class(rows):
    lens = {len(r[1]) for r in rows}
    return 'ragged-predictions' if len(lens) > 1 else 'equal-length-predictions'

  # ---- TopKRetrieval: k_list, metrics --------------------------------------
  def topk(**kw):
    return lambda: rt().TopKRetrieval(**kw)
  # all 17 metrics for the first k_list over the ragged alphabet; the other
  # (k_list, alphabet) pairs with one metric per formula family, named in a
  # non-default order (cost: an entry with all metrics is ~3x as expensive)
  some = ('recall', 'dcg_score', 'accuracy', 'intersection_over_union',
          'precision', 'mean_reciprocal_rank')
  for kl in NONCANON_K_LISTS:
    for label, alpha in (('ragged', ragged), ('len3', len3)):
      if label == 'len3' and kl != NONCANON_K_LISTS[0]:
        continue   # equal-length rankings: one permuted k_list
      full = kl == NONCANON_K_LISTS[0] and label == 'ragged'
      kw = dict(k_list=kl) if full else dict(k_list=kl, metrics=some)
      cfg = f'k_list={kl},{label}' + ('' if full else ',metrics=6-reordered')
      add(name='TopKRetrieval', cfg=cfg, family='retrieval',
          alphabet=alpha, to_batch=cols_list(2), factory=topk(**kw),
          aggfn_factory=agg_of(topk(**kw)), canon=_canon_dict,
          per_example=_topk_per_example(kl), classify=ragged_class,
          null_rows=no_hit[label])

  # ---- ThresholdedRetrieval: thresholds --------------------------------------
  thr_rows = ((('a', 'b'), ('a', 'c', 'b'), (0.9, 0.8, 0.3)),
              (('c',), ('c',), (0.6,)),
              (('a',), ('b', 'a'), (0.7, 0.2)))
  for th in ((0.5, 0.0), (0.65, 0.25, 0.0, 0.25)):
    add(name='ThresholdedRetrieval', cfg=f'thresholds={th}', family='retrieval',
        alphabet=thr_rows, to_batch=cols_list(3),
        factory=(lambda th=th: rt().ThresholdedRetrieval(thresholds=th)),
        canon=_canon_dict,
        null_rows=((('a',), ('b',), (0.9,)), (('c',), ('b', 'a'), (0.1, 0.1))))

  # ---- confusion matrices: vocabulary, k_list, metrics ----------------------
  CM_METRICS = ('confusion_matrix', 'precision', 'recall', 'f1_score',
                'specificity', 'binary_accuracy')
  CM_REV = ('binary_accuracy', 'recall', 'f1_score', 'precision',
            'specificity', 'confusion_matrix')
  vocab = NONCANON_VOCAB
  tag = 'noncanonical-config'

  def cmfn(metrics=CM_METRICS, **kw):
    return lambda: cl().ConfusionMatrixAggFn(metrics=metrics, **kw)
  for cfg, alpha, tb, kw in [
      ('multiclass/macro+vocab=c0a2b1', mclass, cols(2),
       dict(input_type='multiclass', average='macro', vocab=vocab)),
      ('multioutput/macro+vocab=c0a2b1', moutput, cols_list(2),
       dict(input_type='multiclass-multioutput', average='macro', vocab=vocab)),
      ('multioutput/micro+vocab=c0a2b1', moutput, cols_list(2),
       dict(input_type='multiclass-multioutput', average='micro', vocab=vocab)),
      ('binary/binary,metrics=reordered', binary, cols(2),
       dict(metrics=CM_REV)),
  ]:
    add(name='ConfusionMatrixAggFn', cfg=cfg, family='classification',
        alphabet=alpha, to_batch=tb, aggfn_factory=cmfn(**kw),
        canon=_canon_cm_result, sig_tag=tag)

  def topkcm(**kw):
    return lambda: cl().TopKConfusionMatrixAggFn(metrics=CM_METRICS, **kw)
  for cfg, alpha, tb, kw in [
      ('multioutput/micro+vocab=c0a2b1,k=(2,1)', moutput, cols_list(2),
       dict(input_type='multiclass-multioutput', average='micro', vocab=vocab,
            k_list=(2, 1))),
      ('multioutput/macro+vocab=c0a2b1,k=(3,1,2,1)', moutput, cols_list(2),
       dict(input_type='multiclass-multioutput', average='macro', vocab=vocab,
            k_list=(3, 1, 2, 1))),
      ('multiclass/micro+vocab=c0a2b1,k=(2,1)', mclass, cols(2),
       dict(input_type='multiclass', average='micro', vocab=vocab,
            k_list=(2, 1))),
  ]:
    add(name='TopKConfusionMatrixAggFn', cfg=cfg, family='classification',
        alphabet=alpha, to_batch=tb, aggfn_factory=topkcm(**kw),
        canon=_canon_cm_result, sig_tag=tag)

  SW_REV = ('accuracy', 'recall', 'f1_score', 'precision')

  def sw(**kw):
    return lambda: cl().SamplewiseClassification(**kw)
  for cfg, alpha, tb, kw in [
      ('multiclass+vocab=c0a2b1', mclass, cols(2),
       dict(metrics=SW_REV, input_type='multiclass', vocab=vocab)),
      ('multioutput+vocab=c0a2b1', moutput, cols_list(2),
       dict(metrics=SW_REV, input_type='multiclass-multioutput', vocab=vocab)),
  ]:
    add(name='SamplewiseClassification', cfg=cfg, family='classification',
        alphabet=alpha, to_batch=tb, factory=sw(**kw),
        aggfn_factory=agg_of(sw(**kw)), canon=_canon_dict,
        per_example=_samplewise_per_example, sig_tag=tag)

  def clsfn(**kw):
    return lambda: mc().ClassificationAggFn(**kw)
  add(name='ClassificationAggFn', cfg='multioutput/samples+vocab=c0a2b1',
      family='classification', alphabet=moutput, to_batch=cols_list(2),
      aggfn_factory=clsfn(metrics=SW_REV, average='samples', vocab=vocab,
                          input_type='multiclass-multioutput'),
      canon=_canon_dict, sig_tag=tag)
  add(name='ClassificationAggFn', cfg='multioutput/micro+vocab=c0a2b1,k=(2,1)',
      family='classification', alphabet=moutput, to_batch=cols_list(2),
      aggfn_factory=clsfn(metrics=('recall', 'precision'), average='micro',
                          vocab=vocab, input_type='multiclass-multioutput',
                          k_list=(2, 1)),
      canon=_canon_cm_result, sig_tag=tag)

  # ---- text: patterns ----------------------------------------------------------
  for cd in (True, False):
    add(name='PatternFrequency', cfg=f'patterns=(b,ab),count_duplicate={cd}',
        family='text', alphabet=('abab', 'b', 'xyz'), to_batch=col,
        factory=(lambda cd=cd: tx().PatternFrequency(
            patterns=('b', 'ab'), count_duplicate=cd)),
        aggfn_factory=agg_of(lambda cd=cd: tx().PatternFrequency(
            patterns=('b', 'ab'), count_duplicate=cd)),
        empty_batch_ok=True, null_rows=('xyz',), sig_tag=tag)
  return E


_CATALOGUE = None
_OFFSET = None


def catalogue(offset=False):
  """The catalogue; offset=True adds the C01-only entries (large-offset
  alphabets, non-canonical list-valued configurations)."""
  global _CATALOGUE, _OFFSET
  if _CATALOGUE is None:
    entries = _build()
    keys = [e.key for e in entries]
    assert len(set(keys)) == len(keys), 'duplicate catalogue keys'
    _CATALOGUE = {e.key: e for e in entries}
  if not offset:
    return _CATALOGUE
  if _OFFSET is None:
    more = _build_offset() + _build_noncanon()
    extra = {e.key: e for e in more}
    assert len(extra) == len(more), 'duplicate catalogue keys'
    assert not set(extra) & set(_CATALOGUE), 'duplicate catalogue keys'
    _OFFSET = dict(_CATALOGUE, **extra)
  return _OFFSET


def entry(key) -> Entry:
  return catalogue(offset=True)[key]
