"""Reference model for C02: sliced aggregation = brute-force group-by.

Boring on purpose: plain lists, dicts and Fractions; imports nothing from the
library under test.

Data model
  batch    dict column -> list with one entry per row (an entry may itself be
           a list: the elements of that example).
  agg      dict(kind='collect'|'mean'|'meandict'|'mv', cols=[...], names=[...],
           sliced=bool): the aggregate reads the columns `cols` and reports
           the metric names `names`.
  slicer   dict(name=tuple, mode='rows', fn=row -> iterable of slice values,
                repl=None | value)
           dict(name=tuple, mode='elems', col=tag column, first_only=bool,
                repl=None | value)   # intra-example: one tag per element
expected() returns {(metric name, slice name | None, slice value | None): value}.

Membership is a set: a row that names the same slice twice counts once.  A slice
is fed only from batches in which it occurs; with repl=None the non-members are
dropped, otherwise they are replaced by `repl` (rows of other batches are not
added as replacements).
"""
import collections
from fractions import Fraction


def _flat(x):
  return [z for y in x for z in _flat(y)] if isinstance(x, list) else [x]


def _masked(col, keep, repl):
  out = []
  for x, k in zip(col, keep):
    if isinstance(k, list):  # per-element decision inside one example
      out.append([e if ke else repl for e, ke in zip(x, k)
                  if ke or repl is not None])
    elif k:
      out.append(x)
    elif repl is not None:
      out.append(repl)
  return out


def _value(kind, cols):
  if kind == 'collect':
    return [cols]  # one metric whose value is the list of columns
  flat = [[Fraction(z) for z in _flat(c)] for c in cols]
  means = [sum(f) / len(f) if f else None for f in flat]
  if kind == 'mean':
    return means
  if kind == 'meandict':
    return [means[0], len(flat[0])]
  assert kind == 'mv', kind
  f, m = flat[0], means[0]
  return [(len(f), m, sum((z - m) ** 2 for z in f) / len(f)) if f else None]


def _members(slicer, batch):
  """slice value -> per-row keep (bool, or list of bools per element)."""
  n = len(next(iter(batch.values())))
  rows = [{c: batch[c][i] for c in batch} for i in range(n)]
  if slicer['mode'] == 'rows':
    keep = collections.defaultdict(lambda: [False] * n)
    for i, row in enumerate(rows):
      for value in slicer['fn'](row):
        keep[value if isinstance(value, tuple) else (value,)][i] = True
    return keep
  tags = [row[slicer['col']] for row in rows]
  return {(t,): [[u == t for u in row] for row in tags]
          for t in set(_flat(tags))}


def expected(aggs, slicers, batches):
  res = {}

  def emit(agg, sname, svalue, parts):
    cols = [[r for p in parts for r in p[k]] for k in range(len(agg['cols']))]
    for name, v in zip(agg['names'], _value(agg['kind'], cols)):
      res[(name, sname, svalue)] = v

  for agg in aggs:
    emit(agg, None, None, [[b[c] for c in agg['cols']] for b in batches])
    for s in slicers if agg['sliced'] else ():
      groups = collections.defaultdict(list)
      for b in batches:
        for value, keep in _members(s, b).items():
          everything = [True] * len(keep)
          groups[value].append([
              _masked(b[c], keep if k == 0 or not s.get('first_only')
                      else everything, s['repl'])
              for k, c in enumerate(agg['cols'])])
      for value, parts in groups.items():
        emit(agg, s['name'], value, parts)
  return res
