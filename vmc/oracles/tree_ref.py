"""Persistent-update reference for nested dict / list / tuple / ndarray data.

Independent of the code under test (never imports ml_metrics).  Used by the
C18 check directly and by the C08 pipeline interpreter for key routing.

Vocabulary
  step      one level of addressing: `I(n)` (sequence index) or any other
            hashable (mapping key).
  path      a tuple of steps; `()` addresses the root.
  key       a path, or one of the reserved keys SELF (whole tree),
            SKIP (set: drop the value; get: error) and `Lit(v)` (get: v).
  MISSING   "no tree yet" (the empty view a pipeline operator starts from).

Every function is pure: `set_` returns a new root that shares every sub-object
that is not on the set path with the old root and never writes to the old one.
A `RefError` means "the reference says this operation is an error"; the kind of
error is not specified.
"""
from __future__ import annotations

import copy

import numpy as np


class RefError(Exception):
  pass


class I(int):  # pylint: disable=invalid-name
  """Sequence index step."""

  def __repr__(self):
    return f'I({int(self)})'


class _Reserved:

  def __init__(self, name):
    self.name = name

  def __repr__(self):
    return self.name

  def __deepcopy__(self, memo):
    return self

  def __copy__(self):
    return self


# (the reprs of SELF/SKIP equal the library's, so that strings built by user
# functions from whole records are comparable)
SELF = _Reserved("Reserved('SELF')")
SKIP = _Reserved("Reserved('SKIP')")
MISSING = _Reserved('MISSING')


class Lit:
  """Literal key: reading it yields `value` whatever the tree is."""

  def __init__(self, value):
    self.value = value

  def __repr__(self):
    return f'Lit({self.value!r})'


def is_arr(x):
  return isinstance(x, np.ndarray) and x.ndim > 0


def is_seq(x):
  return isinstance(x, (list, tuple))


def is_container(x):
  return isinstance(x, dict) or is_seq(x)


def _norm(key):
  """A bare step is the path of length one."""
  if key is SELF or key is SKIP or isinstance(key, Lit):
    return key
  if isinstance(key, tuple):
    return key
  return (key,)


# ---- get ---------------------------------------------------------------------

def get(tree, key):
  key = _norm(key)
  if key is SELF:
    return tree
  if isinstance(key, Lit):
    return key.value
  if key is SKIP:
    raise RefError('SKIP cannot be read')
  cur = tree
  for step in key:
    if step is SELF:
      return cur
    if isinstance(step, Lit):
      return step.value
    if step is SKIP:
      raise RefError('SKIP cannot be read')
    if isinstance(cur, dict):
      try:
        if step not in cur:
          raise RefError(f'no key {step!r}')
      except TypeError as e:
        raise RefError('unhashable') from e
      cur = cur[step]
    elif is_seq(cur) or is_arr(cur):
      if not isinstance(step, int) or isinstance(step, bool):
        raise RefError(f'{step!r} is not an index')
      if not -len(cur) <= step < len(cur):
        raise RefError(f'index {step!r} out of range')
      cur = cur[step]
    else:
      raise RefError(f'{step!r} addresses into a leaf')
  return cur


def multi_get(tree, keys):
  """Values aligned with keys (a tuple)."""
  return tuple(get(tree, k) for k in keys)


# ---- set ---------------------------------------------------------------------

def _default_tree(path, value):
  if not path:
    return value
  step, rest = path[0], path[1:]
  if step is SELF or step is SKIP or isinstance(step, Lit):
    raise RefError('reserved step inside a fresh path')
  if isinstance(step, I):
    if step != 0:
      raise RefError('index gap in a fresh sequence')
    return [_default_tree(rest, value)]
  return {step: _default_tree(rest, value)}


def set_(tree, key, value):
  """Persistent set: new root, old root untouched, untouched children shared."""
  key = _norm(key)
  if key is SKIP:
    return tree
  if isinstance(key, Lit):
    raise RefError('a literal is not assignable')
  if key is SELF or key == () or key[0] is SELF:
    return value
  if tree is MISSING:
    return _default_tree(key, value)
  step, rest = key[0], key[1:]
  if step is SKIP or isinstance(step, Lit):
    raise RefError('reserved step inside a path')
  if isinstance(tree, dict):
    new = dict(tree)
    try:
      child = tree[step] if step in tree else MISSING
    except TypeError as e:
      raise RefError('unhashable') from e
    new[step] = set_(child, rest, value)
    return new
  if is_seq(tree) or is_arr(tree):
    if not isinstance(step, int) or isinstance(step, bool):
      raise RefError(f'{step!r} is not an index')
    n = len(tree)
    if is_arr(tree):
      if not 0 <= step < n:
        raise RefError('arrays cannot grow')
      if rest:
        raise RefError('path continues below an array element')
      new = tree.copy()
      try:
        new[step] = value
      except (ValueError, TypeError) as e:
        raise RefError('value does not fit the array') from e
      return new
    items = list(tree)
    if step == n:
      items.append(_default_tree(rest, value))
    elif 0 <= step < n:
      items[step] = set_(items[step], rest, value)
    else:
      raise RefError('index gap')
    return tuple(items) if isinstance(tree, tuple) else items
  raise RefError('cannot set below a leaf')


def multi_set(tree, keys, values):
  """`copy_and_set(tuple_of_keys, values)`.

  Documented conventions (tree_test.test_assign_multioutputs_to_single_key,
  test_copy_and_set_values_is_named_tuple): only an exact `tuple` is a vector
  of values; one key with several values receives the whole tuple; otherwise
  keys and values must align and are applied left to right.
  """
  keys = tuple(keys)
  if not keys:
    if values:
      raise RefError('values without keys')
    return tree
  values = values if type(values) is tuple else (values,)  # pylint: disable=unidiomatic-typecheck
  if len(keys) == 1 and len(values) > 1:
    return set_(tree, keys[0], values)
  if len(keys) != len(values):
    raise RefError('misaligned keys and values')
  for k, v in zip(keys, values):
    tree = set_(tree, k, v)
  return tree


# ---- traversal ---------------------------------------------------------------

def nodes(tree, path=(), into_arrays=False):
  """Pre-order [(path, object)] of every addressable node, root included."""
  out = [(path, tree)]
  if isinstance(tree, dict):
    for k, v in tree.items():
      out += nodes(v, path + (k,), into_arrays)
  elif is_seq(tree):
    for i, v in enumerate(tree):
      out += nodes(v, path + (I(i),), into_arrays)
  elif into_arrays and is_arr(tree):
    for i in range(len(tree)):
      out.append((path + (I(i),), tree[i]))
  return out


def leaves(tree, path=()):
  """[(path, leaf)] in depth-first order.

  Convention of the library (tree_test.test_iter): an *empty* container below
  the root is listed as a leaf, an empty root lists nothing; str and ndarray
  are leaves.
  """
  if isinstance(tree, dict) and tree:
    out = []
    for k, v in tree.items():
      out += leaves(v, path + (k,))
    return out
  if is_seq(tree) and tree:
    out = []
    for i, v in enumerate(tree):
      out += leaves(v, path + (I(i),))
    return out
  if path:
    return [(path, tree)]
  return []


def map_leaves(tree, fn, _root=True):
  """Same shape, fn applied to every leaf (see `leaves`) and to nothing else."""
  if isinstance(tree, dict) and tree:
    return {k: map_leaves(v, fn, False) for k, v in tree.items()}
  if is_seq(tree) and tree:
    out = [map_leaves(v, fn, False) for v in tree]
    return tuple(out) if isinstance(tree, tuple) else out
  if _root:
    return tree
  return fn(tree)


# ---- comparison --------------------------------------------------------------

def same(a, b):
  """Strict structural equality: same container types, same leaf types."""
  if a is b:
    return True
  ta = type(a)
  if ta is not type(b):
    return False
  if ta is dict:
    if len(a) != len(b):
      return False
    try:
      for k, v in a.items():
        if k not in b or not same(v, b[k]):
          return False
    except TypeError:
      return False
    return True
  if ta is list or ta is tuple:
    if len(a) != len(b):
      return False
    for x, y in zip(a, b):
      if not same(x, y):
        return False
    return True
  if ta is np.ndarray:
    return (a.dtype == b.dtype and a.shape == b.shape and
            bool(np.array_equal(a, b)))
  try:
    return bool(a == b)
  except Exception:  # pylint: disable=broad-except
    return False


def snapshot(x):
  """Deep copy of dict/list/tuple/ndarray data (leaves are immutable)."""
  t = type(x)
  if t is dict:
    return {k: snapshot(v) for k, v in x.items()}
  if t is list:
    return [snapshot(v) for v in x]
  if t is tuple:
    return tuple([snapshot(v) for v in x])
  if t is np.ndarray:
    return x.copy()
  if t is int or t is str or x is None or x is MISSING:
    return x
  return copy.deepcopy(x)


def container_ids(tree, acc=None):
  """ids of every dict/list/tuple/ndarray object reachable in tree."""
  acc = {} if acc is None else acc
  if isinstance(tree, dict):
    acc[id(tree)] = tree
    for v in tree.values():
      container_ids(v, acc)
  elif is_seq(tree):
    acc[id(tree)] = tree
    for v in tree:
      container_ids(v, acc)
  elif isinstance(tree, np.ndarray):
    acc[id(tree)] = tree
  return acc


def sharing_violations(got, exp, old_ids, path=()):
  """Paths where `exp` re-uses an old object but `got` holds another one.

  `exp` comes from `set_`, so an object of `exp` whose id is in `old_ids` is a
  sub-object the update did not touch; the implementation must hand back the
  very same object there (shallow copy along the path only).
  """
  if path and id(exp) in old_ids and (
      is_container(exp) or isinstance(exp, np.ndarray)):
    # (the root itself may always be a fresh shallow copy)
    return [] if got is exp else [path]
  out = []
  if isinstance(exp, dict) and isinstance(got, dict):
    for k, v in exp.items():
      if k in got:
        out += sharing_violations(got[k], v, old_ids, path + (k,))
  elif is_seq(exp) and is_seq(got) and len(exp) == len(got):
    for i, (g, e) in enumerate(zip(got, exp)):
      out += sharing_violations(g, e, old_ids, path + (I(i),))
  return out


def alias_violations(got, exp, old_ids, path=()):
  """Paths where `exp` holds a fresh object but `got` holds an old one.

  `exp` comes from `set_`: an object of `exp` whose id is *not* in `old_ids`
  lies on an update path (or was made by the user's function).  If the
  implementation has one of the caller's own mutable objects there, the update
  was written into the caller's data, or a later write to the output would be.
  Untouched sub-trees (id in `old_ids`) are shared on purpose and not entered.
  """
  if id(exp) in old_ids:
    return []
  out = []
  if (is_container(exp) or isinstance(exp, np.ndarray)) and isinstance(
      got, (dict, list, np.ndarray)) and id(got) in old_ids:
    out.append(path)
  if isinstance(exp, dict) and isinstance(got, dict):
    for k, v in exp.items():
      if k in got:
        out += alias_violations(got[k], v, old_ids, path + (k,))
  elif is_seq(exp) and is_seq(got) and len(exp) == len(got):
    for i, (g, e) in enumerate(zip(got, exp)):
      out += alias_violations(g, e, old_ids, path + (I(i),))
  return out
