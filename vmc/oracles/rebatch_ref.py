"""Reference model of re-batching for columns whose rows need not be scalars.

Pure Python (lists of nested lists); never imports the code under test.

A *column spec* is `(kind, row_shape)`: kind in {'ndarray', 'list', 'tuple'} is
the container of one batch of the column, `row_shape` the shape of one row
(`()` = scalar rows, `(2,)` = rows are vectors of 2, `(2, 3)` = rows are 2x3
blocks).  An ndarray column of row shape s is an array of shape (n,) + s; a
list / tuple column of row shape s is a list / tuple of n nested lists.
A *layout* is a tuple of column specs.

Every element of the stream is a distinct tagged integer
`column * 100000 + row * 100 + flat index inside the row`, so that dropped,
duplicated, reordered, misaligned, flattened or transposed rows are all
observable.
"""
import functools
import itertools as itt


def _nest(flat, shape):
  if not shape:
    return flat[0]
  step = len(flat) // shape[0]
  return [_nest(flat[i * step:(i + 1) * step], shape[1:])
          for i in range(shape[0])]


def _numel(shape):
  n = 1
  for d in shape:
    n *= d
  return n


def row(c, r, shape):
  """Row r of column c as a nested list (an int when shape == ())."""
  return _nest([c * 100000 + r * 100 + k for k in range(_numel(shape))], shape)


@functools.lru_cache(maxsize=None)
def _first_rows(c, n, shape):
  return tuple(row(c, r, shape) for r in range(n))


def rows(c, lo, hi, shape):
  """Rows lo..hi-1 of column c.  The row objects are shared: read-only."""
  return list(_first_rows(c, max(hi, 64), shape)[lo:hi])


def pad_row(spec, pad):
  """What one appended padding row of a column looks like.

  list / tuple columns are padded with the pad value itself; an array column
  can only be padded with whole rows, i.e. rows of its row shape filled with
  the pad value.
  """
  kind, shape = spec
  if kind != 'ndarray':
    return pad
  return _nest([pad] * _numel(shape), shape)


def offsets(sizes):
  return list(itt.accumulate((0,) + tuple(sizes)))


@functools.lru_cache(maxsize=64)
def chunked(sizes, target, layout, pad=None):
  """Expected batches: [[rows of column 0, rows of column 1, ...], ...].

  Cached and shared: only to be compared with, never handed to the code under
  test.
  """
  n = sum(sizes)
  cols = [rows(c, 0, n, spec[1]) for c, spec in enumerate(layout)]
  out = [[col[i:i + target] for col in cols] for i in range(0, n, target)]
  if out and pad is not None and len(out[-1][0]) < target:
    out[-1] = [col + [pad_row(spec, pad)] * (target - len(col))
               for col, spec in zip(out[-1], layout)]
  return out


def chunk_sizes(n, target):
  return [min(target, n - i) for i in range(0, n, target)]
