"""Reference interpreter for chains of select/apply/assign/filter/batch/sink.

Plain Python over plain data; key routing is delegated to the persistent tree
reference (`tree_ref`).  Never imports the code under test.

A *program* is a list of ops; an op is a dict:
  kind            'select' | 'apply' | 'assign' | 'filter' | 'batch' | 'sink'
  inp             input key spec  (absent = SELF)
  out             output key spec (select: absent = inp; apply: absent = SELF;
                  assign: absent/() = "no key given")
  fn              the user's callable (apply/assign/filter); None = identity
  k               batch size (batch)
  batch_size, fn_batch_size   only their *validity* is modelled here
Key specs (see tree_ref for keys): one key | list of keys (a tuple of keys in
the library; a list element may be a dict) | dict name -> key (keyword
arguments on the input side, "take these paths of the function's dict result"
on the output side).

Semantics (DESIGN.md appendix A, operator docstrings in transform.py):
  select   fresh record holding exactly the output keys (values = inputs)
  apply    fresh record built from fn's outputs under the output keys; SELF =
           the bare output; one key with several outputs takes the tuple
  assign   the input record, persistently updated under the assign keys
  filter   keeps the record iff fn(*inputs) is truthy
  batch    every current output key (SELF if there is none) becomes the list
           of <= k consecutive values; the rest of the record is dropped.  The
           current output keys are a *set*: when the fresh record depends on
           the order in which they are written (Index and mapping keys mixed
           at one level, [1] before [0], a key and a path below it), the
           result is unspecified (`Result.unspecified`), not an error
  sink     write(*inputs, **kw_inputs) once per record, record forwarded
           untouched, close() when the stream ends
"Current output keys" = keys produced since the last record-replacing operator
(apply, select, batch) plus every later assign key; SKIP is never one of them.

Build-time validity: select with keyword inputs; assign without key; an
assign key that is already a current output key; SELF together with any other
current output key; fn_batch_size without batch_size; negative batch sizes.

Falsy but valid key specs.  A key is what it addresses, whatever its truth
value in Python: the index 0 (`I(0)`), the mapping key 0 and the empty path
`()` (= the root, like SELF) are keys like any other, and the empty list `[]`
(the library's empty tuple of keys) means "no key": a callable / predicate /
sink then gets no argument, an apply has no output key (any output is an error,
the empty tuple `()` of outputs leaves no record).  The only documented
"absent" spellings are: select's output keys None / `()` (= the input keys) and
assign's keys `()` (= no key given, rejected).  `spec_falsy` tells which specs
Python calls falsy; it is used by the *deviations* only.
"""
from __future__ import annotations

import itertools

from vmc.oracles import tree_ref as ref

SELF, SKIP, MISSING, Lit = ref.SELF, ref.SKIP, ref.MISSING, ref.Lit


class RunError(Exception):
  """The reference says: processing this record is an error."""


class Unspecified(Exception):
  """The reference has no opinion on this run (see `batch`)."""


# ---- key spec helpers --------------------------------------------------------

def spec_falsy(spec):
  """Is the library spelling of this key spec falsy in Python?  ([] = the empty
  tuple of keys, {} , the empty path, a one-step path whose step is 0 / I(0))."""
  if isinstance(spec, (list, dict)):
    return not spec
  if spec is SELF or spec is SKIP or isinstance(spec, Lit):
    return False
  path = ref._norm(spec)  # pylint: disable=protected-access
  return not path or (len(path) == 1 and not isinstance(path[0], str) and
                      not path[0])


def in_keys(op, dev=frozenset()):
  """-> (argument names or None, [keys])."""
  inp = op.get('inp', SELF)
  if ('falsy-in-is-self' in dev and op['kind'] != 'select' and
      spec_falsy(inp)):
    inp = SELF
  if isinstance(inp, dict):
    return list(inp.keys()), list(inp.values())
  if isinstance(inp, list):
    return None, list(inp)
  return None, [inp]


def out_elems(op, dev=frozenset()):
  """-> [key | dict] the normalised output key elements."""
  kind = op['kind']
  if kind == 'select':
    out = op.get('out')
    if out is None or out == [] or out == () or (
        'select-falsy-out-is-in' in dev and spec_falsy(out)):
      out = op.get('inp', SELF)
  elif kind == 'assign':
    out = op.get('out', [])
    if 'assign-falsy-key-is-none' in dev and spec_falsy(out):
      out = []
  else:
    out = op.get('out', SELF)
  if isinstance(out, list):
    return list(out)
  return [out]


def flat_names(elems, keep_skip=False):
  names = []
  for e in elems:
    for k in (list(e.keys()) if isinstance(e, dict) else [e]):
      if k is SKIP and not keep_skip:
        continue
      if not any(_keq(k, n) for n in names):
        names.append(k)
  return names


def _keq(a, b):
  if a is SELF or b is SELF or a is SKIP or b is SKIP:
    return a is b
  return ref._norm(a) == ref._norm(b)  # pylint: disable=protected-access


# ---- build-time validity -----------------------------------------------------

def validate(program, variant=frozenset()):
  """-> (ok, reason, tracked) ; tracked[i] = current output keys *before* op i.

  `variant` switches on alternative bookkeeping rules that are *not* the
  reference; they exist only so that a check can name which deviation explains
  an observed difference:
    'select-adds'  select adds its keys instead of replacing the set
    'sink-self'    sink adds SELF to the set
    'keep-skip'    SKIP stays in the set
    'select-falsy-out-is-in'    falsy output keys of select = not given
    'assign-falsy-key-is-none'  falsy assign keys = not given
  """
  keep_skip = 'keep-skip' in variant
  cur, tracked = [], []
  for i, op in enumerate(program):
    tracked.append(list(cur))
    kind = op['kind']
    fbs, bs = op.get('fn_batch_size', 0), op.get('batch_size', 0)
    if kind == 'batch':
      bs = op['k']
    if fbs and not bs:
      return False, f'op{i}:fn_batch_size-without-batch_size', tracked
    if fbs < 0 or bs < 0:
      return False, f'op{i}:negative-batch-size', tracked
    if kind == 'select':
      if isinstance(op.get('inp', SELF), dict):
        return False, f'op{i}:select-with-kwargs', tracked
      new = flat_names(out_elems(op, variant), keep_skip)
      cur = _union(cur, new) if 'select-adds' in variant else new
    elif kind == 'apply':
      cur = flat_names(out_elems(op, variant), keep_skip)
    elif kind == 'batch':
      cur = list(cur) if cur else [SELF]
    elif kind == 'assign':
      elems = out_elems(op, variant)
      if not elems:
        return False, f'op{i}:assign-without-key', tracked
      new = flat_names(elems, keep_skip)
      if any(_keq(n, c) for n in new for c in cur):
        return False, f'op{i}:duplicate-assign-key', tracked
      allk = _union(cur, new)
      if any(k is SELF for k in allk) and len(allk) > 1:
        return False, f'op{i}:SELF-mixed-with-other-keys', tracked
      cur = allk
    elif kind == 'filter':
      pass
    elif kind == 'sink':
      if 'sink-self' in variant:
        cur = _union(cur, [SELF])
    else:
      raise ValueError(kind)
  tracked.append(list(cur))
  return True, None, tracked


def _union(a, b):
  out = list(a)
  for k in b:
    if not any(_keq(k, o) for o in out):
      out.append(k)
  return out


# ---- execution ---------------------------------------------------------------

class SinkLog:

  def __init__(self):
    self.writes = []
    self.closed = 0


def _inputs(op, record, dev=frozenset()):
  names, keys = in_keys(op, dev)
  try:
    vals = [ref.get(record, k) for k in keys]
  except ref.RefError as e:
    raise RunError(f'input key: {e}') from e
  return names, vals


def _call(fn, names, vals):
  try:
    if names is not None:
      return fn(**dict(zip(names, vals)))
    return fn(*vals)
  except Exception as e:  # the user's function rejects these arguments
    raise RunError(f'fn raised {type(e).__name__}') from e


def _set(base, key, value, dev):
  if key is SKIP and base is MISSING and 'skip-materialises' in dev:
    return {SKIP: value}          # naming aid only, see `run`
  return ref.set_(base, key, value)


def _route_outputs(base, elems, outputs, dev=frozenset()):
  """Writes fn outputs under the output key elements onto base."""
  if not isinstance(outputs, tuple):
    outputs = (outputs,)
  if elems and elems[0] is SELF and len(outputs) > 1:
    outputs = (outputs,)        # the whole tuple is the record
  try:
    if len(elems) == 1 and len(outputs) > 1 and not isinstance(elems[0], dict):
      return _set(base, elems[0], outputs, dev)
    if len(elems) != len(outputs):
      raise RunError(f'{len(outputs)} outputs for {len(elems)} output keys')
    for e, o in zip(elems, outputs):
      if isinstance(e, dict):
        vals = ref.multi_get(o, list(e.values()))
        base = ref.multi_set(base, list(e.keys()), vals)
      else:
        base = _set(base, e, o, dev)
    return base
  except ref.RefError as e:
    raise RunError(f'output key: {e}') from e


def _identity(*xs):
  return xs


class _Stage:
  """One operator instance: feed(record) -> [outputs]; flush() -> [outputs]."""

  def __init__(self, op, batch_keys, sink, dev=frozenset(), no_keys=False):
    self.op, self.kind = op, op['kind']
    self.batch_keys, self.sink = batch_keys, sink
    self.columns = None
    self.dev, self.no_keys = dev, no_keys

  def feed(self, record):
    op, kind = self.op, self.kind
    if kind == 'batch':
      if (self.dev and len(self.batch_keys) > 1 and
          any(k is SELF for k in self.batch_keys)):
        raise RunError('deviation: SELF among several batch keys')
      try:
        vals = [ref.get(record, k) for k in self.batch_keys]
      except ref.RefError as e:
        raise RunError(f'batch key: {e}') from e
      if self.columns is None:
        self.columns = [[] for _ in vals]
      for c, v in zip(self.columns, vals):
        c.append(v)
      if op['k'] and len(self.columns[0]) >= op['k']:
        return self._emit_batch()
      if not op['k']:
        return self._emit_batch()
      return []
    names, vals = _inputs(op, record, self.dev)
    if kind == 'sink':
      if names is not None and 'sink-no-kwargs' in self.dev:
        raise RunError('deviation: sink rejects keyword inputs')
      if names is not None:
        self.sink.writes.append(((), dict(zip(names, vals))))
      else:
        self.sink.writes.append((tuple(vals), {}))
      return [record]
    fn = op.get('fn') or _identity
    if kind == 'select':
      fn = _identity
    out = _call(fn, names, vals)
    if kind == 'filter':
      if self.no_keys and 'filter-needs-output-keys' in self.dev:
        raise RunError('deviation: filter without current output keys')
      return [record] if out else []
    base = record if kind == 'assign' else MISSING
    return [_route_outputs(base, out_elems(op, self.dev), out, self.dev)]

  def _emit_batch(self):
    cols, self.columns = self.columns, None

    def build(pairs):
      base = MISSING
      try:
        for k, c in pairs:
          base = ref.set_(base, k, c)
      except ref.RefError as e:
        return None, f'batch output: {e}'
      return base, None
    pairs = list(zip(self.batch_keys, cols))
    base, err = build(pairs)
    if len(pairs) > 1:
      for perm in itertools.permutations(pairs):
        other, oerr = build(perm)
        if (err is None) != (oerr is None) or (
            err is None and not ref.same(base, other)):
          raise Unspecified('batch: the record depends on the order of the '
                            'current output keys')
    if err is not None:
      raise RunError(err)
    return [base]

  def flush(self):
    if self.kind == 'batch' and self.columns and self.columns[0]:
      return self._emit_batch()
    return []


class Result:

  def __init__(self):
    self.outputs = []        # emitted records, in order
    self.error = None        # None | description of the first error
    self.error_at = None     # index of the input record being processed | 'end'
    self.unspecified = False  # the reference has no opinion on this run
    self.sinks = {}          # op index -> SinkLog


DEVIATIONS = ('select-adds', 'sink-self', 'keep-skip',
              'filter-needs-output-keys', 'skip-materialises',
              'sink-no-kwargs', 'falsy-in-is-self', 'select-falsy-out-is-in',
              'assign-falsy-key-is-none')


def run(program, stream, dev=frozenset()):
  """Streams the records through a program that `validate` accepts.

  `dev` (default empty = the reference) switches on *deviations*: alternative
  behaviours that are not the reference and never decide a verdict.  A check
  may re-run a failing case under each deviation to find out which one
  reproduces the implementation's behaviour, and name the failure after it.
  """
  ok, why, tracked = validate(program, dev)
  assert ok, why
  res = Result()
  stages = []
  for i, op in enumerate(program):
    sink = None
    if op['kind'] == 'sink':
      sink = res.sinks[i] = SinkLog()
    stages.append(_Stage(op, tracked[i] or [SELF], sink, dev,
                         no_keys=not tracked[i]))

  def push(items, start):
    for j in range(start, len(stages)):
      nxt = []
      for it in items:
        nxt += stages[j].feed(it)
      items = nxt
      if not items:
        return []
    return items

  try:
    for n, rec in enumerate(stream):
      res.error_at = n
      res.outputs += push([rec], 0)
    res.error_at = 'end'
    for j, stg in enumerate(stages):
      tail = stg.flush()
      if tail:
        res.outputs += push(tail, j + 1)
    res.error_at = None
  except RunError as e:
    res.error = str(e)
  except Unspecified as e:
    res.error, res.unspecified = str(e), True
  for log in res.sinks.values():
    log.closed = 1
  return res
