"""Independent reference definitions of the ml-metrics metric values (C07).

Boring on purpose: loops over raw examples, Python ints for the confusion
counts, `fractions.Fraction` for every rate that is rational, `math` floats for
the handful that need sqrt/log.  This module must never import `ml_metrics`
(nor numpy): what it encodes is the textbook definition plus the *documented*
conventions of the library:

* every zero denominator of a rate -> 0          (math_utils.safe_divide doc)
* NaN entries are skipped column-wise            (rolling_stats.Mean.new doc)
* retrieval precision divides by min(k, #predictions)   (pinned by the tests'
  worked examples: "precision@2 = precision@1 since there is only one output")
* the calibration histogram bins labels and predictions *by their own value*
  (class doc "Histogram of the inputs" + the worked example in the tests)
* text n-gram / pattern frequency = occurrences / number of texts

Composite rates use the primary textbook form in terms of the base rates:
informedness = TPR+TNR-1, markedness = PPV+NPV-1, LR+ = TPR/FPR,
LR- = FNR/TNR, DOR = tp*tn/(fp*fn) (the docstring's form), prevalence
threshold in Balayla's original sensitivity/specificity form
(sqrt(a(1-b))+b-1)/(a+b-1), MCC from the four counts.
"""
from fractions import Fraction as F
import functools
import math
import re

NAN = float('nan')
INF = float('inf')


# --------------------------------------------------------------------------
# classification
# --------------------------------------------------------------------------

def sdiv(a, b):
  """a / b with the documented convention: zero denominator -> 0."""
  if b == 0:
    return F(0)
  if isinstance(a, float) or isinstance(b, float):
    return a / b
  return F(a) / F(b)


ALIASES = [
    ('precision', 'ppv', 'positive_predictive_value'),
    ('recall', 'tpr', 'sensitivity'),
    ('specificity', 'tnr'),
    ('fall_out', 'fpr'),
    ('miss_rate', 'fnr'),
    ('nvp', 'negative_prediction_value'),
    ('threat_score', 'intersection_over_union'),
]

# value range of every derived rate, (lo, hi); None = unbounded
RANGES = {
    'precision': (0, 1), 'ppv': (0, 1), 'positive_predictive_value': (0, 1),
    'recall': (0, 1), 'tpr': (0, 1), 'sensitivity': (0, 1),
    'f1_score': (0, 1), 'accuracy': (0, 1), 'binary_accuracy': (0, 1),
    'specificity': (0, 1), 'tnr': (0, 1), 'fall_out': (0, 1), 'fpr': (0, 1),
    'miss_rate': (0, 1), 'fnr': (0, 1), 'negative_prediction_value': (0, 1),
    'nvp': (0, 1), 'false_discovery_rate': (0, 1),
    'false_omission_rate': (0, 1), 'threat_score': (0, 1),
    'intersection_over_union': (0, 1), 'prevalence': (0, 1),
    'prevalence_threshold': (0, 1), 'balanced_accuracy': (0, 1),
    'matthews_correlation_coefficient': (-1, 1), 'informedness': (-1, 1),
    'markedness': (-1, 1), 'positive_likelihood_ratio': (0, None),
    'negative_likelihood_ratio': (0, None), 'diagnostic_odds_ratio': (0, None),
    # retrieval only
    'fowlkes_mallows_index': (0, 1), 'mean_average_precision': (0, 1),
    'mean_reciprocal_rank': (0, 1), 'ndcg_score': (0, 1),
    'dcg_score': (0, None),
}


@functools.lru_cache(maxsize=None)
def cm_rate(name, tp, tn, fp, fn):
  """One derived rate from the four confusion counts (Python ints)."""
  pos, neg = tp + fn, tn + fp          # actual positives / negatives
  ppos, pneg = tp + fp, tn + fn        # predicted positives / negatives
  total = tp + tn + fp + fn
  tpr, tnr = sdiv(tp, pos), sdiv(tn, neg)
  fpr, fnr = sdiv(fp, neg), sdiv(fn, pos)
  ppv, npv = sdiv(tp, ppos), sdiv(tn, pneg)
  if name in ('precision', 'ppv', 'positive_predictive_value'):
    return ppv
  if name in ('recall', 'tpr', 'sensitivity'):
    return tpr
  if name == 'f1_score':
    return sdiv(2 * tp, 2 * tp + fp + fn)
  if name == 'accuracy':               # documented for the samples average only
    return F(1 if tp > 0 else 0)
  if name == 'binary_accuracy':
    return sdiv(tp + tn, total)
  if name in ('specificity', 'tnr'):
    return tnr
  if name in ('fall_out', 'fpr'):
    return fpr
  if name in ('miss_rate', 'fnr'):
    return fnr
  if name in ('negative_prediction_value', 'nvp'):
    return npv
  if name == 'false_discovery_rate':
    return sdiv(fp, ppos)
  if name == 'false_omission_rate':
    return sdiv(fn, pneg)
  if name in ('threat_score', 'intersection_over_union'):
    return sdiv(tp, tp + fn + fp)
  if name == 'positive_likelihood_ratio':
    return sdiv(tpr, fpr)
  if name == 'negative_likelihood_ratio':
    return sdiv(fnr, tnr)
  if name == 'diagnostic_odds_ratio':
    return sdiv(tp * tn, fp * fn)
  if name == 'prevalence':
    return sdiv(pos, total)
  if name == 'prevalence_threshold':
    den = tpr + tnr - 1
    if den == 0:
      return F(0)
    return (math.sqrt(tpr * (1 - tnr)) + float(tnr) - 1.0) / float(den)
  if name == 'matthews_correlation_coefficient':
    den = ppos * pos * neg * pneg
    if den == 0:
      return F(0)
    return (tp * tn - fp * fn) / math.sqrt(den)
  if name == 'informedness':
    return tpr + tnr - 1
  if name == 'markedness':
    return ppv + npv - 1
  if name == 'balanced_accuracy':
    return (tpr + tnr) / 2
  raise KeyError(name)


def _mean(xs):
  xs = list(xs)
  if any(isinstance(x, float) for x in xs):
    return math.fsum(float(x) for x in xs) / len(xs)
  return sum(xs, F(0)) / len(xs)


def encode(input_type, average, y_true, y_pred, pos_label=1, vocab=None):
  """-> (classes, true_sets, pred_sets): per example the set of positive classes.

  One-vs-rest encoding of every documented input type.
  """
  if input_type == 'binary':
    if average == 'binary':
      classes = ['+']
      enc = lambda v: {'+'} if v == pos_label else set()
    else:                 # micro / macro: the two classes {pos, not-pos}
      classes = ['+', '-']
      enc = lambda v: {'+'} if v == pos_label else {'-'}
    return classes, [enc(v) for v in y_true], [enc(v) for v in y_pred]
  if input_type == 'multiclass-indicator':
    ncol = len(y_true[0]) if len(y_true) else 0
    if average == 'binary':
      if ncol > 2:
        raise ValueError('binary average needs <= 2 indicator columns')
      classes = [0]
    else:
      classes = list(range(ncol))
    enc = lambda row: {j for j in classes if row[j] == pos_label}
    return classes, [enc(r) for r in y_true], [enc(r) for r in y_pred]
  if input_type == 'multiclass':
    t, p = [{v} for v in y_true], [{v} for v in y_pred]
  elif input_type == 'multiclass-multioutput':
    t, p = [set(r) for r in y_true], [set(r) for r in y_pred]
  else:
    raise NotImplementedError(input_type)
  if vocab:
    classes = list(vocab)
  else:
    classes = sorted(set().union(*t, *p)) if (t or p) else []
  return classes, t, p


def counts_per_class(classes, t, p):
  """-> {class: (tp, tn, fp, fn)} as Python ints."""
  out = {}
  for c in classes:
    tp = tn = fp = fn = 0
    for ti, pi in zip(t, p):
      if c in ti and c in pi:
        tp += 1
      elif c in ti:
        fn += 1
      elif c in pi:
        fp += 1
      else:
        tn += 1
    out[c] = (tp, tn, fp, fn)
  return out


def counts_per_example(classes, t, p):
  out = []
  for ti, pi in zip(t, p):
    tp = sum(1 for c in classes if c in ti and c in pi)
    fn = sum(1 for c in classes if c in ti and c not in pi)
    fp = sum(1 for c in classes if c not in ti and c in pi)
    tn = len(classes) - tp - fn - fp
    out.append((tp, tn, fp, fn))
  return out


def confusion(average, classes, t, p):
  """The confusion counts in the layout of the average.

  binary/micro -> (tp, tn, fp, fn); macro -> four per-class lists.
  """
  per = counts_per_class(classes, t, p)
  if average in ('binary', 'micro'):
    return tuple(sum(per[c][i] for c in classes) for i in range(4))
  if average == 'macro':
    return tuple([per[c][i] for c in classes] for i in range(4))
  raise NotImplementedError(average)


def averaged_all(names, average, classes, t, p):
  """{metric: value} under an averaging mode; the counts are taken once."""
  if average in ('binary', 'micro'):
    c = confusion(average, classes, t, p)
    return {n: cm_rate(n, *c) for n in names}
  if average == 'macro':
    per = counts_per_class(classes, t, p)
    return {n: _mean(cm_rate(n, *per[c]) for c in classes) for n in names}
  if average == 'samples':
    per = counts_per_example(classes, t, p)
    return {n: _mean(cm_rate(n, *c) for c in per) for n in names}
  raise NotImplementedError(average)


def truncate(y_pred, k, multioutput):
  """Top-k view of the predictions (a single label is the same for every k)."""
  return [list(r)[:k] for r in y_pred] if multioutput else list(y_pred)


def classification_all(names, input_type, average, y_true, y_pred, pos_label=1,
                       vocab=None, k_list=None):
  """{metric: scalar}, or with a k_list {metric: [value per ascending k]}."""
  classes, t, p = encode(input_type, average, y_true, y_pred, pos_label, vocab)
  if not k_list:
    return averaged_all(names, average, classes, t, p)
  multi = input_type == 'multiclass-multioutput'
  out = {n: [] for n in names}
  for k in sorted(set(k_list)):
    # the vocabulary is the one of the untruncated data
    _, _, pk = encode(input_type, average, y_true,
                      truncate(y_pred, k, multi), pos_label, classes)
    vals = averaged_all(names, average, classes, t, pk)
    for n in names:
      out[n].append(vals[n])
  return out


def classification(name, *args, **kw):
  return classification_all([name], *args, **kw)[name]


def classification_per_class_over_k(names, input_type, y_true, y_pred,
                                    vocab=None, k_list=None):
  """Diagnostic only: per class, the mean over the k-list (NOT the macro
  average); used to recognise one specific failure class by name."""
  classes, t, _ = encode(input_type, 'macro', y_true, y_pred, 1, vocab)
  multi = input_type == 'multiclass-multioutput'
  per_k = []
  for k in sorted(set(k_list)):
    _, _, pk = encode(input_type, 'macro', y_true, truncate(y_pred, k, multi),
                      1, classes)
    per_k.append(counts_per_class(classes, t, pk))
  return {n: [_mean(cm_rate(n, *pc[c]) for pc in per_k) for c in classes]
          for n in names}


def classification_confusion(input_type, average, y_true, y_pred, pos_label=1,
                             vocab=None, k_list=None):
  if not k_list:
    classes, t, p = encode(input_type, average, y_true, y_pred, pos_label, vocab)
    return confusion(average, classes, t, p)
  multi = input_type == 'multiclass-multioutput'
  classes, t, _ = encode(input_type, average, y_true, y_pred, pos_label, vocab)
  per_k = []
  for k in sorted(set(k_list)):
    _, _, p = encode(input_type, average, y_true,
                     truncate(y_pred, k, multi), pos_label, classes)
    per_k.append(confusion(average, classes, t, p))
  return tuple([c[i] for c in per_k] for i in range(4))   # tp/tn/fp/fn per k


# --------------------------------------------------------------------------
# retrieval: per row, then mean over rows
# --------------------------------------------------------------------------

RETRIEVAL_ALIASES = [
    ('precision', 'ppv', 'positive_predictive_value'),
    ('recall', 'tpr', 'sensitivity'),
    ('threat_score', 'intersection_over_union'),
]


def retrieval_row(name, true, pred, k):
  """Metric of one ranking `pred` against the relevant set `true` at cut-off k."""
  true = set(true)
  hits = [1 if x in true else 0 for x in pred]
  n_k = len(pred) if k == INF else min(k, len(pred))
  tp = sum(hits[:n_k])
  fp = n_k - tp
  fn = len(true) - tp
  precision = sdiv(tp, n_k)
  recall = sdiv(tp, len(true))
  if name in ('precision', 'ppv', 'positive_predictive_value'):
    return precision
  if name in ('recall', 'tpr', 'sensitivity'):
    return recall
  if name == 'accuracy':
    return F(1 if tp > 0 else 0)
  if name == 'f1_score':
    return sdiv(2 * precision * recall, precision + recall)
  if name in ('intersection_over_union', 'threat_score'):
    return sdiv(tp, tp + fn + fp)
  if name == 'miss_rate':
    return 1 - recall
  if name == 'false_discovery_rate':
    return 1 - precision
  if name == 'fowlkes_mallows_index':
    return math.sqrt(precision * recall)
  if name == 'mean_average_precision':
    s = F(0)
    for i in range(1, n_k + 1):
      if hits[i - 1]:
        s += F(sum(hits[:i]), i)
    den = len(true) if k == INF else min(k, len(true))
    return sdiv(s, den)
  if name == 'mean_reciprocal_rank':
    for i in range(1, n_k + 1):
      if hits[i - 1]:
        return F(1, i)
    return F(0)
  if name == 'dcg_score':
    return math.fsum(1.0 / math.log2(i + 1)
                     for i in range(1, n_k + 1) if hits[i - 1])
  if name == 'ndcg_score':
    dcg = math.fsum(1.0 / math.log2(i + 1)
                    for i in range(1, n_k + 1) if hits[i - 1])
    n_ideal = len(true) if k == INF else min(k, len(true))
    ideal = math.fsum(1.0 / math.log2(i + 1) for i in range(1, n_ideal + 1))
    return dcg / ideal if ideal else 0.0
  raise KeyError(name)


@functools.lru_cache(maxsize=None)
def _row_memo(name, true, pred, k):
  return retrieval_row(name, true, pred, k)   # pure function of small tuples


def retrieval_all(names, y_true, y_pred, k_list=None, with_means=True):
  """-> (ks, {metric: rows x ks}, {metric: mean over rows per k}).

  k_list=None means one cut-off k = infinity.
  """
  ks = sorted(k_list) if k_list else [INF]
  pairs = [(tuple(t), tuple(p)) for t, p in zip(y_true, y_pred)]
  rows = {n: [[_row_memo(n, t, p, k) for k in ks] for t, p in pairs]
          for n in names}
  means = {n: [_mean(r[j] for r in rows[n]) for j in range(len(ks))]
           for n in names} if with_means else None
  return ks, rows, means


def batch_cutoff(y_pred, k_list):
  """Diagnostic only: the cut-off the implementation clamps every k to."""
  longest = max(len(r) for r in y_pred)
  return longest if not k_list else min(longest, max(k_list))


def retrieval_clamped_k(name, y_true, y_pred, k_list=None):
  """Diagnostic only: the metric with every k clamped to the batch's longest
  prediction (NOT the definition); recognises one failure class by name."""
  m = batch_cutoff(y_pred, k_list)
  ks = sorted(k_list) if k_list else [INF]
  return [_mean(retrieval_row(name, t, p, min(k, m))
                for t, p in zip(y_true, y_pred)) for k in ks]


def threat_score_with_k(y_true, y_pred, k_list=None):
  """Diagnostic only: tp / (fn + k) with k clamped to the batch's longest
  prediction instead of tp / (tp + fn + fp)."""
  m = batch_cutoff(y_pred, k_list)
  ks = sorted(k_list) if k_list else [INF]
  out = []
  for k in ks:
    k = min(k, m)
    vals = []
    for t, p in zip(y_true, y_pred):
      tp = sum(1 for x in p[:k] if x in set(t))
      vals.append(sdiv(tp, len(set(t)) - tp + k))
    out.append(_mean(vals))
  return out


# --------------------------------------------------------------------------
# histograms
# --------------------------------------------------------------------------

def hist_bin(x, lo, hi, bins):
  """Index of the equal-width bin of x in [lo, hi] (last bin closed) or None."""
  if x != x or x < lo or x > hi:
    return None
  if x == hi:
    return bins - 1
  return int((F(x) - F(lo)) * bins / (F(hi) - F(lo)))


def edges_bin(x, edges):
  if x != x or x < edges[0] or x > edges[-1]:
    return None
  if x == edges[-1]:
    return len(edges) - 2
  for i in range(len(edges) - 1):
    if edges[i] <= x < edges[i + 1]:
      return i
  return None


def histogram(values, lo=None, hi=None, bins=None, edges=None, weights=None):
  n = len(edges) - 1 if edges is not None else bins
  out = [F(0)] * n
  for i, x in enumerate(values):
    b = edges_bin(x, edges) if edges is not None else hist_bin(x, lo, hi, bins)
    if b is not None:
      out[b] += F(weights[i]) if weights is not None else 1
  return out


def bin_edges(lo, hi, bins):
  return [F(lo) + (F(hi) - F(lo)) * i / bins for i in range(bins + 1)]


def calibration_histogram(labels, predictions, lo, hi, bins):
  """Documented layout: every input value binned by its own value."""
  return {
      'num_examples_hist': histogram(list(labels) + list(predictions), lo, hi,
                                     bins),
      'labels_hist': histogram(labels, lo, hi, bins, weights=labels),
      'predictions_hist': histogram(predictions, lo, hi, bins,
                                    weights=predictions),
      'bin_edges': bin_edges(lo, hi, bins),
  }


# --------------------------------------------------------------------------
# rolling statistics
# --------------------------------------------------------------------------

def nan_stats(column):
  """(count, mean, population variance, total) of the non-NaN entries."""
  xs = [F(x) for x in column if x == x]
  n = len(xs)
  if n == 0:
    return 0, NAN, NAN, 0
  mean = sum(xs, F(0)) / n
  var = sum(((x - mean) ** 2 for x in xs), F(0)) / n
  return n, mean, var, sum(xs, F(0))


def columns(batch):
  """A 1-D batch is one column; a 2-D batch is column-wise."""
  if batch and isinstance(batch[0], (list, tuple)):
    return [[row[j] for row in batch] for j in range(len(batch[0]))], True
  return [list(batch)], False


def mean_and_variance(batch):
  cols, two_d = columns(batch)
  st = [nan_stats(c) for c in cols]
  pick = lambda i: [s[i] for s in st] if two_d else st[0][i]
  var = pick(2)
  sd = ([_sqrt(v) for v in var] if two_d else _sqrt(var))
  return {'count': pick(0), 'mean': pick(1), 'var': var, 'stddev': sd,
          'total': pick(3)}


def _sqrt(v):
  return NAN if v != v else math.sqrt(v)


def min_max_count(batch, axis=None):
  cols, two_d = columns(batch)
  flat = [x for c in cols for x in c]
  if axis is None or not two_d:
    return {'count': len(flat), 'min': min(flat), 'max': max(flat)}
  return {'count': len(flat), 'min': [min(c) for c in cols],
          'max': [max(c) for c in cols]}


def r2_tjur(y_true, y_pred):
  pos = [p for t, p in zip(y_true, y_pred) if t == 1]
  neg = [p for t, p in zip(y_true, y_pred) if t == 0]
  if not pos or not neg:
    return NAN
  return _mean(F(p) for p in pos) - _mean(F(p) for p in neg)


def r2_tjur_relative(y_true, y_pred):
  pos = [p for t, p in zip(y_true, y_pred) if t == 1]
  neg = [p for t, p in zip(y_true, y_pred) if t == 0]
  if not pos or sum(F(p) for p in neg) == 0:
    return NAN
  return _mean(F(p) for p in pos) / _mean(F(p) for p in neg)


def r_regression(x, y, center=True):
  """Pearson (center) / reflective correlation; None = undefined (0 variance)."""
  x, y = [F(v) for v in x], [F(v) for v in y]
  n = len(x)
  if n == 0:
    return None
  mx, my = (sum(x) / n, sum(y) / n) if center else (F(0), F(0))
  sxy = sum((a - mx) * (b - my) for a, b in zip(x, y))
  sxx = sum((a - mx) ** 2 for a in x)
  syy = sum((b - my) ** 2 for b in y)
  if sxx == 0 or syy == 0:
    return None
  return float(sxy) / math.sqrt(sxx * syy)


def symmetric_prediction_difference(x, y):
  if not x:
    return NAN
  return 2 * _mean(sdiv(abs(F(a) - F(b)), abs(F(a) + F(b)))
                   for a, b in zip(x, y))


# --------------------------------------------------------------------------
# text
# --------------------------------------------------------------------------

def words(text):
  kept = ''.join(ch for ch in text
                 if ('a' <= ch <= 'z') or ('A' <= ch <= 'Z') or ch == ' ')
  return kept.lower().split()


def _ranked(counts, n_texts):
  items = [(key, sdiv(c, n_texts)) for key, c in counts.items()]
  return sorted(items, key=lambda kv: (-kv[1], kv[0]))


def topk_word_ngrams(texts, k, n, use_first_ngram_only=False,
                     count_duplicate=True):
  counts = {}
  for text in texts:
    w = words(text)
    grams = [' '.join(w[i:i + n]) for i in range(len(w) - n + 1)]
    if use_first_ngram_only:
      grams = grams[:1]
    elif not count_duplicate:
      grams = sorted(set(grams))
    for g in grams:
      counts[g] = counts.get(g, 0) + 1
  return _ranked(counts, len(texts))[:k]


def pattern_frequency(texts, patterns, count_duplicate=True):
  counts = {}
  for pat in patterns:
    c = 0
    for text in texts:
      occ = sum(1 for i in range(len(text) - len(pat) + 1)
                if text[i:i + len(pat)] == pat)   # overlapping occurrences
      c += occ if count_duplicate else min(occ, 1)
    counts[pat] = c
  return _ranked(counts, len(texts))


def alphabetical_char_count(text):
  return sum(1 for ch in text if ('a' <= ch <= 'z') or ('A' <= ch <= 'Z'))


# --------------------------------------------------------------------------
# signals
# --------------------------------------------------------------------------

def binary_flip(base, model, threshold=None):
  if threshold is not None:
    base, model = base > threshold, model > threshold
  return int(bool(base) != bool(model))


def neg_to_pos_flip(base, model, threshold=None):
  if threshold is None:
    return int((not base) and bool(model))
  return int(base <= threshold < model)


def pos_to_neg_flip(base, model, threshold=None):
  if threshold is None:
    return int(bool(base) and (not model))
  return int(base > threshold >= model)


def binary_cross_entropy(y_true, y_pred):
  return -math.fsum(math.log(p) if t == 1 else math.log(1 - p)
                    for t, p in zip(y_true, y_pred)) / len(y_true)


def categorical_cross_entropy(y_true, y_pred):
  """-sum_i y_i log(p_i / sum p); a class with y_i = 0 contributes nothing."""
  s = math.fsum(y_pred)
  return -math.fsum(math.log(p / s) for t, p in zip(y_true, y_pred) if t == 1)


def topk_accuracy(scores, label, k, weights=None):
  """True / False, or None when a tie at the cut-off leaves it undefined."""
  w = [s * (weights[i] if weights is not None else 1.0)
       for i, s in enumerate(scores)]
  greater = sum(1 for v in w if v > w[label])
  ties = sum(1 for i, v in enumerate(w) if v == w[label] and i != label)
  if greater >= k:
    return False
  if greater + ties < k:
    return True
  return None
