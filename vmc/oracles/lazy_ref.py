"""Reference model for C17: an eager mirror interpreter and an OrderedDict LRU.

Independent of the implementation: imports only the fixtures.  Expressions are
small tuples (JSON-able, lists after a JSON round trip):

  ('c', v)                      a plain constant argument
  ('lc', v)                     a traced constant, trace(v)
  ('f', name)                   a traced fixture callable, trace(fixtures.name)
  ('k', name)                   a plain constant fixtures.opaque(name): unhashable
                                and not value-equal across serialised copies
  ('lk', name)                  the same, traced: trace(fixtures.opaque(name))
  ('v', slot)                   a run-time value taken from env[slot] (handles)
  ('call', fn, args, kwargs, flag)   fn(*args, **kwargs); flag '' | 'c' | 'l'
                                (cache_result_ / lazy_result_); kwargs = pairs
  ('attr', e, name)             e.name
  ('item', e, key)              e[key]

Semantics encoded (documented behaviour of lazy_fns):
* callee first, then positional, then keyword arguments, left to right;
* a cached call is looked up in a bounded LRU before anything is evaluated;
  the key is the call *by value* (callee and arguments, flags ignored) when all
  direct plain arguments are hashable, else the identity of that call object
  (which survives pickling);
* lazy_result_ wraps the value in a handle registered in a second LRU; calling
  / attribute / item access on a handle acts on the referenced object (handle
  arguments of such a call are dereferenced too); a callable's result that is
  a handle is dereferenced; a plain function just receives the handle;
* dereferencing a handle that is no longer registered raises MissingObject.
"""
import collections
import operator

from vmc import fixtures_lazy as fx


class RefLru:
  """Boring LRU: an OrderedDict, oldest first."""

  def __init__(self, maxsize):
    self.maxsize = maxsize
    self.d = collections.OrderedDict()
    self.hits = 0
    self.misses = 0

  def get(self, key):
    """(found, value); a found key becomes the most recently used."""
    if key in self.d:
      self.hits += 1
      self.d.move_to_end(key)
      return True, self.d[key]
    self.misses += 1
    return False, None

  def put(self, key, value):
    # Overwriting replaces the value in place (not counted as a use); a new
    # key is the most recent one and may push out the least recent one.
    self.d[key] = value
    while len(self.d) > self.maxsize:
      self.d.popitem(last=False)

  def clear(self):
    self.d.clear()
    self.hits = 0
    self.misses = 0

  def info(self):
    return (self.hits, self.misses, len(self.d))


class Handle:
  """What lazy_result_ yields: an opaque reference."""

  def __init__(self, serial):
    self.serial = serial


class MissingObject(Exception):
  pass


def _unhashable(v):
  try:
    hash(v)
    return False
  except TypeError:
    return True


def _tup(x):
  return tuple(_tup(v) for v in x) if isinstance(x, (list, tuple)) else x


def cache_key(ast):
  t = ast[0]
  if t == 'c':
    return ('c', ast[1])
  if t == 'lc':
    return ('id', repr(_tup(ast))) if _unhashable(ast[1]) else ('lc', ast[1])
  if t in ('f', 'v'):
    return (t, ast[1])
  if t in ('k', 'lk'):
    # never by value: the identity of the traced constant (of the call object
    # when it is a direct plain argument, see below)
    return ('id', repr(_tup(ast)))
  if t == 'attr':
    fn, args, kwargs = ('builtin', 'getattr'), [ast[1], ('c', ast[2])], ()
  elif t == 'item':
    fn, args, kwargs = ('builtin', 'getitem'), [ast[1], ('c', ast[2])], ()
  else:
    fn, args, kwargs = cache_key(ast[1]), ast[2], ast[3]
  for a in list(args) + [v for _, v in kwargs]:
    if a[0] == 'k' or (a[0] == 'c' and _unhashable(a[1])):
      return ('id', repr(_tup(ast)))
  return ('call', fn, tuple(cache_key(a) for a in args),
          tuple((k, cache_key(v)) for k, v in kwargs))


class Mirror:
  """Evaluates expression tuples eagerly, with the caching contract."""

  def __init__(self, maxsize=128, obj_maxsize=1024):
    self.fns = RefLru(maxsize)
    self.objs = RefLru(obj_maxsize)
    self.serial = 0
    self.env = {}

  # -- the public operations --------------------------------------------
  def make(self, ast):
    return self.ev(ast)

  def make_value(self, v):
    return self.post(v)

  def clear_cache(self):
    self.fns.clear()

  def clear_object(self):
    self.objs.clear()

  # -- handles -------------------------------------------------------------
  def new_handle(self, value):
    self.serial += 1
    self.objs.put(self.serial, value)
    return Handle(self.serial)

  def deref(self, h):
    ok, v = self.objs.get(h.serial)
    if not ok:
      raise MissingObject(h.serial)
    return v

  def post(self, v):
    return self.deref(v) if isinstance(v, Handle) else v

  # -- evaluation ----------------------------------------------------------
  def ev(self, ast):
    t = ast[0]
    if t in ('c', 'lc'):
      return ast[1]
    if t == 'f':
      return getattr(fx, ast[1])
    if t in ('k', 'lk'):
      return fx.opaque(ast[1])
    if t == 'v':
      return self.post(self.env[ast[1]])
    if t == 'attr':
      return self.apply(getattr, [self.ev(ast[1]), ast[2]], {})
    if t == 'item':
      return self.apply(operator.getitem, [self.ev(ast[1]), ast[2]], {})
    flag = ast[4]
    if flag == 'c':
      key = cache_key(ast)
      ok, v = self.fns.get(key)
      if ok:
        return v
      v = self.call(ast)
      self.fns.put(key, v)
      return v
    v = self.call(ast)
    if flag == 'l':
      v = self.new_handle(v)
    return v

  def call(self, ast):
    fn = self.ev(ast[1])
    if not (callable(fn) or isinstance(fn, Handle)):
      raise TypeError('not callable')
    args = [self.ev(a) for a in ast[2]]
    kwargs = {k: self.ev(v) for k, v in ast[3]}
    return self.apply(fn, args, kwargs)

  def apply(self, fn, args, kwargs):
    if isinstance(fn, Handle):
      target = self.deref(fn)
      if not callable(target):
        raise TypeError('not callable')
      args = [self.post(a) for a in args]
      kwargs = {k: self.post(v) for k, v in kwargs.items()}
      return self.post(self.apply(target, args, kwargs))
    if fn in (getattr, operator.getitem) and isinstance(args[0], Handle):
      if fn is getattr and args[1].startswith('__') and args[1].endswith('__'):
        raise AttributeError(args[1])
      return self.post(self.apply(fn, [self.deref(args[0]), args[1]], {}))
    return self.post(fn(*args, **kwargs))


def normalise(v, is_handle, deref):
  """A comparable, run-independent form of a result (same code both sides)."""
  if v is None or isinstance(v, (bool, int, float, str)):
    return v
  if is_handle(v):
    try:
      return ['handle', normalise(deref(v), is_handle, deref)]
    except Exception as e:  # pylint: disable=broad-except
      return ['handle-error', type(e).__name__]
  if isinstance(v, (list, tuple)):
    return [type(v).__name__] + [normalise(x, is_handle, deref) for x in v]
  if isinstance(v, dict):
    return {str(k): normalise(x, is_handle, deref) for k, x in v.items()}
  if isinstance(v, fx.Acc):
    return ['Acc', normalise(v.a, is_handle, deref),
            normalise(v.b, is_handle, deref)]
  if isinstance(v, fx.Scale):
    return ['Scale', v.k]
  if isinstance(v, fx.Tok):
    return ['Tok', v.name]
  if isinstance(v, fx.np.ndarray):
    return ['ndarray', v.tolist()]
  if isinstance(v, fx.np.generic):
    return ['npscalar', v.item()]
  if callable(v):
    return ['callable', getattr(v, '__qualname__', type(v).__name__)]
  return ['other', type(v).__name__]
