"""Drop-in replacement for the parts of `threading` that ml-metrics uses.

Bound into the modules under test as their global `threading`.  Every blocking
or visible operation is a scheduling point of `vmc.sched`.  Outside an active
execution the classes degrade to trivially sequential behaviour (so objects
created at import time keep working).
"""
from __future__ import annotations

import threading as _rt

from vmc import sched

# re-exported real names the library may touch
TIMEOUT_MAX = _rt.TIMEOUT_MAX
get_ident = _rt.get_ident
main_thread = _rt.main_thread
local = _rt.local
ThreadError = RuntimeError


def _s():
  return sched._current


def _name(kind):
  s = _s()
  if s is None:
    return kind
  me = s.current
  me.nobj += 1
  return f'{kind}{me.tid}.{me.nobj}'


def _check_acquire_args(blocking, timeout):
  """The argument validation of the real Lock.acquire / RLock.acquire."""
  if not isinstance(timeout, (int, float)):      # None included
    raise TypeError(f"'{type(timeout).__name__}' object cannot be "
                    'interpreted as an integer or float')
  if not blocking and timeout != -1:
    raise ValueError("can't specify a timeout for a non-blocking call")
  if timeout < 0 and timeout != -1:
    raise ValueError('timeout value must be positive')


class Lock:
  _kind = 'L'

  def __init__(self):
    self._owner = None
    self.name = _name(self._kind)

  def _me(self):
    s = _s()
    return s.current if s is not None else 'seq'

  def _free(self):
    return self._owner is None

  def acquire(self, blocking=True, timeout=-1):
    _check_acquire_args(blocking, timeout)
    s = _s()
    if s is None:
      if self._owner is not None:
        if not blocking:
          return False
        raise sched.HarnessError('sequential deadlock on ' + self.name)
      self._owner = 'seq'
      return True
    s.point('acquire', self.name)
    while self._owner is not None:
      if not blocking:
        return False
      deadline = None if timeout is None or timeout < 0 else s.clock + timeout
      if not s.block(self._free, deadline, 'lock-wait', self.name):
        return False
    self._owner = s.current
    return True

  def release(self):
    s = _s()
    if self._owner is None:
      if s is not None and s.aborting:
        return
      raise RuntimeError('release unlocked lock')
    if s is not None:
      s.note('release', self.name)
    self._owner = None

  def locked(self):
    return self._owner is not None

  __enter__ = acquire

  def __exit__(self, *a):
    self.release()

  def __repr__(self):
    return f'<v{type(self).__name__} {self.name} owner={self._owner}>'


class RLock(Lock):
  _kind = 'R'

  def __init__(self):
    super().__init__()
    self._count = 0

  def acquire(self, blocking=True, timeout=-1):
    _check_acquire_args(blocking, timeout)
    s = _s()
    me = s.current if s is not None else 'seq'
    if self._owner is me:
      self._count += 1
      return True
    if not Lock.acquire(self, blocking, timeout):
      return False
    self._count = 1
    return True

  def release(self):
    s = _s()
    me = s.current if s is not None else 'seq'
    if self._owner is not me:
      if s is not None and s.aborting:
        return
      raise RuntimeError('cannot release un-acquired lock')
    self._count -= 1
    if self._count == 0:
      if s is not None:
        s.note('release', self.name)
      self._owner = None

  __enter__ = acquire

  if not hasattr(_rt.RLock(), 'locked'):     # the real RLock has none (< 3.14)
    @property
    def locked(self):
      raise AttributeError("'RLock' object has no attribute 'locked'")

  def _is_owned(self):
    s = _s()
    return self._owner is (s.current if s is not None else 'seq')

  # used by Condition.wait
  def _release_save(self):
    s = _s()
    if s is not None:
      s.note('release', self.name)
    state = (self._count, self._owner)
    self._count, self._owner = 0, None
    return state

  def _acquire_restore(self, state):
    s = _s()
    while self._owner is not None:
      s.block(self._free, None, 'lock-wait', self.name)
    self._count, self._owner = state


class _Waiter:
  __slots__ = ('notified',)

  def __init__(self):
    self.notified = False

  def is_set(self):
    return self.notified


class Condition:

  def __init__(self, lock=None):
    self._lock = lock if lock is not None else RLock()
    self._waiters = []
    self.name = _name('C')
    self.acquire = self._lock.acquire
    self.release = self._lock.release

  def __enter__(self):
    return self._lock.acquire()

  def __exit__(self, *a):
    self._lock.release()

  def _is_owned(self):
    if isinstance(self._lock, RLock):
      return self._lock._is_owned()
    s = _s()
    return self._lock._owner is (s.current if s is not None else 'seq')

  def wait(self, timeout=None):
    s = _s()
    if not self._is_owned():
      raise RuntimeError('cannot wait on un-acquired lock')
    if s is None:
      raise sched.HarnessError('Condition.wait outside an execution')
    w = _Waiter()
    self._waiters.append(w)
    if isinstance(self._lock, RLock):
      saved = self._lock._release_save()
    else:
      s.note('release', self._lock.name)
      self._lock._owner = None
      saved = None
    deadline = None if timeout is None else s.clock + timeout
    try:
      got = s.block(w.is_set, deadline, 'cond-wait', self.name)
      if not got:
        try:
          self._waiters.remove(w)
        except ValueError:
          pass
      return got
    finally:
      if not s.aborting:
        if isinstance(self._lock, RLock):
          self._lock._acquire_restore(saved)
        else:
          while self._lock._owner is not None:
            s.block(self._lock._free, None, 'lock-wait', self._lock.name)
          self._lock._owner = s.current

  def wait_for(self, predicate, timeout=None):
    s = _s()
    end = None
    left = timeout
    result = predicate()
    while not result:
      if left is not None:
        if end is None:       # as the real one: the first wait is unconditional
          end = s.clock + left
        else:
          left = end - s.clock
          if left <= 0:
            break
      self.wait(left)
      result = predicate()
    return result

  def notify(self, n=1):
    s = _s()
    if not self._is_owned():
      raise RuntimeError('cannot notify on un-acquired lock')
    if s is not None:
      s.point('notify', self.name)
    for w in self._waiters[:n]:
      w.notified = True
    del self._waiters[:n]

  def notify_all(self):
    self.notify(len(self._waiters))

  notifyAll = notify_all


class Event:

  def __init__(self):
    self._flag = False
    self.name = _name('E')

  def is_set(self):
    return self._flag

  isSet = is_set

  def set(self):
    s = _s()
    if s is not None:
      s.point('event-set', self.name)
    self._flag = True

  def clear(self):
    self._flag = False

  def wait(self, timeout=None):
    s = _s()
    if self._flag:
      return True
    if s is None:
      raise sched.HarnessError('Event.wait outside an execution')
    deadline = None if timeout is None else s.clock + timeout
    s.block(self.is_set, deadline, 'event-wait', self.name)
    return self._flag


class Semaphore:

  def __init__(self, value=1):
    if value < 0:
      raise ValueError('semaphore initial value must be >= 0')
    self._value = value
    self.name = _name('S')

  def acquire(self, blocking=True, timeout=None):
    if not blocking and timeout is not None:
      raise ValueError("can't specify timeout for non-blocking acquire")
    s = _s()
    s.point('sem-acquire', self.name)
    while self._value <= 0:
      if not blocking:
        return False
      deadline = None if timeout is None else s.clock + timeout
      if not s.block(lambda: self._value > 0, deadline, 'sem-wait', self.name):
        return False
    self._value -= 1
    return True

  def release(self, n=1):
    if n < 1:
      raise ValueError('n must be one or more')
    s = _s()
    if s is not None:
      s.note('sem-release', self.name)
    self._value += n

  __enter__ = acquire

  def __exit__(self, *a):
    self.release()


class BoundedSemaphore(Semaphore):

  def __init__(self, value=1):
    super().__init__(value)
    self._initial_value = value

  def release(self, n=1):
    if n < 1:
      raise ValueError('n must be one or more')
    if self._value + n > self._initial_value:
      raise ValueError('Semaphore released too many times')
    super().release(n)


class Thread:
  """A v-thread.  Must be created and started inside an execution."""

  def __init__(self, group=None, target=None, name=None, args=(), kwargs=None,
               *, daemon=None):
    self._target, self._args, self._kwargs = target, args, kwargs or {}
    self.name = name or 'Thread'
    self.daemon = bool(daemon)
    self._vt = None
    self._started = False

  def run(self):
    if self._target is not None:
      self._target(*self._args, **self._kwargs)

  def start(self):
    s = sched.cur()
    if self._started:
      raise RuntimeError('threads can only be started once')
    self._started = True
    self._vt = s.new_thread(self.run, self.name)
    self._vt.service = getattr(self, '_service', False)
    self._vt.pyobj = self
    s.start_thread(self._vt)

  def join(self, timeout=None):
    s = sched.cur()
    if self._vt is None:
      raise RuntimeError('cannot join thread before it is started')
    vt = self._vt
    s.point('join', 'T:' + vt.uid)
    if vt.state != sched.DONE:
      deadline = None if timeout is None else s.clock + timeout
      s.block(lambda: vt.state == sched.DONE, deadline, 'join-wait',
              'T:' + vt.uid)

  def is_alive(self):
    return self._vt is not None and self._vt.state != sched.DONE

  @property
  def ident(self):
    return None if self._vt is None else self._vt.tid

  def __repr__(self):
    return f'<vThread {self.name}>'


def current_thread():
  s = _s()
  if s is None:
    return _rt.current_thread()
  t = s.current.pyobj
  if t is None:
    t = Thread(name=s.current.name)
    t._vt = s.current
    t._started = True
    s.current.pyobj = t
  return t


def active_count():
  s = _s()
  if s is None:
    return _rt.active_count()
  return sum(1 for t in s.threads if t.state in (sched.RUN, sched.BLOCKED))


def enumerate():  # pylint: disable=redefined-builtin
  s = _s()
  if s is None:
    return _rt.enumerate()
  return [current_thread()]
