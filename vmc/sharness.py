"""C03: pipeline grammar, strategy builders and the E1 harness for threaded runs.

A *program* is (ops, agg): a tuple of operator ids from `OPS` followed by an
aggregate id from `AGGS` (or None).  A *strategy* says how the same program is
executed: the cut set that groups [source, op1, .., opk, aggregate] into named
stages (same name => fused by `TreeTransform.chain`), the number of threads of
every stage, the kind of data source and the shard it reads.

The oracle of every strategy is the same program built fluently as one fused
stage and iterated single-threaded over the whole data source.
"""
from __future__ import annotations

import collections

from vmc import explorer, fixtures_c03 as fx, hooks, sched, vfutures
from vmc.qharness import _info, _stuck

# ---- data ---------------------------------------------------------------------

ROWS_PER_RECORD = (2, 1, 2, 1, 1, 2, 1)


def dataset(n):
  """n records; record i is a batch of ROWS_PER_RECORD[i mod 7] rows with
  columns a (feature in {1,2}) and v (r*r+1 for the global row index r; no two
  rows - hence no two records - are equal)."""
  out, r = [], 0
  for i in range(n):
    k = ROWS_PER_RECORD[i % len(ROWS_PER_RECORD)]
    out.append({'a': [1 + (r + j) % 2 for j in range(k)],
                'v': [(r + j) * (r + j) + 1 for j in range(k)]})
    r += k
  return out


# ---- grammar ----------------------------------------------------------------------

AV = ('a', 'v')

OPS = {
    # apply: the record is replaced by the outputs
    'ap': lambda t: t.apply(fn=fx.bump, input_keys=AV, output_keys=AV),
    # assign: adds a column
    'aw': lambda t: t.assign('w', fn=fx.double, input_keys='v'),
    'au': lambda t: t.assign('u', fn=fx.plus, input_keys=AV),
    # select: keeps / renames columns
    'se': lambda t: t.select(AV),
    'sw': lambda t: t.select(('v', 'a'), AV),
    # filter: a whole record is kept or dropped
    'fi': lambda t: t.filter(fx.keep, input_keys='v'),
    # re-batching operators (only generated as the last operator)
    'r1': lambda t: t.apply(fn=fx.ident2, input_keys=AV, output_keys=AV,
                            batch_size=1),
    'r2': lambda t: t.apply(fn=fx.ident2, input_keys=AV, output_keys=AV,
                            batch_size=2),
}
PLAIN_OPS = ('ap', 'aw', 'au', 'se', 'sw', 'fi')
REBATCH_OPS = ('r1', 'r2')

# id -> ([(aggregate maker, output key)], slicer?)
AGGS = {
    'bag': ([('Bag', 'rows')], False),
    'bag/a': ([('Bag', 'rows')], True),
    'inplace': ([('BagInPlace', 'rows')], False),
    'inplace/a': ([('BagInPlace', 'rows')], True),
    'metric': ([('BagMetric', 'rows')], False),
    'metric/a': ([('BagMetric', 'rows')], True),
    # not thread-safe by itself (E1 harness only)
    'racy': ([('BagRacy', 'rows')], False),
    # two aggregates: separate elements of the stage grouping, so that they
    # can live in one stage or in two
    'bag+inplace': ([('Bag', 'rows'), ('BagInPlace', 'rows2')], False),
}


def _agg_fn(kind):
  if kind == 'BagMetric':
    from ml_metrics._src.aggregates import base
    return base.as_agg_fn(fx.BagMetric)
  return getattr(fx, kind)()


def agg_elements(agg):
  """One builder per aggregate of the program; the slicer goes with the last
  (in a fused stage a slicer applies to every aggregate of the stage, so a
  sliced program has one aggregate)."""
  if not agg:
    return []
  parts, sliced = AGGS[agg]
  out = []
  for i, (kind, key) in enumerate(parts):
    def add(t, kind=kind, key=key, last=i == len(parts) - 1):
      kw = dict(fn=_agg_fn(kind), input_keys=AV, output_keys=key)
      t = t.add_aggregate(**kw) if t.agg_fns else t.aggregate(**kw)
      if sliced and last:
        t = t.add_slice('a')
      return t
    out.append(add)
  return out


def add_agg(t, agg):
  for add in agg_elements(agg):
    t = add(t)
  return t


def num_elements(ops, agg):
  return 1 + len(ops) + len(agg_elements(agg))


def op_lists(max_ops, rebatch=REBATCH_OPS, plain=PLAIN_OPS):
  """Every operator list of <= max_ops operators: no assign key twice, a
  re-batching operator only in the last position."""
  import itertools as itt
  out = []
  for k in range(max_ops + 1):
    for seq in itt.product(plain, repeat=k):
      if seq.count('aw') > 1 or seq.count('au') > 1:
        continue
      out.append(seq)
    if k >= 1:
      for seq in itt.product(plain, repeat=k - 1):
        if seq.count('aw') > 1 or seq.count('au') > 1:
          continue
        for r in rebatch:
          out.append(seq + (r,))
  return out


def rebatches(ops):
  return any(o in REBATCH_OPS for o in ops)


def cut_sets(m):
  """Every subset of the m-1 gaps between m elements, as sorted tuples."""
  import itertools as itt
  gaps = range(1, m)
  for k in range(m):
    yield from itt.combinations(gaps, k)


def split_sequences(records):
  """The records as three sequences of lengths n//3, 0, n - n//3 (the sequence
  boundary falls inside a shard for most shard counts)."""
  records = list(records)
  c = len(records) // 3
  return [records[:c], [], records[c:]]


def make_source(kind, records, shard=None):
  from ml_metrics._src.chainables import io
  if kind == 'seq':
    ds = io.SequenceDataSource(records)
    return ds.shard(*shard) if shard else ds
  if kind == 'mseq':     # one data source over several sequences, one empty
    ds = io.SequenceDataSource.from_sequences(split_sequences(records))
    return ds.shard(*shard) if shard else ds
  if kind == 'iter':     # round-robin shardable wrapper of a plain iterable
    ds = io.ShardedIterable(records)
    return ds.shard(*shard) if shard else ds
  if kind == 'stream':   # not shardable, not thread-safe by itself
    assert not shard
    return fx.Stream(records)
  if kind == 'list':
    assert not shard
    return list(records)
  raise ValueError(kind)


def build_fluent(ops, agg, source, num_threads=0):
  """The reference form: one fused stage written as a fluent chain."""
  from ml_metrics._src.chainables import transform
  t = transform.TreeTransform.new(name='s', num_threads=num_threads)
  t = t.data_source(source)
  for o in ops:
    t = OPS[o](t)
  if agg:
    t = add_agg(t, agg)
  return t


def build_chained(ops, agg, source, cuts=(), threads=None, agg_first=None):
  """[source, op.., agg] grouped into stages by `cuts` (gap indices); every
  element is its own transform, `chain` fuses neighbours with the same name.
  threads: None | int (every stage) | {stage index: num_threads}.
  agg_first: an aggregate id attached to the source element (so that the
  aggregate lives in the first stage and later stages consume its iterator)."""
  from ml_metrics._src.chainables import transform
  aggs = agg_elements(agg)
  m = 1 + len(ops) + len(aggs)
  stage_of = [sum(1 for c in cuts if c <= j) for j in range(m)]

  def new(j):
    s = stage_of[j]
    if threads is None:
      k = 0
    elif isinstance(threads, int):
      k = threads
    else:
      k = threads.get(s, threads.get(str(s), 0))
    return transform.TreeTransform.new(name=f's{s}', num_threads=k)

  t = new(0).data_source(source)
  if agg_first:
    t = add_agg(t, agg_first)
  for j, o in enumerate(ops):
    t = t.chain(OPS[o](new(j + 1)))
  for i, add in enumerate(aggs):
    t = t.chain(add(new(1 + len(ops) + i)))
  return t


# ---- observation ------------------------------------------------------------------

def plain(x):
  """JSON-like view (numpy scalars/arrays -> Python, tuples -> lists)."""
  import numpy as np
  if isinstance(x, np.ndarray):
    return plain(x.tolist())
  if isinstance(x, np.generic):
    return x.item()
  if isinstance(x, dict):
    return {k: plain(v) for k, v in x.items()}
  if isinstance(x, (list, tuple)):
    return [plain(v) for v in x]
  return x


def batch_key(b):
  b = plain(b)
  if isinstance(b, dict):
    return repr(sorted(b.items()))
  return repr(b)


def row_keys(b):
  """The rows of a batch (a dict of equally long columns)."""
  b = plain(b)
  if not isinstance(b, dict):
    return [repr(b)]
  cols = sorted(b)
  return [repr(tuple(zip(cols, vals))) for vals in zip(*(b[c] for c in cols))]


def bag_of(batches, rows):
  c = collections.Counter()
  for b in batches:
    if rows:
      c.update(row_keys(b))
    else:
      c[batch_key(b)] += 1
  return c


def canon_agg(result):
  """agg_result -> sorted [(metric, slice features, slice values), value]."""
  if result is None:
    return None
  out = []
  for k, v in dict(result).items():
    if isinstance(k, str):
      key = (k, None, None)
    else:
      sl = getattr(k, 'slice', None)
      key = (repr(plain(getattr(k, 'metrics', k))),
             repr(plain(getattr(sl, 'features', None))),
             repr(plain(getattr(sl, 'values', None))))
    out.append((key, repr(plain(v))))
  return sorted(out, key=repr)


def drain(it):
  """-> (emitted batches, value carried by StopIteration)."""
  out = []
  while True:
    try:
      out.append(next(it))
    except StopIteration as e:
      return out, e.value


class Observed:
  """What one run of a program shows."""

  def __init__(self, batches=(), agg=None, returned=None, error=None):
    self.batches, self.agg, self.returned, self.error = (
        list(batches), agg, returned, error)


def run_iterate(t, shard=None, data_source=None):
  """make().iterate() drained; -> Observed (agg = canon of it.agg_result,
  returned = canon of the AggregateResult carried by StopIteration).
  data_source: iterate over this source instead of the transform's own."""
  from ml_metrics._src.chainables import transform
  runner = t.make(shard=shard) if shard is not None else t.make()
  it = (runner.iterate() if data_source is None
        else runner.iterate(data_source=data_source))
  batches, ret = drain(it)
  returned = ('none',) if ret is None else (
      ('agg', canon_agg(ret.agg_result))
      if isinstance(ret, transform.AggregateResult) else ('other', repr(ret)))
  ob = Observed(batches, canon_agg(it.agg_result), returned)
  ob.agg_state = ret.agg_state if isinstance(
      ret, transform.AggregateResult) else None
  ob.it_agg_state = it.agg_state
  return ob


def worker_sources(t, shard=None):
  """The data sources the worker threads of the first stage of `t` would each
  iterate (`t` has num_threads > 0 there): the runner's own sharding of its
  data source, taken without starting a thread."""
  runner = t.make(shard=shard) if shard is not None else t.make()
  first = runner._runners[0]  # pylint: disable=protected-access
  return list(first._actual_inputs(None, None))  # pylint: disable=protected-access


def reference(ops, agg, records):
  """The oracle run: fluent, fused, single-threaded, over the whole source."""
  return run_iterate(build_fluent(ops, agg, make_source('seq', records)))


# ---- E1 harness: threaded strategies ------------------------------------------------

_ready = False


def prepare():
  global _ready
  if _ready:
    return
  from vmc import qharness
  from ml_metrics._src.chainables import transform
  qharness.prepare()                       # iter_utils shims + queue field hooks
  hooks.install_shims([transform])
  # the per-stage iterator is shared by the workers of the next stage
  hooks.instrument(transform._RunnerIterator)
  _ready = True


class Threaded(explorer.Harness):
  """A program iterated with worker threads; the main v-thread consumes.

  params:
    ops, agg:  the program
    n:         number of records
    source:    'seq' (shardable: num_threads shards) | 'iter' (round-robin
               shardable) | 'stream' (one shared iterator behind a lock)
    cuts:      cut set of the stage grouping ([] = one fused stage)
    threads:   int (every stage) or {stage: num_threads}
  """
  name = 'threaded'
  max_steps = 40000

  def __init__(self, ops=(), agg=None, n=2, source='seq', cuts=(), threads=1,
               mode='preempt', agg_first=None):
    self.params = dict(ops=list(ops), agg=agg, n=n, source=source,
                       cuts=list(cuts), threads=threads, mode=mode,
                       agg_first=agg_first)
    self.mode = mode
    prepare()
    self.records = dataset(n)
    if agg_first:
      # no fused form exists (operators follow the aggregate): the oracle is
      # the same chain without threads
      self.ref = run_iterate(build_chained(
          tuple(ops), agg, make_source('seq', self.records), tuple(cuts),
          agg_first=agg_first))
    else:
      self.ref = reference(tuple(ops), agg, self.records)
    self.rows = rebatches(ops)

  def reset(self):
    vfutures.ThreadPoolExecutor._pools.clear()

  def setup(self):
    p = self.params
    self.batches, self.end, self.agg, self.returned = [], None, None, None

    def body():
      from ml_metrics._src.chainables import transform
      threads = p['threads']
      if isinstance(threads, dict):
        threads = {int(k): v for k, v in threads.items()}
      t = build_chained(tuple(p['ops']), p['agg'],
                        make_source(p['source'], self.records),
                        cuts=tuple(p['cuts']), threads=threads,
                        agg_first=p['agg_first'])
      try:
        it = t.make().iterate()
        self.it = it
        while True:
          try:
            self.batches.append(next(it))
          except StopIteration as e:
            ret = e.value
            break
        self.returned = ('none',) if ret is None else (
            ('agg', canon_agg(ret.agg_result))
            if isinstance(ret, transform.AggregateResult)
            else ('other', repr(ret)))
        self.agg = canon_agg(it.agg_result)
        self.end = ('ok',)
      except sched.Abort:
        raise
      except BaseException as e:  # pylint: disable=broad-except
        self.end = ('exc', e)
      # every helper thread must finish (else: deadlock of the execution)
      for pool in list(vfutures.ThreadPoolExecutor._pools):
        for w in list(pool._workers):
          w.join()
    return body

  def snapshot(self):
    return len(self.batches)

  def outcome(self, res):
    return (res.failure and res.failure[0], tuple(map(batch_key, self.batches)),
            self.end and self.end[0], repr(self.agg))

  def _cfg(self):
    p = self.params
    th = p['threads']
    k = max(th.values()) if isinstance(th, dict) else th
    where = 'fused' if not p['cuts'] else (
        'chained' if isinstance(th, int) else
        'chained-stage' + '+'.join(str(s) for s in sorted(th, key=str)))
    return (f'{p["source"]}:{where}:T{k}:'
            f'{"agg-in-first-stage" if p["agg_first"] else "agg" if p["agg"] else "no-agg"}'
            f'{":rebatching" if self.rows else ""}')

  def check(self, res):
    cfg = self._cfg()
    if res.failure:
      kind, info = res.failure
      return [(f'C03:threads:{kind}{_stuck(kind, info)}:{cfg}',
               {'failure': kind, 'info': _info(info)})]
    if self.end != ('ok',):
      e = self.end[1] if self.end else None
      return [(f'C03:threads:raised:{type(e).__name__}:{cfg}',
               {'end': repr(self.end)})]
    out = []
    want = bag_of(self.ref.batches, self.rows)
    got = bag_of(self.batches, self.rows)
    if got != want:
      what = 'row' if self.rows else 'batch'
      sym = _symptom(got, want)
      out.append((f'C03:threads:{what}-multiset-differs:{sym}:{cfg}',
                  {'got': sorted(got.items()), 'want': sorted(want.items())}))
    if self.agg != self.ref.agg:
      out.append((f'C03:threads:agg-result-differs:{cfg}',
                  {'got': self.agg, 'want': self.ref.agg}))
    if self.returned != self.ref.returned:
      out.append((f'C03:threads:returned-aggregate-differs:{cfg}',
                  {'got': self.returned, 'want': self.ref.returned}))
    if res.leftover:
      out.append((f'C03:threads:helper-threads-left:{cfg}',
                  {'left': res.leftover}))
    for pool in vfutures.ThreadPoolExecutor._pools:
      alive = pool.alive_workers()
      if alive:
        out.append((f'C03:threads:pool-threads-alive:{cfg}', {'alive': alive}))
      if not pool._shutdown:
        out.append((f'C03:threads:pool-not-shut-down:{cfg}', {}))
    if res.thread_excs:
      out.append((f'C03:threads:worker-exception:{cfg}',
                  {'excs': [(n, repr(e)) for n, e in res.thread_excs]}))
    return out


def _symptom(got, want):
  dup = any(got[k] > want.get(k, 0) and want.get(k, 0) > 0 for k in got)
  lost = any(got.get(k, 0) < v for k, v in want.items())
  new = any(k not in want for k in got)
  return '+'.join(s for s, f in (('duplicated', dup), ('lost', lost),
                                 ('invented', new)) if f) or 'differs'


HARNESSES = {'threaded': Threaded}
