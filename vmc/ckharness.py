"""E1 harness: checkpoint / resume of pipelines that run with worker threads
(C10, `num_threads > 0`), built on the C03 pipeline grammar (vmc/sharness.py).

The main v-thread consumes `cut` batches, captures `it.state`, stops the
original iterator (so that its helper threads end), restores with
`it.from_state(state)` and drains.  Oracle: delivered-before + delivered-after
equals the uninterrupted single-threaded run as a multiset, and the final
aggregate of the restored iterator equals the uninterrupted one.
"""
from __future__ import annotations

from vmc import sched, sharness, vfutures
from vmc.qharness import _info, _stuck


class CheckpointThreaded(sharness.Threaded):
  name = 'checkpoint_threaded'

  def __init__(self, ops=(), agg=None, n=4, source='seq', cuts=(), threads=1,
               mode='preempt', cut=1, pickled=False):
    super().__init__(ops=ops, agg=agg, n=n, source=source, cuts=cuts,
                     threads=threads, mode=mode)
    self.params['cut'] = cut
    self.params['pickled'] = pickled

  def setup(self):
    p = self.params
    self.before, self.after, self.end, self.agg = [], [], None, None

    def body():
      threads = p['threads']
      t = sharness.build_chained(
          tuple(p['ops']), p['agg'],
          sharness.make_source(p['source'], self.records),
          cuts=tuple(p['cuts']), threads=threads)
      try:
        it = t.make().iterate()
        for _ in range(p['cut']):
          try:
            self.before.append(next(it))
          except StopIteration:
            break
        state = it.state
        if p['pickled']:
          from ml_metrics._src.chainables import lazy_fns
          state = lazy_fns.pickler.loads(lazy_fns.pickler.dumps(state))
        it2 = it.from_state(state)
        # the abandoned iterator's helpers must end
        if hasattr(it, 'maybe_stop'):
          it.maybe_stop()
        for b in it2:
          self.after.append(b)
        self.agg = sharness.canon_agg(it2.agg_result)
        self.end = ('ok',)
      except sched.Abort:
        raise
      except BaseException as e:  # pylint: disable=broad-except
        self.end = ('exc', e)
      for pool in list(vfutures.ThreadPoolExecutor._pools):
        for w in list(pool._workers):
          w.join()
    return body

  def snapshot(self):
    return (len(self.before), len(self.after))

  def outcome(self, res):
    return (res.failure and res.failure[0],
            tuple(map(sharness.batch_key, self.before)),
            tuple(map(sharness.batch_key, self.after)),
            self.end and self.end[0], repr(self.agg))

  def check(self, res):
    p = self.params
    cfg = (f'{p["source"]}:T{p["threads"]}:'
           f'{"agg" if p["agg"] else "no-agg"}:'
           f'{"chained" if p["cuts"] else "fused"}')
    if res.failure:
      kind, info = res.failure
      return [(f'C10:threads:{kind}{_stuck(kind, info)}:{cfg}',
               {'failure': kind, 'info': _info(info)})]
    if self.end != ('ok',):
      e = self.end[1] if self.end else None
      return [(f'C10:threads:raised:{type(e).__name__}:{cfg}',
               {'end': repr(self.end)})]
    out = []
    want = sharness.bag_of(self.ref.batches, self.rows)
    got = sharness.bag_of(self.before + self.after, self.rows)
    if got != want:
      missing = sum((want - got).values())
      extra = sum((got - want).values())
      sym = ('elements-skipped' if missing and not extra else
             'elements-repeated' if extra and not missing else
             'elements-skipped-and-repeated')
      out.append((f'C10:threads:{sym}-after-restore:{cfg}',
                  {'cut': p['cut'], 'before': len(self.before),
                   'after': len(self.after), 'missing': sorted((want - got).items()),
                   'extra': sorted((got - want).items())}))
    elif self.agg != self.ref.agg:
      out.append((f'C10:threads:agg-result-differs-after-restore:{cfg}',
                  {'got': self.agg, 'want': self.ref.agg}))
    return out


HARNESSES = {'checkpoint_threaded': CheckpointThreaded}


# ---------------------------------------------------------------------------
# C12 with worker threads: error skipping / first error surfaces
# ---------------------------------------------------------------------------

class Bad(ValueError):
  """The injected (skippable) operator failure."""


class SkipThreaded(sharness.Threaded):
  """params: n records, threads, source kind, fail (list of record indices whose
  operator call raises), ignore (error skipping on/off)."""
  name = 'skip_threaded'

  def __init__(self, n=4, source='seq', threads=1, fail=(1,), ignore=True,
               mode='preempt'):
    super().__init__(ops=(), agg=None, n=n, source=source, threads=threads,
                     mode=mode)
    self.params.update(fail=list(fail), ignore=ignore)

  def setup(self):
    p = self.params
    self.batches, self.end = [], None
    firsts = [r['v'][0] for r in self.records]
    bad = {firsts[i] for i in p['fail'] if i < len(firsts)}

    def op(v):
      if v[0] in bad:
        raise Bad(f'record starting with {v[0]}')
      return [x + 1000 for x in v]

    def body():
      from ml_metrics._src.chainables import transform
      t = transform.TreeTransform.new(
          name='s', num_threads=p['threads']).data_source(
              sharness.make_source(p['source'], self.records)).apply(
                  fn=op, input_keys='v', output_keys='w')
      try:
        it = t.make().iterate(ignore_error=p['ignore'])
        for b in it:
          self.batches.append(b)
        self.end = ('ok',)
      except sched.Abort:
        raise
      except BaseException as e:  # pylint: disable=broad-except
        self.end = ('exc', e)
      for pool in list(vfutures.ThreadPoolExecutor._pools):
        for w in list(pool._workers):
          w.join()
    return body

  def snapshot(self):
    return len(self.batches)

  def outcome(self, res):
    return (res.failure and res.failure[0],
            tuple(sorted(repr(b) for b in self.batches)), self.end and self.end[0])

  def check(self, res):
    p = self.params
    cfg = f'{p["source"]}:T{p["threads"]}:{"skip" if p["ignore"] else "raise"}'
    if res.failure:
      kind, info = res.failure
      return [(f'C12:threads:{kind}{_stuck(kind, info)}:{cfg}',
               {'failure': kind, 'info': _info(info)})]
    out = []
    good = [r for i, r in enumerate(self.records) if i not in p['fail']]
    want = sorted(repr({'w': [x + 1000 for x in r['v']]}) for r in good)
    got = sorted(repr(dict(b)) if hasattr(b, 'items') else repr(b)
                 for b in self.batches)
    if p['ignore']:
      if self.end != ('ok',):
        out.append((f'C12:threads:raised-although-skipping:{cfg}',
                    {'end': repr(self.end)}))
      elif got != want:
        missing = [x for x in want if x not in got]
        sym = 'healthy-elements-lost' if missing else 'extra-or-duplicated-elements'
        out.append((f'C12:threads:{sym}:{cfg}', {'got': got, 'want': want}))
    else:
      if not p['fail']:
        if self.end != ('ok',) or got != want:
          out.append((f'C12:threads:fault-free-run-differs:{cfg}',
                      {'end': repr(self.end), 'got': got}))
      else:
        e = self.end[1] if self.end and self.end[0] == 'exc' else None
        chain, seen = [], 0
        while e is not None and seen < 12:
          chain.append(e)
          e = e.__cause__ or e.__context__
          seen += 1
        if not any(isinstance(x, Bad) for x in chain):
          out.append((f'C12:threads:first-error-not-surfaced:{cfg}',
                      {'end': repr(self.end), 'got': got}))
        if any(x not in want for x in got):
          out.append((f'C12:threads:invented-elements:{cfg}', {'got': got}))
    for pool in vfutures.ThreadPoolExecutor._pools:
      if pool.alive_workers():
        out.append((f'C12:threads:pool-threads-alive:{cfg}', {}))
    return out


HARNESSES['skip_threaded'] = SkipThreaded
