"""Bounded-exhaustive enumeration of nested dict/list/tuple trees (E3 helper).

A *spec* is hashable and describes a tree up to the concrete leaf values:
  'int' | 'str' | 'arr'                      a leaf kind
  ('dict'|'list'|'tuple', (child specs...))  a node
`build(spec)` makes fresh Python objects; leaves carry their depth-first number
so that every leaf of a tree is distinguishable (alignment is observable).
"""
from __future__ import annotations

import itertools as itt

import numpy as np

NODE_KINDS = ('dict', 'list', 'tuple')
LEAF_KINDS = ('int', 'str', 'arr')
# first child of a dict is stored under 'a', the second under the int key 1
DICT_KEYS = ('a', 1, 'c')
RESERVED_LOOKALIKE_KEYS = ('SELF', 'SKIP', 'c')


def specs(depth, max_children=2, leaf_kinds=LEAF_KINDS, node_kinds=NODE_KINDS,
          min_children=0):
  """All specs of depth <= depth (a leaf has depth 0)."""
  out = list(leaf_kinds)
  if depth <= 0:
    return out
  sub = specs(depth - 1, max_children, leaf_kinds, node_kinds, min_children)
  for kind in node_kinds:
    for n in range(min_children, max_children + 1):
      for children in itt.product(sub, repeat=n):
        out.append((kind, children))
  return out


def depth_of(spec):
  if isinstance(spec, str):
    return 0
  return 1 + max((depth_of(c) for c in spec[1]), default=0)


def is_node(spec):
  return not isinstance(spec, str)


def shapes(depth, max_children=2):
  """Specs with a single placeholder leaf kind 'int' (shape only)."""
  return specs(depth, max_children, leaf_kinds=('int',))


def n_leaves(spec):
  if isinstance(spec, str):
    return 1
  return sum(n_leaves(c) for c in spec[1])


def with_leaf_kinds(shape, kinds):
  """Replaces the leaves of a shape, depth-first, by the given kinds."""
  it = iter(kinds)

  def rec(s):
    if isinstance(s, str):
      return next(it)
    return (s[0], tuple(rec(c) for c in s[1]))
  return rec(shape)


def rotated(shape, offset):
  n = n_leaves(shape)
  return with_leaf_kinds(shape, [LEAF_KINDS[(offset + i) % 3] for i in range(n)])


def build(spec, counter=None):
  counter = counter if counter is not None else itt.count(1)
  if isinstance(spec, str):
    i = next(counter)
    if spec == 'int':
      return i
    if spec == 'str':
      return f's{i}'
    return np.array([i, i + 100])
  kind, children = spec
  vals = [build(c, counter) for c in children]
  if kind == 'dict':
    return dict(zip(DICT_KEYS, vals))
  if kind == 'rdict':
    # a mapping whose keys are plain strings spelled like the reserved markers
    return dict(zip(RESERVED_LOOKALIKE_KEYS, vals))
  if kind == 'list':
    return vals
  return tuple(vals)


def show(spec):
  if isinstance(spec, str):
    return spec[0]
  o, c = {'dict': '{}', 'list': '[]', 'tuple': '()', 'rdict': '{}'}[spec[0]]
  return o + ','.join(show(x) for x in spec[1]) + c


def with_lookalike_keys(spec):
  """The same tree with every dict keyed by 'SELF' / 'SKIP' (plain strings)."""
  if isinstance(spec, str):
    return spec
  kind = 'rdict' if spec[0] == 'dict' else spec[0]
  return (kind, tuple(with_lookalike_keys(c) for c in spec[1]))


def has_dict(spec):
  return not isinstance(spec, str) and (
      spec[0] in ('dict', 'rdict') or any(has_dict(c) for c in spec[1]))
