"""Bounded-exhaustive enumeration of nested dict/list/tuple trees (E3 helper).

A *spec* is hashable and describes a tree up to the concrete leaf values:
  'int' | 'str' | 'arr'                      a leaf kind
  ('dict'|'list'|'tuple', (child specs...))  a node
  ('alias', n)                               the very same *object* as the n-th
                                             object of this tree (see below)
`build(spec)` makes fresh Python objects; leaves carry their depth-first number
so that every leaf of a tree is distinguishable (alignment is observable).

Aliased sub-trees: while a tree is built, every object (leaf or node) gets a
number when it is *completed* (post-order: children before their parent, left
before right).  `('alias', n)` stands for object n itself, so the same dict /
list / tuple / ndarray is reachable through more than one path
(`s = [1, 2]; {'a': s, 1: s}`).  Only completed objects can be referenced,
hence no cycles: as a *value* an aliased tree is an ordinary finite tree and
`alias_specs` bounds the depth of that value.
"""
from __future__ import annotations

import itertools as itt

import numpy as np

NODE_KINDS = ('dict', 'list', 'tuple')
LEAF_KINDS = ('int', 'str', 'arr')
# first child of a dict is stored under 'a', the second under the int key 1
DICT_KEYS = ('a', 1, 'c')
RESERVED_LOOKALIKE_KEYS = ('SELF', 'SKIP', 'c')


def specs(depth, max_children=2, leaf_kinds=LEAF_KINDS, node_kinds=NODE_KINDS,
          min_children=0):
  """All specs of depth <= depth (a leaf has depth 0)."""
  out = list(leaf_kinds)
  if depth <= 0:
    return out
  sub = specs(depth - 1, max_children, leaf_kinds, node_kinds, min_children)
  for kind in node_kinds:
    for n in range(min_children, max_children + 1):
      for children in itt.product(sub, repeat=n):
        out.append((kind, children))
  return out


def depth_of(spec):
  """Depth of an alias-free spec (`alias_specs` bounds aliased ones itself)."""
  if isinstance(spec, str):
    return 0
  if spec[0] == 'alias':
    raise ValueError('depth_of: the depth of an alias depends on its context')
  return 1 + max((depth_of(c) for c in spec[1]), default=0)


def is_alias(spec):
  return not isinstance(spec, str) and spec[0] == 'alias'


def n_aliases(spec):
  if isinstance(spec, str):
    return 0
  if spec[0] == 'alias':
    return 1
  return sum(n_aliases(c) for c in spec[1])


ALIAS_TARGETS = NODE_KINDS + ('arr',)


def alias_specs(depth, max_children=2, leaf_kinds=LEAF_KINDS,
                node_kinds=NODE_KINDS, targets=ALIAS_TARGETS):
  """All root nodes of value depth <= depth holding at least one alias.

  Exactly the trees of `specs(depth, ...)` in which one or more children (at
  any level) are replaced, in every possible way, by a reference to an object
  of a kind in `targets` completed earlier in depth-first order, as long as the
  depth of the resulting *value* stays <= depth.  `max_children` is an int or a
  tuple indexed by the level of the node (root = 0; the last entry is used
  for deeper levels).  The empty tuple is never a target (CPython has only one
  `()` object, so an alias of it is not a new tree).
  """
  per_level = max_children if isinstance(max_children, tuple) else (
      max_children,)

  def gen(room, level, built):
    # yields (spec, objects built afterwards, #aliases, depth of the value)
    for k in leaf_kinds:
      yield k, built + ((k, 0, True),), 0, 0
    for n, (kind, d, ok) in enumerate(built):
      if ok and d <= room and kind in targets:
        yield ('alias', n), built, 1, d
    if room <= 0:
      return
    width = per_level[min(level, len(per_level) - 1)]
    for kind in node_kinds:
      for n in range(width + 1):
        for ch, b, na, d in children(n, room - 1, level + 1, built):
          yield (kind, ch), b + ((kind, 1 + d, bool(n) or kind != 'tuple'),), (
              na), 1 + d

  def children(n, room, level, built):
    if n == 0:
      yield (), built, 0, 0
      return
    for s, b, na, d in gen(room, level, built):
      for rest, b2, nb, d2 in children(n - 1, room, level, b):
        yield (s,) + rest, b2, na + nb, max(d, d2)

  return [s for s, _, na, _ in gen(depth, 0, ()) if na and is_node(s)
          and s[0] != 'alias']


def is_node(spec):
  return not isinstance(spec, str)


def shapes(depth, max_children=2):
  """Specs with a single placeholder leaf kind 'int' (shape only)."""
  return specs(depth, max_children, leaf_kinds=('int',))


def n_leaves(spec):
  if isinstance(spec, str):
    return 1
  if spec[0] == 'alias':
    return 0   # no leaf of its own (numbers of objects do not depend on kinds)
  return sum(n_leaves(c) for c in spec[1])


def with_leaf_kinds(shape, kinds):
  """Replaces the leaves of a shape, depth-first, by the given kinds."""
  it = iter(kinds)

  def rec(s):
    if isinstance(s, str):
      return next(it)
    if s[0] == 'alias':
      return s
    return (s[0], tuple(rec(c) for c in s[1]))
  return rec(shape)


def rotated(shape, offset):
  n = n_leaves(shape)
  return with_leaf_kinds(shape, [LEAF_KINDS[(offset + i) % 3] for i in range(n)])


def build(spec, counter=None, built=None):
  """Fresh objects for spec; `built` collects every completed object."""
  counter = counter if counter is not None else itt.count(1)
  built = built if built is not None else []
  if isinstance(spec, str):
    i = next(counter)
    if spec == 'int':
      out = i
    elif spec == 'str':
      out = f's{i}'
    else:
      out = np.array([i, i + 100])
    built.append(out)
    return out
  kind, children = spec
  if kind == 'alias':
    return built[children]
  vals = [build(c, counter, built) for c in children]
  if kind == 'dict':
    out = dict(zip(DICT_KEYS, vals))
  elif kind == 'rdict':
    # a mapping whose keys are plain strings spelled like the reserved markers
    out = dict(zip(RESERVED_LOOKALIKE_KEYS, vals))
  elif kind == 'list':
    out = vals
  else:
    out = tuple(vals)
  built.append(out)
  return out


def show(spec):
  if isinstance(spec, str):
    return spec[0]
  if spec[0] == 'alias':
    return '^%d' % spec[1]   # the same object as the n-th completed object
  o, c = {'dict': '{}', 'list': '[]', 'tuple': '()', 'rdict': '{}'}[spec[0]]
  return o + ','.join(show(x) for x in spec[1]) + c


def with_lookalike_keys(spec):
  """The same tree with every dict keyed by 'SELF' / 'SKIP' (plain strings)."""
  if isinstance(spec, str) or spec[0] == 'alias':
    return spec
  kind = 'rdict' if spec[0] == 'dict' else spec[0]
  return (kind, tuple(with_lookalike_keys(c) for c in spec[1]))


def has_dict(spec):
  return not isinstance(spec, str) and spec[0] != 'alias' and (
      spec[0] in ('dict', 'rdict') or any(has_dict(c) for c in spec[1]))
