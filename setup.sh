#!/bin/sh
# MANIFEST.setup_cmd: nothing to build (pure Python, runs from files on disk);
# creates output directories and runs the engine self-tests.
cd "$(dirname "$0")" || exit 2
mkdir -p evidence replays
export PYTHONHASHSEED=0 PYTHONDONTWRITEBYTECODE=1
if [ -f vmc/selftest.py ]; then
  /venv/bin/python -m vmc.selftest || exit 1
fi
echo setup ok
